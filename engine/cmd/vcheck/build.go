package main

import (
	"encoding/json"
	"fmt"
	"os"
	"os/exec"
	"path/filepath"
	"strings"

	"verif/instr"
)

const modPath = "github.com/bluenviron/gohlslib/v2"

func goEnv() []string {
	env := os.Environ()
	env = append(env,
		"GOFLAGS=-mod=mod", "GOPROXY=off", "GOSUMDB=off", "GOTOOLCHAIN=local",
		"GODEBUG=asynctimerchan=0",
	)
	return env
}

func harnessDirOf(pkg string) string {
	switch pkg {
	case ".":
		return filepath.Join(verifDir, "harness", "root")
	default:
		return filepath.Join(verifDir, "harness", filepath.Base(pkg))
	}
}

// buildHarness generates the overlay for sp's package from /repo's current working tree and compiles the
// test binary into scratch. It returns the path of the binary.
func buildHarness(sp *spec, scratch string, race bool) (string, error) {
	overlay := map[string]string{}
	// 1. virtual runtime packages
	rtDir := filepath.Join(verifDir, "engine", "rt")
	rts, err := os.ReadDir(rtDir)
	if err != nil {
		return "", err
	}
	for _, d := range rts {
		if !d.IsDir() {
			continue
		}
		files, _ := os.ReadDir(filepath.Join(rtDir, d.Name()))
		for _, f := range files {
			if strings.HasSuffix(f.Name(), ".go") {
				name := f.Name()
				src := filepath.Join(rtDir, d.Name(), name)
				// the free-running (-race) build uses the *_free.go variants of the runtime
				overlay[filepath.Join(repoDir, "internal", "zzverif", d.Name(), name)] = src
			}
		}
	}
	// 2. harness files (in-package tests)
	hdir := harnessDirOf(sp.Pkg)
	hfiles, err := os.ReadDir(hdir)
	if err != nil {
		return "", err
	}
	for _, f := range hfiles {
		if !strings.HasSuffix(f.Name(), "_test.go") {
			continue
		}
		src := filepath.Join(hdir, f.Name())
		dst := filepath.Join(repoDir, sp.Pkg, "zz_verif_"+f.Name())
		overlay[dst] = src
		// harness files marked "//verif:instrument" are passed through the rewriter too (their channel operations and
		// selects become scheduling points); "sync" is left alone in them
		if sp.Instrument && !race {
			b, err := os.ReadFile(src)
			if err != nil {
				return "", err
			}
			if strings.Contains(string(b), "//verif:instrument") {
				out, changed, err := instr.Rewrite(dst, b, instr.Config{RuntimeImport: modPath + "/internal/zzverif/vsched", HB: true})
				if err != nil {
					return "", fmt.Errorf("instrument harness %s: %w", src, err)
				}
				if changed {
					idir := filepath.Join(scratch, "instr-harness")
					os.MkdirAll(idir, 0o755)
					p := filepath.Join(idir, f.Name())
					if err := os.WriteFile(p, out, 0o644); err != nil {
						return "", err
					}
					overlay[dst] = p
				}
			}
		}
	}
	// 3. instrumented copies of the package sources (schedule checks only, never for the race pass)
	tags := "verif"
	if race {
		tags = "verif,veriffree"
	}
	if sp.Instrument && !race {
		idir := filepath.Join(scratch, "instr-"+strings.ReplaceAll(sp.Pkg, "/", "_"))
		if err := os.MkdirAll(idir, 0o755); err != nil {
			return "", err
		}
		// monitored fields of the happens-before race monitor: collected over all instrumented packages
		var accFields map[string]bool
		if len(sp.AccessTypes) > 0 {
			all := map[string][]byte{}
			for _, pkg := range append(append([]string{}, sp.instrumentPkgs()...), sp.AccessTypePkgs...) {
				ents, err := os.ReadDir(filepath.Join(repoDir, pkg))
				if err != nil {
					return "", err
				}
				for _, e := range ents {
					n := e.Name()
					if e.IsDir() || !strings.HasSuffix(n, ".go") || strings.HasSuffix(n, "_test.go") {
						continue
					}
					b, err := os.ReadFile(filepath.Join(repoDir, pkg, n))
					if err != nil {
						return "", err
					}
					all[filepath.Join(pkg, n)] = b
				}
			}
			var err error
			accFields, err = instr.CollectFields(all, sp.AccessTypes)
			if err != nil {
				return "", err
			}
			for _, x := range sp.AccessExclude {
				delete(accFields, x)
			}
		}
		for _, pkg := range sp.instrumentPkgs() {
			srcDir := filepath.Join(repoDir, pkg)
			ents, err := os.ReadDir(srcDir)
			if err != nil {
				return "", err
			}
			for _, e := range ents {
				n := e.Name()
				if e.IsDir() || !strings.HasSuffix(n, ".go") || strings.HasSuffix(n, "_test.go") {
					continue
				}
				src := filepath.Join(srcDir, n)
				b, err := os.ReadFile(src)
				if err != nil {
					return "", err
				}
				out, changed, err := instr.Rewrite(src, b, instr.Config{
					RuntimeImport: modPath + "/internal/zzverif/vsched",
					SyncImport:    modPath + "/internal/zzverif/vsync",
					StmtPoints:    sp.StmtPoints,
					AtomicRanges:  sp.AtomicRanges,
					AccessFields:  accFields,
					HB:            true,
				})
				if err != nil {
					return "", fmt.Errorf("instrument %s: %w", src, err)
				}
				if !changed {
					continue
				}
				dst := filepath.Join(idir, strings.ReplaceAll(pkg, "/", "_")+"__"+n)
				if err := os.WriteFile(dst, out, 0o644); err != nil {
					return "", err
				}
				overlay[src] = dst
			}
		}
	}
	ovPath := filepath.Join(scratch, fmt.Sprintf("overlay-%s-%v-%v.json", strings.ReplaceAll(sp.Pkg, "/", "_"), sp.Instrument, race))
	ob, _ := json.Marshal(map[string]any{"Replace": overlay})
	if err := os.WriteFile(ovPath, ob, 0o644); err != nil {
		return "", err
	}
	bin := filepath.Join(scratch, fmt.Sprintf("h-%s-%v-%v.test", strings.ReplaceAll(sp.Pkg, "/", "_"), sp.Instrument, race))
	args := []string{"test", "-tags", tags, "-overlay", ovPath, "-vet=off", "-c", "-o", bin}
	if race {
		args = append(args, "-race")
	}
	args = append(args, "./"+sp.Pkg)
	cmd := exec.Command("go1.26.8", args...)
	cmd.Dir = repoDir
	cmd.Env = goEnv()
	outb, err := cmd.CombinedOutput()
	if err != nil {
		return "", fmt.Errorf("go test -c failed: %v\n%s", err, outb)
	}
	return bin, nil
}
