// vcheck is the driver of the gohlslib model-checking machinery.
//
//	vcheck <property> [--tier quick|thorough] [--params k=v,...] [--jobs n] [--repo dir]
//	vcheck replay <path>
//	vcheck setup
//
// It rebuilds the harness test binary of the property's package from /repo's current working tree
// through a `go build -overlay` (harness files, virtual runtime packages and, for schedule checks,
// mechanically instrumented copies of the package's sources), runs its scenarios sharded over worker
// processes, merges their results, matches known findings, writes /verif/evidence/<id>.json and prints
// VIOLATION lines. Exit 0: property held on everything explored; 1: violation; 2: engine error.
package main

import (
	"encoding/json"
	"flag"
	"fmt"
	"os"
	"path/filepath"
	"runtime"
	"strconv"
	"strings"
	"time"
)

var (
	verifDir = envOr("VERIF_DIR", "/verif")
	repoDir  = envOr("VERIF_REPO", "/repo")
)

func envOr(k, d string) string {
	if v := os.Getenv(k); v != "" {
		return v
	}
	return d
}

func fatal(code int, format string, a ...any) {
	fmt.Fprintf(os.Stderr, "vcheck: "+format+"\n", a...)
	os.Exit(code)
}

func main() {
	if len(os.Args) < 2 {
		fatal(2, "usage: vcheck <property>|replay <path>|setup [flags]")
	}
	switch os.Args[1] {
	case "setup":
		os.Exit(cmdSetup())
	case "replay":
		if len(os.Args) < 3 {
			fatal(2, "usage: vcheck replay <path>")
		}
		os.Exit(cmdReplay(os.Args[2]))
	case "build":
		// vcheck build <property> <dir>: build the harness binary into dir (debugging aid)
		sp := findSpec(os.Args[2])
		if sp == nil {
			fatal(2, "unknown property")
		}
		os.MkdirAll(os.Args[3], 0o755)
		bin, err := buildHarness(sp, os.Args[3], len(os.Args) > 4 && os.Args[4] == "race")
		if err != nil {
			fatal(2, "%v", err)
		}
		fmt.Println(bin)
		return
	case "list":
		for _, s := range specs {
			if !s.Hidden {
				fmt.Println(s.ID, s.Pkg, s.Level)
			}
		}
		return
	}
	id := os.Args[1]
	fs := flag.NewFlagSet("vcheck", flag.ExitOnError)
	tier := fs.String("tier", envOr("VERIF_TIER", "quick"), "quick|thorough")
	params := fs.String("params", "", "k=v,... passed to the harness")
	jobs := fs.Int("jobs", runtime.NumCPU(), "worker processes")
	budget := fs.Duration("budget", 0, "override wall-clock budget")
	noEvidence := fs.Bool("no-evidence", false, "do not write the evidence file (used by selfcheck)")
	only := fs.String("only", "", "substring filter on scenario names")
	fs.Parse(os.Args[2:])
	sp := findSpec(id)
	if sp == nil {
		fatal(2, "unknown property %s", id)
	}
	if *tier != "quick" && *tier != "thorough" {
		fatal(2, "bad tier %s", *tier)
	}
	seed := 0
	if s := os.Getenv("VERIF_SEED"); s != "" {
		seed, _ = strconv.Atoi(s)
	}
	os.Exit(runCheck(sp, *tier, *params, *jobs, *budget, seed, !*noEvidence, *only))
}

func cmdSetup() int {
	// pre-warm the build cache: build every harness binary once (plain and instrumented, and -race).
	scratch, err := os.MkdirTemp("", "vcheck-setup-")
	if err != nil {
		fatal(2, "%v", err)
	}
	defer os.RemoveAll(scratch)
	done := map[string]bool{}
	for i := range specs {
		sp := &specs[i]
		key := fmt.Sprintf("%s|%v", sp.Pkg, sp.Instrument)
		if done[key] {
			continue
		}
		done[key] = true
		t0 := time.Now()
		if _, err := buildHarness(sp, scratch, false); err != nil {
			fmt.Fprintf(os.Stderr, "setup: build %s: %v\n", sp.ID, err)
			return 2
		}
		fmt.Printf("setup: built %s (instrument=%v) in %.1fs\n", sp.Pkg, sp.Instrument, time.Since(t0).Seconds())
	}
	for i := range specs {
		sp := &specs[i]
		if sp.RacePass {
			t0 := time.Now()
			if _, err := buildHarness(sp, scratch, true); err != nil {
				fmt.Fprintf(os.Stderr, "setup: race build %s: %v\n", sp.ID, err)
				return 2
			}
			fmt.Printf("setup: built -race %s in %.1fs\n", sp.Pkg, time.Since(t0).Seconds())
			break
		}
	}
	return 0
}

func cmdReplay(path string) int {
	b, err := os.ReadFile(path)
	if err != nil {
		fatal(2, "%v", err)
	}
	var v struct {
		Property string `json:"property"`
		Tier     string `json:"tier"`
		Params   string `json:"params"`
		Spec     string `json:"spec"`
	}
	if err := json.Unmarshal(b, &v); err != nil {
		fatal(2, "%v", err)
	}
	if v.Spec != "" {
		v.Property = v.Spec
	}
	sp := findSpec(v.Property)
	if sp == nil {
		fatal(2, "unknown property %q in replay file", v.Property)
	}
	scratch, err := os.MkdirTemp("", "vcheck-replay-")
	if err != nil {
		fatal(2, "%v", err)
	}
	defer os.RemoveAll(scratch)
	bin, err := buildHarness(sp, scratch, false)
	if err != nil {
		fatal(2, "build: %v", err)
	}
	abs, _ := filepath.Abs(path)
	out := filepath.Join(scratch, "replay.json")
	res, err := runWorker(sp, bin, workerJob{Mode: "replay", Tier: v.Tier, Out: out, Replay: abs, Params: v.Params, Scratch: scratch})
	if err != nil {
		fatal(2, "replay worker: %v", err)
	}
	if res.EngineError != "" {
		fatal(2, "engine error: %s", res.EngineError)
	}
	if len(res.Violations) == 0 {
		fmt.Printf("replay: no violation reproduced (%d executions)\n", res.Executions)
		return 0
	}
	for _, vi := range res.Violations {
		fmt.Printf("replay: REPRODUCED property=%s signature=%q\n  %s\n", v.Property, vi.Signature, strings.ReplaceAll(vi.Message, "\n", "\n  "))
	}
	return 1
}
