package main

import (
	"context"
	"crypto/sha256"
	"encoding/hex"
	"encoding/json"
	"errors"
	"fmt"
	"os"
	"os/exec"
	"path/filepath"
	"regexp"
	"sort"
	"strconv"
	"strings"
	"sync"
	"time"
)

type scenario struct {
	Name   string `json:"name"`
	Weight int    `json:"weight"`
}

type violation struct {
	Signature string          `json:"signature"`
	Message   string          `json:"message"`
	Scenario  string          `json:"scenario"`
	Replay    json.RawMessage `json:"replay,omitempty"`
	Spec      string          `json:"spec,omitempty"` // the (possibly hidden) spec whose harness produced it
}

type result struct {
	Property    string            `json:"property"`
	Scenarios   []string          `json:"scenarios"`
	Executions  int64             `json:"executions"`
	Decisions   int64             `json:"decisions"`
	States      int64             `json:"states"`
	Transitions int64             `json:"transitions"`
	Steps       int64             `json:"steps"`
	Outcomes    []string          `json:"outcomes"`
	OutcomesCap bool              `json:"outcomes_capped"`
	Samples     []json.RawMessage `json:"samples"`
	Violations  []violation       `json:"violations"`
	Caps        []string          `json:"caps"`
	Counters    map[string]int64  `json:"counters"`
	MaxBound    map[string]int    `json:"max_bound"`
	EngineError string            `json:"engine_error"`
	WallS       float64           `json:"wall_s"`
}

type workerJob struct {
	Mode     string
	Tier     string
	Scen     []int
	Out      string
	Replay   string
	Params   string
	Scratch  string
	Deadline time.Time
	Race     bool
}

func runWorker(sp *spec, bin string, j workerJob) (*result, error) {
	args := []string{"-test.run", "^TestVerif$", "-test.timeout", "0"}
	cmdline := bin
	// every worker runs under a virtual-memory limit (an out-of-memory Go process is unrecoverable)
	sh := fmt.Sprintf("ulimit -v %d; exec %s %s", sp.memLimitKB(), cmdline, strings.Join(args, " "))
	if j.Race {
		sh = fmt.Sprintf("exec %s %s", cmdline, strings.Join(args, " ")) // the race runtime reserves huge virtual ranges
	}
	// hard wall-clock limit: a worker that hangs is an engine error, not a hang of the check
	limit := 15 * time.Minute
	if !j.Deadline.IsZero() {
		limit = time.Until(j.Deadline) + 90*time.Second
		if limit < 2*time.Minute {
			limit = 2 * time.Minute
		}
	}
	cctx, ccancel := context.WithTimeout(context.Background(), limit)
	defer ccancel()
	cmd := exec.CommandContext(cctx, "/bin/sh", "-c", sh)
	cmd.WaitDelay = 30 * time.Second
	cmd.Dir = j.Scratch
	scen := make([]string, len(j.Scen))
	for i, s := range j.Scen {
		scen[i] = strconv.Itoa(s)
	}
	env := append(goEnv(),
		"VERIF_PROP="+sp.harnessKey(), "VERIF_TIER="+j.Tier, "VERIF_MODE="+j.Mode, "VERIF_SCEN="+strings.Join(scen, ","),
		"VERIF_OUT="+j.Out, "VERIF_SCRATCH="+j.Scratch, "VERIF_REPLAY="+j.Replay, "VERIF_PARAMS="+j.Params,
		"GOMAXPROCS="+strconv.Itoa(sp.gomaxprocs()),
	)
	if j.Race {
		env = append(env, "VERIF_FREE=1", "GOMAXPROCS=4")
	}
	if !j.Deadline.IsZero() {
		env = append(env, "VERIF_DEADLINE="+strconv.FormatInt(j.Deadline.Unix(), 10))
	}
	cmd.Env = env
	outb, err := cmd.CombinedOutput()
	if errors.Is(err, exec.ErrWaitDelay) {
		// the worker has exited with status 0 and only its output pipe was slow to drain (a machine under heavy load): its
		// result file decides
		err = nil
	}
	if cctx.Err() != nil {
		return nil, fmt.Errorf("worker exceeded its hard wall-clock limit of %v and was killed (scenarios %v)\n%s", limit, j.Scen, tail(outb, 3000))
	}
	if j.Mode == "list" {
		if err != nil {
			return nil, fmt.Errorf("%v\n%s", err, tail(outb, 4000))
		}
		return nil, nil
	}
	b, rerr := os.ReadFile(j.Out)
	if rerr != nil && j.Race && strings.Contains(string(outb), "WARNING: DATA RACE") {
		return &result{Violations: []violation{{Signature: "data-race " + raceSignature(string(outb)), Message: tail(outb, 6000), Scenario: "race-pass"}},
			Counters: map[string]int64{}, MaxBound: map[string]int{}}, nil
	}
	if rerr != nil {
		if sig := crashSignature(string(outb)); sig != "" {
			// the process died inside library code (Go runtime fatal error or an unrecovered panic on a goroutine the harness
			// does not own): the executions of these scenarios did not satisfy the property
			return &result{Violations: []violation{{Signature: sig, Message: "the worker process crashed while running scenarios " + fmt.Sprint(j.Scen) + ":\n" + firstN(string(outb), 3000), Scenario: "worker-crash"}},
				Counters: map[string]int64{}, MaxBound: map[string]int{}}, nil
		}
		return nil, fmt.Errorf("worker produced no result (%v): %v\n%s\n[...]\n%s", rerr, err, firstN(string(outb), 2500), tail(outb, 2500))
	}
	var r result
	if uerr := json.Unmarshal(b, &r); uerr != nil {
		return nil, fmt.Errorf("bad worker result: %v", uerr)
	}
	if err != nil && j.Race {
		// the race detector makes the process exit non-zero and prints its report
		if strings.Contains(string(outb), "WARNING: DATA RACE") {
			r.Violations = append(r.Violations, violation{
				Signature: "data-race " + raceSignature(string(outb)),
				Message:   tail(outb, 6000),
				Scenario:  "race-pass",
			})
			return &r, nil
		}
	}
	if err != nil && r.EngineError == "" && len(r.Violations) == 0 {
		return &r, fmt.Errorf("worker failed: %v\n%s", err, tail(outb, 6000))
	}
	return &r, nil
}

var crashLineRe = regexp.MustCompile(`(?m)^(fatal error: .*|panic: .*)$`)
var libFrameRe = regexp.MustCompile(`(?m)^github\.com/bluenviron/gohlslib/v2(/pkg/\w+)?\.(\S+?)\(.*\n\s+(\S+):\d+`)

// crashSignature classifies the output of a worker that died without writing a result: a Go fatal error / panic whose
// first goroutine stack passes through library code (not the harness or its runtime). Resource exhaustion is not a crash
// of the library.
func crashSignature(out string) string {
	m := crashLineRe.FindStringIndex(out)
	if m == nil {
		return ""
	}
	line := out[m[0]:m[1]]
	if strings.Contains(line, "out of memory") || strings.Contains(line, "cannot allocate") {
		return ""
	}
	rest := out[m[1]:]
	// the stack of the crashing goroutine is the first one printed
	if i := strings.Index(rest, "\n\ngoroutine "); i >= 0 {
		if k := strings.Index(rest[i+2:], "\n\ngoroutine "); k >= 0 {
			rest = rest[:i+2+k]
		}
	}
	for _, x := range libFrameRe.FindAllStringSubmatch(rest, -1) {
		fn, file := x[2], x[3]
		if strings.Contains(file, "zz_verif") || strings.Contains(file, "zzverif") || strings.HasPrefix(fn, "internal/") {
			continue
		}
		if len(line) > 90 {
			line = line[:90]
		}
		return "crash:" + fn + ":" + line
	}
	return ""
}

var raceFuncRe = regexp.MustCompile(`(?m)^\s+github\.com/bluenviron/gohlslib/v2(\S*?)\(\)\s*\n\s+(\S+):\d+`)

// raceSignature names the innermost library function of each of the two access stacks of a race report.
func raceSignature(out string) string {
	if i := strings.Index(out, "WARNING: DATA RACE"); i >= 0 {
		out = out[i:]
	}
	if i := strings.Index(out, "Goroutine "); i >= 0 {
		out = out[:i] // only the two access stacks
	}
	var fs []string
	for _, stack := range strings.SplitN(out, "Previous ", 2) {
		for _, x := range raceFuncRe.FindAllStringSubmatch(stack, -1) {
			f, file := strings.TrimPrefix(x[1], "."), x[2]
			if strings.Contains(file, "zz_verif") || strings.Contains(file, "zzverif") {
				continue
			}
			fs = append(fs, f)
			break
		}
	}
	sort.Strings(fs)
	return strings.Join(fs, " vs ")
}

func tail(b []byte, n int) string {
	if len(b) > n {
		return "…" + string(b[len(b)-n:])
	}
	return string(b)
}

type knownFinding struct {
	Property string `json:"property"`
	Status   string `json:"status"` // "open" (suppresses, prints KNOWN-FINDING) or "fixed" (documentation only)
	Match    string `json:"match"`  // regexp on the violation signature
	What     string `json:"what"`
	Commit   string `json:"commit,omitempty"`
}

func isKnownSig(prop, sig string) bool {
	for _, k := range loadKnown() {
		if k.Property != prop || k.Status != "open" {
			continue
		}
		if re, err := regexp.Compile(k.Match); err == nil && re.MatchString(sig) {
			return true
		}
	}
	return false
}

func loadKnown() []knownFinding {
	b, err := os.ReadFile(filepath.Join(verifDir, "known_findings.json"))
	if err != nil {
		return nil
	}
	var v struct {
		Findings []knownFinding `json:"findings"`
	}
	if err := json.Unmarshal(b, &v); err != nil {
		fatal(2, "known_findings.json: %v", err)
	}
	return v.Findings
}

// collected is what running the scenarios of one spec yields.
type collected struct {
	results    []*result
	engineErrs []string
	raceInfo   map[string]any
	nOrder     int
	buildS     float64
	fatal      int // != 0: engine error before any scenario ran
}

// collect builds the harness of sp, lists its scenarios and runs them.
func collect(sp *spec, tier, params string, jobs int, deadline time.Time, only string, scratch string) (out collected) {
	start := time.Now()
	bin, err := buildHarness(sp, scratch, false)
	if err != nil {
		fmt.Fprintf(os.Stderr, "vcheck: ENGINE ERROR building harness for %s: %v\n", sp.ID, err)
		out.fatal = 2
		return
	}
	out.buildS = time.Since(start).Seconds()

	// list scenarios
	listOut := filepath.Join(scratch, "list.json")
	if _, err := runWorker(sp, bin, workerJob{Mode: "list", Tier: tier, Out: listOut, Params: params, Scratch: scratch}); err != nil {
		fmt.Fprintf(os.Stderr, "vcheck: ENGINE ERROR listing scenarios: %v\n", err)
		out.fatal = 2
		return
	}
	var scen []scenario
	lb, _ := os.ReadFile(listOut)
	if err := json.Unmarshal(lb, &scen); err != nil {
		fmt.Fprintf(os.Stderr, "vcheck: ENGINE ERROR bad scenario list: %v\n", err)
		out.fatal = 2
		return
	}
	// chunks: heavy scenarios alone, light ones batched
	type chunk struct {
		idx    []int
		weight int
	}
	var chunks []chunk
	order := make([]int, 0, len(scen))
	for i := range scen {
		if only != "" && !strings.Contains(scen[i].Name, only) {
			continue
		}
		order = append(order, i)
	}
	sort.SliceStable(order, func(a, b int) bool { return scen[order[a]].Weight > scen[order[b]].Weight })
	totalW := 0
	for _, i := range order {
		w := scen[i].Weight
		if w <= 0 {
			w = 1
		}
		totalW += w
	}
	target := totalW / (jobs * 6)
	if target < 1 {
		target = 1
	}
	cur := chunk{}
	for _, i := range order {
		w := scen[i].Weight
		if w <= 0 {
			w = 1
		}
		cur.idx = append(cur.idx, i)
		cur.weight += w
		if cur.weight >= target || len(cur.idx) >= 400 {
			chunks = append(chunks, cur)
			cur = chunk{}
		}
	}
	if len(cur.idx) > 0 {
		chunks = append(chunks, cur)
	}

	var mu sync.Mutex
	var results []*result
	var engineErrs []string
	next := 0
	sawViolation := false
	stopAtFirst := os.Getenv("VERIF_STOP_AT_FIRST") != "" // tooling (mutation sweeps): stop dispatching after the first violation
	var wg sync.WaitGroup
	for w := 0; w < jobs; w++ {
		wg.Add(1)
		go func(w int) {
			defer wg.Done()
			for {
				mu.Lock()
				if next >= len(chunks) || (stopAtFirst && sawViolation) {
					mu.Unlock()
					return
				}
				ci := next
				next++
				mu.Unlock()
				wscratch := filepath.Join(scratch, fmt.Sprintf("w%d-%d", w, ci))
				os.MkdirAll(wscratch, 0o755)
				r, err := runWorker(sp, bin, workerJob{Mode: "run", Tier: tier, Scen: chunks[ci].idx,
					Out: filepath.Join(wscratch, "res.json"), Params: params, Scratch: wscratch, Deadline: deadline})
				os.RemoveAll(wscratch)
				mu.Lock()
				if err != nil {
					engineErrs = append(engineErrs, err.Error())
				}
				if r != nil {
					if r.EngineError != "" {
						engineErrs = append(engineErrs, r.EngineError)
					}
					// the worker enumerates the scenarios itself: its list must be the one this process scheduled
					for k, name := range r.Scenarios {
						if k < len(chunks[ci].idx) && name != scen[chunks[ci].idx[k]].Name {
							engineErrs = append(engineErrs, fmt.Sprintf("scenario list is not deterministic: index %d is %q here and %q in the worker", chunks[ci].idx[k], scen[chunks[ci].idx[k]].Name, name))
							break
						}
					}
					results = append(results, r)
					for _, v := range r.Violations {
						if !isKnownSig(sp.propID(), v.Signature) {
							sawViolation = true
						}
					}
				}
				mu.Unlock()
			}
		}(w)
	}
	wg.Wait()

	// optional free-running race pass over the same harness bodies (reported separately)
	raceInfo := map[string]any{}
	if sp.RacePass {
		rbin, err := buildHarness(sp, scratch, true)
		if err != nil {
			engineErrs = append(engineErrs, "race build: "+err.Error())
		} else {
			rs := filepath.Join(scratch, "race")
			os.MkdirAll(rs, 0o755)
			idx := make([]int, 0, len(order))
			idx = append(idx, order...)
			var rmu sync.Mutex
			var rwg sync.WaitGroup
			nw := 4
			iters := int64(0)
			for k := 0; k < nw; k++ {
				rwg.Add(1)
				go func(k int) {
					defer rwg.Done()
					var mine []int
					for q, i := range idx {
						if q%nw == k {
							mine = append(mine, i)
						}
					}
					if len(mine) == 0 {
						return
					}
					ws := filepath.Join(rs, strconv.Itoa(k))
					os.MkdirAll(ws, 0o755)
					r, err := runWorker(sp, rbin, workerJob{Mode: "run", Tier: tier, Scen: mine, Out: filepath.Join(ws, "res.json"),
						Params: params, Scratch: ws, Deadline: time.Now().Add(sp.raceBudget(tier)), Race: true})
					rmu.Lock()
					defer rmu.Unlock()
					if err != nil {
						engineErrs = append(engineErrs, "race pass: "+err.Error())
					}
					if r != nil {
						iters += r.Executions
						// only violations (data races, panics) are taken from the race pass
						rr := &result{Violations: r.Violations, Counters: map[string]int64{}, MaxBound: map[string]int{}}
						results = append(results, rr)
					}
				}(k)
			}
			rwg.Wait()
			raceInfo["free_running_race_iterations"] = iters
			raceInfo["note"] = "auxiliary free-running -race pass over the same harness bodies (not exhaustive, reported separately)"
		}
	}

	for _, r := range results {
		for i := range r.Violations {
			r.Violations[i].Spec = sp.ID
		}
	}
	out.results, out.engineErrs, out.raceInfo, out.nOrder = results, engineErrs, raceInfo, len(order)
	return
}

func runCheck(sp *spec, tier, params string, jobs int, budget time.Duration, seed int, writeEvidence bool, only string) int {
	start := time.Now()
	scratch, err := os.MkdirTemp("", "vcheck-"+sp.ID+"-")
	if err != nil {
		fatal(2, "%v", err)
	}
	defer os.RemoveAll(scratch)
	if budget == 0 {
		budget = sp.budget(tier)
	}
	deadline := start.Add(budget)
	// the spec itself, then the specs whose scenarios belong to the same property but live in another package
	var results []*result
	var engineErrs []string
	raceInfo := map[string]any{}
	nOrder := 0
	buildS := 0.0
	for _, cs := range append([]*spec{sp}, sp.alsoSpecs()...) {
		sub := filepath.Join(scratch, cs.ID+"-"+strings.ReplaceAll(cs.Pkg, "/", "_"))
		os.MkdirAll(sub, 0o755)
		c := collect(cs, tier, params, jobs, deadline, only, sub)
		if c.fatal != 0 {
			return c.fatal
		}
		results = append(results, c.results...)
		engineErrs = append(engineErrs, c.engineErrs...)
		for k, v := range c.raceInfo {
			raceInfo[k] = v
		}
		nOrder += c.nOrder
		buildS += c.buildS
	}
	// merge
	merged := &result{Counters: map[string]int64{}, MaxBound: map[string]int{}}
	outcomes := map[string]struct{}{}
	scenDone := 0
	for _, r := range results {
		merged.Executions += r.Executions
		merged.Decisions += r.Decisions
		merged.States += r.States
		merged.Transitions += r.Transitions
		merged.Steps += r.Steps
		scenDone += len(r.Scenarios)
		for _, o := range r.Outcomes {
			outcomes[o] = struct{}{}
		}
		merged.OutcomesCap = merged.OutcomesCap || r.OutcomesCap
		for _, s := range r.Samples {
			if len(merged.Samples) < 8 {
				merged.Samples = append(merged.Samples, s)
			}
		}
		merged.Violations = append(merged.Violations, r.Violations...)
		for _, c := range r.Caps {
			merged.Caps = appendUniq(merged.Caps, c)
		}
		for k, v := range r.Counters {
			merged.Counters[k] += v
		}
		for k, v := range r.MaxBound {
			merged.MaxBound[k] = v
		}
	}
	if len(engineErrs) > 0 {
		sort.Strings(engineErrs)
		fmt.Fprintf(os.Stderr, "vcheck: ENGINE ERROR in %s (%d):\n%s\n", sp.ID, len(engineErrs), firstN(engineErrs[0], 6000))
		if len(merged.Violations) == 0 {
			return 2
		}
		merged.Caps = appendUniq(merged.Caps, fmt.Sprintf("%d worker(s) ended with an engine error", len(engineErrs)))
	}

	// classify violations
	known := loadKnown()
	type cls struct {
		v     violation
		count int
	}
	bySig := map[string]*cls{}
	var sigs []string
	for _, v := range merged.Violations {
		if c, ok := bySig[v.Signature]; ok {
			c.count++
			continue
		}
		bySig[v.Signature] = &cls{v: v, count: 1}
		sigs = append(sigs, v.Signature)
	}
	sort.Strings(sigs)
	nViol := 0
	var knownLines []string
	os.MkdirAll(filepath.Join(verifDir, "replays"), 0o755)
	for _, sig := range sigs {
		c := bySig[sig]
		matched := false
		for _, k := range known {
			if k.Property != sp.ID || k.Status != "open" {
				continue
			}
			re, err := regexp.Compile(k.Match)
			if err != nil {
				fatal(2, "known_findings.json: bad match %q: %v", k.Match, err)
			}
			if re.MatchString(sig) {
				matched = true
				knownLines = append(knownLines, fmt.Sprintf("KNOWN-FINDING: property=%s %s [signature %q, %d occurrence(s)]", sp.ID, k.What, sig, c.count))
				break
			}
		}
		if matched {
			continue
		}
		nViol++
		h := sha256.Sum256([]byte(sp.ID + "|" + sig))
		path := filepath.Join(verifDir, "replays", sp.ID+"-"+hex.EncodeToString(h[:6])+".json")
		rb, _ := json.MarshalIndent(map[string]any{
			"property": sp.ID, "tier": tier, "params": params, "signature": sig, "message": c.v.Message,
			"scenario": c.v.Scenario, "replay": c.v.Replay, "occurrences": c.count, "spec": c.v.Spec,
		}, "", " ")
		os.WriteFile(path, rb, 0o644)
		fmt.Printf("VIOLATION property=%s replay=%s\n", sp.ID, path)
		fmt.Printf("  signature: %s\n  scenario: %s\n  %s\n", sig, c.v.Scenario, strings.ReplaceAll(firstN(c.v.Message, 3000), "\n", "\n  "))
	}
	sort.Strings(knownLines)
	seenK := map[string]bool{}
	for _, l := range knownLines {
		if !seenK[l] {
			fmt.Println(l)
			seenK[l] = true
		}
	}

	wall := time.Since(start).Seconds()
	exhaustive := len(merged.Caps) == 0 && scenDone >= nOrder
	if writeEvidence {
		ev := buildEvidence(sp, tier, seed, merged, len(outcomes), exhaustive, wall, buildS, nOrder, scenDone, nViol, raceInfo, budget)
		eb, _ := json.MarshalIndent(ev, "", " ")
		os.MkdirAll(filepath.Join(verifDir, "evidence"), 0o755)
		if err := os.WriteFile(filepath.Join(verifDir, "evidence", sp.ID+".json"), eb, 0o644); err != nil {
			fatal(2, "write evidence: %v", err)
		}
	}
	fmt.Printf("%s tier=%s scenarios=%d/%d executions=%d states=%d transitions=%d steps=%d distinct_outcomes=%d violations=%d known=%d exhaustive=%v caps=%d wall=%.1fs (build %.1fs)\n",
		sp.ID, tier, scenDone, nOrder, merged.Executions, merged.States, merged.Transitions, merged.Steps, len(outcomes), nViol, len(seenK), exhaustive, len(merged.Caps), wall, buildS)
	if nViol > 0 {
		return 1
	}
	return 0
}

func firstN(s string, n int) string {
	if len(s) > n {
		return s[:n] + "…"
	}
	return s
}

func appendUniq(a []string, s string) []string {
	for _, x := range a {
		if x == s {
			return a
		}
	}
	return append(a, s)
}

func buildEvidence(sp *spec, tier string, seed int, m *result, distinct int, exhaustive bool, wall, buildS float64,
	nScen, scenDone, nViol int, raceInfo map[string]any, budget time.Duration) map[string]any {
	samples := make([]any, 0, len(m.Samples))
	for _, s := range m.Samples {
		var v any
		json.Unmarshal(s, &v)
		samples = append(samples, v)
	}
	cov := map[string]any{
		"evaluations":              m.Executions,
		"distinct_nontrivial":      distinct,
		"rule":                     sp.Rule,
		"samples":                  samples,
		"exhaustive":               exhaustive,
		"scenarios_listed":         nScen,
		"scenarios_completed":      scenDone,
		"decisions":                m.Decisions,
		"oracle_steps":             m.Steps,
		"caps_hit":                 m.Caps,
		"counters":                 m.Counters,
		"distinct_outcomes_capped": m.OutcomesCap,
		"wall_budget_s":            budget.Seconds(),
		"build_s":                  buildS,
	}
	if len(m.MaxBound) > 0 {
		minB, maxB := 1<<30, -1
		for _, b := range m.MaxBound {
			if b < minB {
				minB = b
			}
			if b > maxB {
				maxB = b
			}
		}
		cov["deviation_bound_completed_min"] = minB
		cov["deviation_bound_completed_max"] = maxB
	}
	if sp.Level == "model_checking" {
		st, tr := m.States, m.Transitions
		if st == 0 {
			st = m.Executions // schedule exploration: every explored schedule is one terminal state of the execution tree
		}
		if tr == 0 {
			tr = m.Decisions
		}
		cov["states"] = st
		cov["transitions"] = tr
		cov["traces_validated_against_impl"] = m.Executions
		cov["explanation"] = "the explored object is the implementation itself (instrumented through a build overlay), so every explored trace is an execution of the real code"
	}
	for k, v := range raceInfo {
		cov[k] = v
	}
	return map[string]any{
		"property_id": sp.ID,
		"tier":        tier,
		"seed":        seed,
		"level":       sp.Level,
		"coverage":    cov,
		"assumptions": sp.Assumptions,
		"wall_s":      wall,
		"violations":  nViol,
	}
}
