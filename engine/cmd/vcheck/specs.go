package main

import "time"

type spec struct {
	// Prop is the property id handed to the harness (default ID); Also names hidden specs whose scenarios belong to the
	// same property but live in another package: they are run by the same command and merged into the same evidence.
	Prop         string
	HarnessKey   string // name under which the harness registered the scenarios (default: the property id)
	Also         []string
	Hidden       bool
	ID           string
	Pkg          string // package directory relative to the repository root
	Level        string // evidence level
	Instrument   bool   // build with mechanically instrumented sources (schedule exploration)
	InstrPkgs    []string
	StmtPoints   []string // functions that get statement-level scheduling points
	AtomicRanges []string // functions whose range loops run without scheduling points (random map iteration order)
	RacePass     bool
	Rule         string
	Assumptions  []string
	QuickBudget  time.Duration
	ThorBudget   time.Duration
	MemKB        int64
	Procs        int
	// happens-before race monitor: every access to a field of these struct types (declared in the instrumented packages
	// or in AccessTypePkgs) is checked; AccessExclude removes field names (e.g. immutable configuration)
	AccessTypes    []string
	AccessTypePkgs []string
	AccessExclude  []string
}

func (s *spec) instrumentPkgs() []string {
	if len(s.InstrPkgs) > 0 {
		return s.InstrPkgs
	}
	return []string{s.Pkg}
}

func (s *spec) budget(tier string) time.Duration {
	if tier == "thorough" {
		if s.ThorBudget > 0 {
			return s.ThorBudget
		}
		return 25 * time.Minute
	}
	if s.QuickBudget > 0 {
		return s.QuickBudget
	}
	return 300 * time.Second // a deadline for loaded machines, not a size: the quick tiers take 3-170 s on an idle 16-core machine
}

func (s *spec) raceBudget(tier string) time.Duration {
	if tier == "thorough" {
		return 3 * time.Minute
	}
	return 25 * time.Second
}

func (s *spec) memLimitKB() int64 {
	if s.MemKB > 0 {
		return s.MemKB
	}
	return 6 * 1024 * 1024
}

func (s *spec) gomaxprocs() int {
	if s.Procs > 0 {
		return s.Procs
	}
	return 2
}

func (s *spec) propID() string {
	if s.Prop != "" {
		return s.Prop
	}
	return s.ID
}

func (s *spec) harnessKey() string {
	if s.HarnessKey != "" {
		return s.HarnessKey
	}
	return s.propID()
}

func (s *spec) alsoSpecs() []*spec {
	var out []*spec
	for _, id := range s.Also {
		if x := findSpec(id); x != nil {
			out = append(out, x)
		}
	}
	return out
}

func findSpec(id string) *spec {
	for i := range specs {
		if specs[i].ID == id {
			return &specs[i]
		}
	}
	return nil
}

var commonAssumptions = []string{
	"Go toolchain go1.26.8 and the module's pinned dependencies (mediacommon, go-astits) are trusted",
	"harness is compiled into the package through `go test -overlay` from /repo's current working tree",
}

var e1Assumptions = append([]string{
	"media bytes are read back with mediacommon's decoders (fmp4.Parts / fmp4.Init / mpegts.Reader); the muxer uses mediacommon's encoders",
	"H264 (except the reorder family) / H265 units carry a slice NALU and parameter sets without picture reordering (DTS = PTS); in the reorder family the decode time of a unit is defined as what mediacommon's h264.DTSExtractor derives from the written PTS / picture-order-count sequence; Track.ClockRate is the codec's natural rate",
}, commonAssumptions...)

var schedAssumptions = append([]string{
	"sequential consistency at statement granularity: scheduling points are the library's own synchronisation operations (mutex, rwmutex, cond, waitgroup, channel, select, context cancel, context.AfterFunc, go) plus configured statement-level points",
	"testing/synctest's definition of durably blocked and its fake clock; a timer never fires while a thread is still enabled",
	"race monitor: happens-before is over-approximated per channel (one clock per channel) and sync/atomic, sync.Once and the rendezvous edge of unbuffered channels are not modelled (the instrumented code uses none of them for publication)",
}, commonAssumptions...)

// struct types whose fields are shared between the writer and the request handlers (race monitor)
var muxerSharedTypes = []string{"Muxer", "muxerStream", "muxerSegmentFMP4", "muxerSegmentMPEGTS", "muxerGap", "muxerPart", "muxerTrack", "muxerSegmenter", "muxerServer", "Track",
	"fileDisk", "fileRAM", "partDisk", "partRAM", "H264", "H265", "AV1", "VP9", "MPEG4Audio", "Opus"}

var specs = []spec{
	{ID: "C09", Pkg: ".", Level: "model_checking", Instrument: true, Procs: 1, ThorBudget: 45 * time.Minute,
		AtomicRanges: []string{"clientStreamProcessorMPEGTS.joinTrackProcessors"},
		Rule:         "end-to-end runs in one synctest bubble under the controlled scheduler: a writer thread paces a 14 s word (regular GOPs; a parameter change and an extra key frame; new parameter sets announced with an ordinary frame and bare key frames afterwards; sparse key frames; H264 with reordered frames; Opus writes of three packets of different durations) on the virtual clock into a real Muxer, a real Client attached at 2.6 / 4.3 / 5.9 s reads it through an in-process transport that serves every request in its own thread; 16 muxer configurations (MPEG-TS, fMP4, Low-Latency x H264/H264 with reordering/H265/VP9/AV1/AAC/Opus, audio-before-video with named / default renditions, audio-only) x entry point {multivariant, leading media playlist} x three canonical schedules; plus runs in which the k-th segment request spends 2.5..6.5 s on its way so that the segment has left the window (SegmentCount 3..5), where the session may end with an error but never delivers a run with a hole; the in-process transport answers like net/http (unknown path: empty 200); reordered H265 (presentation ahead of decode time by what the slice kind implies) on fMP4 with audio and on Low-Latency (quick: plus every schedule one deviation away from the run-until-blocked schedule for two configurations; thorough: for every configuration and word on the multivariant entry point, two attach times); distinct = distinct (scenario, tracks, delivered units, end)",
		Assumptions:  schedAssumptions},
	{ID: "C12", Pkg: ".", Level: "model_checking", Instrument: true, Procs: 1,
		AtomicRanges: []string{"clientStreamProcessorMPEGTS.joinTrackProcessors"},
		Rule:         "delay-bounded schedule enumeration (every non-default decision costs one; bound 1 quick / 2 thorough, one more with two closers) of the real Client against the scripted transport: streams {fMP4 one playlist, fMP4 video + audio rendition, MPEG-TS, MPEG-TS with a 120-unit segment that fills the sample hand-off queue, Low-Latency with preload hints} x fault {none, 404, 500, transport error, body that stalls until cancelled, 503 whose body stalls, a body cut off in the middle of its announced length, a transport error that is a context.DeadlineExceeded (http.Client.Timeout), OnTracks error} at every request index x {no Close, Close by a concurrent thread whose single step is thereby placed at every decision point, two Close calls} plus Close called from inside the k-th user callback; an fMP4 stream with three fragments per segment and two tracks, and one whose leading init segment announces an extra track the client cannot decode (the leading stream ends with an error while the rendition waits for it), are among the streams; an execution in which one thread makes every step and never blocks until the step budget is used up is reported as a livelock of the code; distinct = distinct (stream, fault, end, closed-before-end, callback count/4)",
		Assumptions:  schedAssumptions},
	{ID: "C13", Pkg: ".", Level: "fault_enumeration", Instrument: true, Procs: 1,
		Rule:        "finite mutation catalogue applied to every resource of six base scenarios (fMP4 video+audio in one playlist, fMP4 video + audio rendition through a multivariant playlist, MPEG-TS video+audio, MPEG-TS video + audio rendition, MPEG-TS byte ranges, a Low-Latency stream whose playlist differs at every poll - every mutation applied to each poll's playlist): empty body, the body of every other resource, init segments with every codec mediacommon can put into fMP4 (12) alone and next to H264 / AAC, permuted / duplicated / gapped track ids, zero time scales, 12 tracks, fragments without leading-track data, with unknown or swapped track ids, huge base times and durations, 30 fragments, MPEG-TS payloads with other codecs or without leading-track data, garbage; truncation at every box boundary and after every box header, removal and duplication of every box, box sizes 0 and 2^32-1, every 32-bit word of tfhd/tfdt/trun/mfhd/mdhd/mvhd/tkhd/trex set to {0,1,2^31,2^32-1}, tfdt base time in {0,1,2^31,2^32-1,2^63,2^64-1}; truncation at every TS packet boundary and inside every packet, corrupted sync / header bytes of every packet; playlists: every line deletion and duplication, every attribute value and plain tag value replaced by each of 9 / 12 degenerate values, the segments k.. of a media playlist marked EXT-X-GAP (every k), truncation at every (3rd) byte, every stored fuzz-corpus text and a few adversarial playlists; each case is one run of the real Client; distinct = distinct (scenario, resource, mutation kind, end, delivered units)",
		Assumptions: append([]string{"client goroutines are scheduled by the Go runtime inside a testing/synctest bubble (virtual clock); a 60 s real-time watchdog attributes hangs / busy loops"}, commonAssumptions...)},
	{ID: "C10", Pkg: ".", Level: "exploration", Instrument: true, Procs: 1,
		Rule:        "full product (quick: minus combinations that only multiply independent options) of container {MPEG-TS, fMP4} x base time {0, 1 tick, 6 s, 2^32-0.5 s, 2^33-1.5 s with the wrap inside the stream (TS) / 2^40 (fMP4)} x tracks {video, audio, video+audio in one playlist in both orders, video + 1..3 audio renditions with timescales 48000/44100/32000} x presentation offsets {none, B-frame pattern} x fragments per segment {1, 3} (+ 10, 11, 12, 16) x addressing {files, byte ranges of one resource incl. the init with explicit offsets, the same with every offset after the first omitted} x PROGRAM-DATE-TIME {absent, present} x {VOD, live start} x audio {aligned, 100 ms ahead and multiplexed first, 100 ms behind}; plus fMP4 codec families (H265 announced as hvc1 and as hev1, AV1, VP9 x AAC, Opus), fMP4 video timescales {600 Hz, 1 kHz, 90 kHz, 10 MHz} x base times up to 2^40 ticks of that timescale and MPEG-TS with an unsupported elementary stream at every position of the program map; streams played for more than 2^32 ticks of 90 kHz (14 segments of 4000 s, units 8 s apart, also starting one hour before the 33-bit wrap) and units exactly 10 s apart; each stream is synthesised with mediacommon's writers, served by the scripted transport and read by the real Client in a synctest bubble; reference model: the list of units with container times; distinct = distinct (case, delivered unit count)",
		Assumptions: append([]string{"streams are synthesised with mediacommon's MPEG-TS / fMP4 writers", "client goroutines are scheduled by the Go runtime inside a testing/synctest bubble (virtual clock)"}, commonAssumptions...)},
	{ID: "C11", Pkg: ".", Level: "model_checking", Instrument: true, Procs: 1,
		Rule:        "explicit enumeration of playlist histories: the server answers the n-th playlist poll after the events {advance the media sequence by 0,1,2,3,6; append ENDLIST} chosen for every poll, all histories to depth 4 (5), x window size {1,2,3,4,6,10} x type {none, EVENT, VOD} x URI style {relative, absolute, with query, byte range with start, byte range without start, non-contiguous explicit ranges alternating with offset-less ones, Low-Latency playlists with preload hints for whole resources and for byte ranges of one resource (start left out when 0; EXT-X-SERVER-CONTROL also carries HOLD-BACK; the init section is then a sub-range of its resource too), variant and renditions in different directories against a server strict about paths, every form of relative reference of RFC 3986 (query-only, absolute path, dot segments, network path), delta updates advertised to (and honoured for) a client in traditional mode, blocking reloads advertised without a preload hint (traditional mode all the same), EXT-X-ENDLIST before the segments} and, with a multivariant entry point, two renditions evolving independently (all depth-3 x depth-2 history pairs); each history is one run of the real Client against a scripted in-process transport inside a synctest bubble; reference model: an integer (next media sequence number) predicting the exact request sequence, Range headers and the final error; states = histories, transitions = events; distinct = distinct (scenario, end, request counts)",
		Assumptions: append([]string{"client goroutines are scheduled by the Go runtime inside a testing/synctest bubble (virtual clock); the schedule is not enumerated for this property, the playlist history is"}, commonAssumptions...)},
	{ID: "C14", Pkg: "pkg/playlist", Level: "exploration", Procs: 2,
		Rule:        "all 2^12 presence combinations of the optional top-level fields of Media x 3 (5) value sets, all 2^10 of Multivariant (variant attributes, second variant, renditions of every referenced type with rotating attribute subsets) x 4 (6) value sets, segment lists of length 1-3 over all 2^7 segment-level flag subsets x 5 value sets with keys changing between segments, every non-empty subset of EXT-X-SERVER-CONTROL attributes, one line of 4095..100001 bytes at each of 10 positions (before / after the line that decides the kind), 16 durations on and off the 10 us grid around every rounding boundary in each of the 7 duration-carrying fields; boundary values per field (titles with commas, quotes, '#' and non-ASCII text, ints 0/1/2^31-1, durations 10 us..3599.99999 s, times in three zones with ms 0/1/999, byte ranges with and without start); for each value: Unmarshal(Marshal(p)) = p field by field, Marshal fixpoint, kind detection, agreement with an independent reader, and every syntactic variant (CRLF, no trailing newline, unknown tag / comment / blank line at every line position with LF and with CRLF line ends, EXT-X-ENDLIST at every legal position, all attribute permutations up to 4 attributes and rotations/reversal/adjacent swaps beyond, an unknown attribute at every position) decodes to the same value; distinct = distinct marshalled texts",
		Assumptions: commonAssumptions},
	{ID: "C15-muxer", Prop: "C15", Hidden: true, Pkg: ".", Level: "exploration", Procs: 2, Assumptions: e1Assumptions},
	{ID: "C15", Pkg: "pkg/playlist", Level: "exploration", Procs: 2, Also: []string{"C15-muxer"},
		Rule:        "(a) decoder: every truncation, single-byte deletion, substitution by each of 16 structural bytes (incl. space and tab), insertion of 4 structural bytes, line deletion / duplication / swap / replacement by white space of every text of the stored fuzz corpora and in-code seeds, plus every sentence of 4 (5) lines over a 27-line menu of valid and degenerate tags (both preload-hint types, a duration that rounds to zero seconds, EXT-X-SKIP): no panic, and on success the structural guarantees callers rely on and a successful Marshal; (b) encoder: the strict RFC 8216 / 8216bis grammar checker on Marshal of every C14 value; (c) every playlist a muxer serves: media, multivariant, blocking and delta playlists fetched after every write of depth-3 (4) write trees over the E1 configuration grid and of long words with query strings (incl. one that needs escaping), checked with the same grammar and with the library's own decoder; distinct = distinct accepted texts / marshalled texts",
		Assumptions: commonAssumptions},
	{ID: "C08", Pkg: ".", Level: "model_checking", Instrument: true, RacePass: true, Procs: 1,
		InstrPkgs:   []string{".", "pkg/storage"},
		StmtPoints:  []string{"partDisk.Reader", "fileDisk.Finalize", "fileDisk.Reader", "fileDisk.NewPart", "fileRAM.Finalize", "fileRAM.Reader"},
		AccessTypes: muxerSharedTypes, AccessTypePkgs: []string{"pkg/codecs"},
		Rule:        "all interleavings with at most b deviations (b=2 for two readers; one reader: 2 quick / 3 thorough; thorough adds bases, warm-up points and five times as many reader pairs) of a writer (scripts: plain frames, part / segment rotation that finalises and removes disk files, window slide, parameter change, a three-times longer segment that raises the target duration, Close) with 1-2 readers each running a 2-request script over the whole URL alphabet (multivariant, media playlist plain / with a query string / blocking / delta, init, segment, part, preload hint, expired, unknown, and follow-ups of a URI taken from the reader's own previous playlist), for Low-Latency / fMP4 / MPEG-TS with RAM and Directory storage; scheduling points: the library's synchronisation operations plus every statement of the storage functions that run outside the muxer mutex; distinct = distinct (scenario, statuses); the data-race clause is decided inside every explored execution by a happens-before monitor (vector clocks over the program's own synchronisation: mutex release/acquire, channel send/close/receive, context cancel, WaitGroup, thread creation - scheduler hand-offs contribute no edge; every access to a field of the muxer, stream, segment, part, track, storage and codec structs is checked against the previous conflicting accesses of the same address), and additionally sampled by a free-running -race pass over the same bodies",
		Assumptions: schedAssumptions},
	{ID: "C19", Pkg: ".", Level: "exploration", Procs: 1,
		Rule:        "complete grid: constant sample duration in {90000/f ticks for 17 (all divisor and 7-/11-multiple) frame rates 1..120, 3003, 1501, 3754 at 90 kHz; 1024 samples at the 13 standard AAC rates, also 2 and 3 access units per call and HE-AAC (explicit SBR); Opus 2.5-60 ms} x PartMinDuration 50..2000 ms step 50 (5) plus off-grid values {51, 101, 104, 202, 251, 333, 999, 1001 ms} x SegmentMinDuration {1, 2 s} x key-frame spacing {every sample, 0.5 s, 1 s, 2.5 s, three irregular patterns incl. a short first segment}, and video-led with an audio track of each of 4 kinds starting {0, 0.5, 1.25 s} late or listed before the video track, audio-only streams with a second audio track (plain or marked default); time stamps that start ten days into the clock; each run long enough for three segments; every playlist of every stream served after a part is published is checked (the rendition playlists for the clauses relating a listed part to the PART-TARGET of its own playlist); distinct = distinct (grid point, observed part duration and PART-TARGET)",
		Assumptions: e1Assumptions},
	{ID: "C18", Pkg: ".", Level: "exploration", Procs: 2,
		Rule:        "retention (also after storage faults at a rotation: the next segment file cannot be created, or - MPEG-TS - the final flush of the finished segment fails, every rotation index): all periodic words of period <= 2 (3) of every alphabet family on the configuration grid plus one 1200-write (12000-write) word per variant x RAM/disk x SegmentCount {min, min+2, +3, +5, +9}, observing after every write playlist length, files in Directory, URL-table size and that URIs of expired segments and of their parts neither resolve nor remain in the URL table; size: depth-5 (7) trees over payload sizes {5,6,8 bytes, key frame} for every SegmentMaxSize in 40..62 (video) / 10..16 (audio) / 40..60 (video + audio, bytes counted per stream), Low-Latency with the bytes of a segment spread over several parts, so that the running total lands below, on and above the limit at every position; distinct = distinct (configuration, final playlists, unit counts)",
		Assumptions: e1Assumptions},
	{ID: "C16", Pkg: ".", Level: "exploration", Procs: 2,
		Rule:        "every track list Start accepts with <= 4 tracks (every position of at most one video track among 0..3 audio tracks, codecs H264/H265/VP9/AV1/AAC/Opus, names/languages set or not (incl. names with a backslash, non-ASCII spaces and separators), IsDefault on none or on each single audio track) x variant x query string {none, canonical, keys out of order, key without value, escape, pair a parser rejects}, each driven by a word with regular GOPs, parameter changes on and off key frames (every component / one component), in an access unit of their own, and bare key frames, index.m3u8 observed after every write, a third of the configurations also from Directory storage; plus depth-N trees over {0, S/2, S} x {RA, RA+parameter switch, non-RA} for zero-duration segments; an index.m3u8 request issued before the first Write and pending while the parameter sets change (every word over {key frame, key frame with new parameter sets, ordinary frame} to depth 5 (7), 7 variant x codec combinations) must get the answer a request issued at that moment gets; expected codec strings, resolutions and frame rates come from an independent formatter and mediacommon's test vectors; distinct = distinct (configuration, final playlists)",
		Assumptions: e1Assumptions},
	{ID: "C01", Pkg: ".", Level: "exploration", Procs: 2,
		Rule:        "words over a finite write alphabet (timing family: delta in {0, one frame, S-1 tick, S, 1.4 S} x {random access, not}; parameter family: {one frame, S} x {RA with / without inline parameter sets, non-RA (H265: every non-IRAP slice type in turn - TRAIL, TSA, STSA, RADL, RASL, _N and _R), parameter switch on RA / on non-RA, an access unit of parameter sets only (H264); every third ordinary H264 unit carries an SEI recovery_point}, the switched set differing in every component or in exactly one; interleaving family: all tracks x 2 deltas x 2 kinds, 1- and 2-AU audio writes, 1- and 3-packet Opus writes whose packets last 20/10/40 ms (Opus also as the leading track of audio-only streams), HE-AAC with explicit SBR signalling; audio family; reorder family (also with a parameter switch that changes the PPS only): H264 with picture-order-count reordering and H265 with sps_max_num_reorder_pics = 2 (slice headers of mediacommon's test stream), {one frame, S} x {IDR, P, P written ahead of a B, that B} + IDR at S-1 tick + parameter switch, the written decode time being the one mediacommon's DTS extractor derives from the written PTS/POC sequence) enumerated exhaustively as depth-N trees (from the initial state, after a regular preamble that fills the window, from negative start times, from start times of 28.5 h so that 2^63 ns / 10^9 ticks products are crossed inside the word) and as all periodic words of period <= 2 (3) run for 12 (16) x SegmentCount writes, plus long groups of pictures with more than 100 single-unit audio writes per segment, NTSC video next to 44.1 kHz audio (C03, C04), playlists fetched from inside OnEncodeError whenever a stream's lock is free there, on a configuration grid (variant x track set incl. audio-before-video x codecs incl. H264 (also with reordered frames) on a 1 kHz clock and 48 kHz AAC on a 90 kHz clock in MPEG-TS, a small SegmentMaxSize x RAM/disk x SegmentCount x SegmentMinDuration {0.25, 0.5, 1, 2 s} x PartMinDuration {100, 200 ms}; Variant / SegmentMinDuration / PartMinDuration left at their zero values with SegmentCount 3..8), plus audio-only MPEG-TS periodic words of 430 writes (a cut needs 100 writes) and fault scenarios (the creation of the k-th segment file / a write to the k-th part fails; random-access units k and k+1 carry unparsable parameter sets; the first segment file of a later stream cannot be created; every k); after every write everything the muxer advertises is fetched through Handle (full playlist, delta update, never-advertised names), decoded with mediacommon and compared with a reference model of the written stream; distinct = distinct (configuration, final playlists, emitted-unit counts)",
		Assumptions: e1Assumptions},
	{ID: "C02", Pkg: ".", Level: "exploration", Procs: 2,
		Rule:        "words over a finite write alphabet (timing family: delta in {0, one frame, S-1 tick, S, 1.4 S} x {random access, not}; parameter family: {one frame, S} x {RA with / without inline parameter sets, non-RA (H265: every non-IRAP slice type in turn - TRAIL, TSA, STSA, RADL, RASL, _N and _R), parameter switch on RA / on non-RA, an access unit of parameter sets only (H264); every third ordinary H264 unit carries an SEI recovery_point}, the switched set differing in every component or in exactly one; interleaving family: all tracks x 2 deltas x 2 kinds, 1- and 2-AU audio writes, 1- and 3-packet Opus writes whose packets last 20/10/40 ms (Opus also as the leading track of audio-only streams), HE-AAC with explicit SBR signalling; audio family; reorder family (also with a parameter switch that changes the PPS only): H264 with picture-order-count reordering and H265 with sps_max_num_reorder_pics = 2 (slice headers of mediacommon's test stream), {one frame, S} x {IDR, P, P written ahead of a B, that B} + IDR at S-1 tick + parameter switch, the written decode time being the one mediacommon's DTS extractor derives from the written PTS/POC sequence) enumerated exhaustively as depth-N trees (from the initial state, after a regular preamble that fills the window, from negative start times, from start times of 28.5 h so that 2^63 ns / 10^9 ticks products are crossed inside the word) and as all periodic words of period <= 2 (3) run for 12 (16) x SegmentCount writes, plus long groups of pictures with more than 100 single-unit audio writes per segment, NTSC video next to 44.1 kHz audio (C03, C04), playlists fetched from inside OnEncodeError whenever a stream's lock is free there, on a configuration grid (variant x track set incl. audio-before-video x codecs incl. H264 (also with reordered frames) on a 1 kHz clock and 48 kHz AAC on a 90 kHz clock in MPEG-TS, a small SegmentMaxSize x RAM/disk x SegmentCount x SegmentMinDuration {0.25, 0.5, 1, 2 s} x PartMinDuration {100, 200 ms}; Variant / SegmentMinDuration / PartMinDuration left at their zero values with SegmentCount 3..8), plus audio-only MPEG-TS periodic words of 430 writes (a cut needs 100 writes) and fault scenarios (the creation of the k-th segment file / a write to the k-th part fails; random-access units k and k+1 carry unparsable parameter sets; the first segment file of a later stream cannot be created; every k); after every write everything the muxer advertises is fetched through Handle (full playlist, delta update, never-advertised names), decoded with mediacommon and compared with a reference model of the written stream; distinct = distinct (configuration, final playlists, emitted-unit counts)",
		Assumptions: e1Assumptions},
	{ID: "C03", Pkg: ".", Level: "exploration", Procs: 2,
		Rule:        "words over a finite write alphabet (timing family: delta in {0, one frame, S-1 tick, S, 1.4 S} x {random access, not}; parameter family: {one frame, S} x {RA with / without inline parameter sets, non-RA (H265: every non-IRAP slice type in turn - TRAIL, TSA, STSA, RADL, RASL, _N and _R), parameter switch on RA / on non-RA, an access unit of parameter sets only (H264); every third ordinary H264 unit carries an SEI recovery_point}, the switched set differing in every component or in exactly one; interleaving family: all tracks x 2 deltas x 2 kinds, 1- and 2-AU audio writes, 1- and 3-packet Opus writes whose packets last 20/10/40 ms (Opus also as the leading track of audio-only streams), HE-AAC with explicit SBR signalling; audio family; reorder family (also with a parameter switch that changes the PPS only): H264 with picture-order-count reordering and H265 with sps_max_num_reorder_pics = 2 (slice headers of mediacommon's test stream), {one frame, S} x {IDR, P, P written ahead of a B, that B} + IDR at S-1 tick + parameter switch, the written decode time being the one mediacommon's DTS extractor derives from the written PTS/POC sequence) enumerated exhaustively as depth-N trees (from the initial state, after a regular preamble that fills the window, from negative start times, from start times of 28.5 h so that 2^63 ns / 10^9 ticks products are crossed inside the word) and as all periodic words of period <= 2 (3) run for 12 (16) x SegmentCount writes, plus long groups of pictures with more than 100 single-unit audio writes per segment, NTSC video next to 44.1 kHz audio (C03, C04), playlists fetched from inside OnEncodeError whenever a stream's lock is free there, on a configuration grid (variant x track set incl. audio-before-video x codecs incl. H264 (also with reordered frames) on a 1 kHz clock and 48 kHz AAC on a 90 kHz clock in MPEG-TS, a small SegmentMaxSize x RAM/disk x SegmentCount x SegmentMinDuration {0.25, 0.5, 1, 2 s} x PartMinDuration {100, 200 ms}; Variant / SegmentMinDuration / PartMinDuration left at their zero values with SegmentCount 3..8), plus audio-only MPEG-TS periodic words of 430 writes (a cut needs 100 writes) and fault scenarios (the creation of the k-th segment file / a write to the k-th part fails; random-access units k and k+1 carry unparsable parameter sets; the first segment file of a later stream cannot be created; every k); after every write everything the muxer advertises is fetched through Handle (full playlist, delta update, never-advertised names), decoded with mediacommon and compared with a reference model of the written stream; distinct = distinct (configuration, final playlists, emitted-unit counts)",
		Assumptions: e1Assumptions},
	{ID: "C04", Pkg: ".", Level: "exploration", Procs: 2,
		Rule:        "words over a finite write alphabet (timing family: delta in {0, one frame, S-1 tick, S, 1.4 S} x {random access, not}; parameter family: {one frame, S} x {RA with / without inline parameter sets, non-RA (H265: every non-IRAP slice type in turn - TRAIL, TSA, STSA, RADL, RASL, _N and _R), parameter switch on RA / on non-RA, an access unit of parameter sets only (H264); every third ordinary H264 unit carries an SEI recovery_point}, the switched set differing in every component or in exactly one; interleaving family: all tracks x 2 deltas x 2 kinds, 1- and 2-AU audio writes, 1- and 3-packet Opus writes whose packets last 20/10/40 ms (Opus also as the leading track of audio-only streams), HE-AAC with explicit SBR signalling; audio family; reorder family (also with a parameter switch that changes the PPS only): H264 with picture-order-count reordering and H265 with sps_max_num_reorder_pics = 2 (slice headers of mediacommon's test stream), {one frame, S} x {IDR, P, P written ahead of a B, that B} + IDR at S-1 tick + parameter switch, the written decode time being the one mediacommon's DTS extractor derives from the written PTS/POC sequence) enumerated exhaustively as depth-N trees (from the initial state, after a regular preamble that fills the window, from negative start times, from start times of 28.5 h so that 2^63 ns / 10^9 ticks products are crossed inside the word) and as all periodic words of period <= 2 (3) run for 12 (16) x SegmentCount writes, plus long groups of pictures with more than 100 single-unit audio writes per segment, NTSC video next to 44.1 kHz audio (C03, C04), playlists fetched from inside OnEncodeError whenever a stream's lock is free there, on a configuration grid (variant x track set incl. audio-before-video x codecs incl. H264 (also with reordered frames) on a 1 kHz clock and 48 kHz AAC on a 90 kHz clock in MPEG-TS, a small SegmentMaxSize x RAM/disk x SegmentCount x SegmentMinDuration {0.25, 0.5, 1, 2 s} x PartMinDuration {100, 200 ms}; Variant / SegmentMinDuration / PartMinDuration left at their zero values with SegmentCount 3..8), plus audio-only MPEG-TS periodic words of 430 writes (a cut needs 100 writes) and fault scenarios (the creation of the k-th segment file / a write to the k-th part fails; random-access units k and k+1 carry unparsable parameter sets; the first segment file of a later stream cannot be created; every k); after every write everything the muxer advertises is fetched through Handle (full playlist, delta update, never-advertised names), decoded with mediacommon and compared with a reference model of the written stream; distinct = distinct (configuration, final playlists, emitted-unit counts)",
		Assumptions: e1Assumptions},
	{ID: "C05-inflight", Prop: "C05", HarnessKey: "C05-inflight", Hidden: true, Pkg: ".", Level: "model_checking", Instrument: true, Procs: 1,
		InstrPkgs:   []string{".", "pkg/storage"},
		StmtPoints:  []string{"partDisk.Reader", "fileDisk.Finalize", "fileDisk.Reader", "fileDisk.NewPart", "fileRAM.Finalize", "fileRAM.Reader"},
		Assumptions: schedAssumptions},
	{ID: "C05", Pkg: ".", Level: "exploration", Procs: 1, Also: []string{"C05-inflight"},
		Rule:        "words over a finite write alphabet (timing family: delta in {0, one frame, S-1 tick, S, 1.4 S} x {random access, not}; parameter family: {one frame, S} x {RA with / without inline parameter sets, non-RA (H265: every non-IRAP slice type in turn - TRAIL, TSA, STSA, RADL, RASL, _N and _R), parameter switch on RA / on non-RA, an access unit of parameter sets only (H264); every third ordinary H264 unit carries an SEI recovery_point}, the switched set differing in every component or in exactly one; interleaving family: all tracks x 2 deltas x 2 kinds, 1- and 2-AU audio writes, 1- and 3-packet Opus writes whose packets last 20/10/40 ms (Opus also as the leading track of audio-only streams), HE-AAC with explicit SBR signalling; audio family; reorder family (also with a parameter switch that changes the PPS only): H264 with picture-order-count reordering and H265 with sps_max_num_reorder_pics = 2 (slice headers of mediacommon's test stream), {one frame, S} x {IDR, P, P written ahead of a B, that B} + IDR at S-1 tick + parameter switch, the written decode time being the one mediacommon's DTS extractor derives from the written PTS/POC sequence) enumerated exhaustively as depth-N trees (from the initial state, after a regular preamble that fills the window, from negative start times, from start times of 28.5 h so that 2^63 ns / 10^9 ticks products are crossed inside the word) and as all periodic words of period <= 2 (3) run for 12 (16) x SegmentCount writes, plus long groups of pictures with more than 100 single-unit audio writes per segment, NTSC video next to 44.1 kHz audio (C03, C04), playlists fetched from inside OnEncodeError whenever a stream's lock is free there, on a configuration grid (variant x track set incl. audio-before-video x codecs incl. H264 (also with reordered frames) on a 1 kHz clock and 48 kHz AAC on a 90 kHz clock in MPEG-TS, a small SegmentMaxSize x RAM/disk x SegmentCount x SegmentMinDuration {0.25, 0.5, 1, 2 s} x PartMinDuration {100, 200 ms}; Variant / SegmentMinDuration / PartMinDuration left at their zero values with SegmentCount 3..8), plus audio-only MPEG-TS periodic words of 430 writes (a cut needs 100 writes) and fault scenarios (the creation of the k-th segment file / a write to the k-th part fails; random-access units k and k+1 carry unparsable parameter sets; the first segment file of a later stream cannot be created; every k); after every write everything the muxer advertises is fetched through Handle (full playlist, delta update, never-advertised names), decoded with mediacommon and compared with a reference model of the written stream; plus downloads in flight while the writer carries on: all interleavings with at most 2 deviations of a writer (5 frames that publish parts, complete, finalise and remove segments) with one reader (two for overlapping downloads of parts of one finalised segment with bodies of several Writes) that fetches a listed segment / part / init and is slow to take the response (scheduling points at the library's synchronisation operations, at every statement of the storage functions and between the response header and body), Low-Latency / fMP4 / MPEG-TS on RAM and Directory storage: the bytes received are those of the listed resource; distinct = distinct (configuration, final playlists, emitted-unit counts)",
		Assumptions: e1Assumptions},

	{ID: "C06", Pkg: ".", Level: "model_checking", Instrument: true, RacePass: false, Procs: 1,
		Rule:        "schedule half: all interleavings with at most b deviations (2 quick / 3 thorough for two requesters, one more for a single requester) of a writer feeding k in {1,2,3,5} frames from three positions (part about to be published, just published, segment about to complete) with 1-2 concurrent requests drawn from {blocking reload for the next part / the part after / the open segment / the next segment / part 0 of it / a part index past the end, preload hint, plain playlist, already published, too far, expired, hint after next}; sequential half: every (msn, part) of a grid relative to the playlist at every node of the Low-Latency write trees (SegmentCount 7, 8, 10), malformed directives (also sign, fraction, radix and white-space forms of the numbers, and _HLS_part without _HLS_msn next to _HLS_skip or a user parameter), delta updates against the full playlist of the same instant; distinct = distinct (scenario, statuses and completion points)",
		Assumptions: schedAssumptions},
	{ID: "C07", Pkg: ".", Level: "model_checking", Instrument: true, RacePass: false, Procs: 1,
		InstrPkgs:   []string{".", "pkg/storage"}, // the storage back ends have a lock of their own
		StmtPoints:  []string{"Muxer.Close", "muxerStream.close"},
		Rule:        "all interleavings with at most b deviations (b=2 with two or three requesters, 3 (thorough 4) with one, unbounded with none) of a writer that feeds k frames and then calls Close with 0..2 (thorough 0..3) requests blocked inside the muxer (multivariant / media playlist before data, blocking reload, preload hint) and with clients that stop taking a response body (hint, part, segment, init, playlist) until the writer has finished, from several points of the muxer's life (before data, mid-segment, mid-part, window slid), RAM and Directory storage, all three variants; followed by a sequential epilogue of one request of every kind; plus sequential scenarios in which the k-th segment / part rotation fails on storage, or in which the init segment cannot be rebuilt from parameter sets that do not parse (H264 / H265 / AV1), or (MPEG-TS) the finished / open segment cannot be flushed to a full device, before Close (every k; the muxer mutex must be free, Close must return, later requests must be answered); distinct = distinct (scenario, response statuses and completion points)",
		Assumptions: schedAssumptions},
	{ID: "C20-e2e", Prop: "C20", HarnessKey: "C20-e2e", Hidden: true, Pkg: ".", Level: "model_checking", Instrument: true, Procs: 1,
		AtomicRanges: []string{"clientStreamProcessorMPEGTS.joinTrackProcessors"},
		Assumptions:  schedAssumptions},
	{ID: "C20", Pkg: ".", Level: "model_checking", Instrument: true, RacePass: true, Procs: 1, Also: []string{"C20-e2e"},
		AccessTypes: []string{"*"}, AccessTypePkgs: []string{"pkg/codecs"},
		Rule:        "all interleavings with at most b deviations (preemptions / non-default select preferences; b=3 quick, 5 thorough, unbounded for the smallest scenarios; points at every mutex acquire/release, channel close, select) of a producer (k pushes, waitUntilSizeIsBelow(n) after each), a consumer (m pulls) and an optional canceller on the real clientSegmentQueue, with and without the end-of-stream marker (push(nil)), with bursts of 2-4 pushes before a wait (a successful wait leaves at most n segments queued), the real downloader / processor / Close of streams that end under the same scheduler (hidden spec C20-e2e: one Close placed at every decision point, three canonical schedules), plus end-to-end look-ahead scenarios with the real downloader and processor (VOD, live, and live playlists carrying Low-Latency tags that do not select the Low-Latency mode: server control without CAN-BLOCK-RELOAD plus a preload hint, CAN-BLOCK-RELOAD without a hint); every explored execution is also checked by the happens-before race monitor (every field of every struct of the package); distinct = distinct (scenario, final observation) pairs",
		Assumptions: schedAssumptions},
	{ID: "C17-sched", Prop: "C17", HarnessKey: "C17-sched", Hidden: true, Pkg: ".", Level: "model_checking", Instrument: true, Procs: 1,
		InstrPkgs:   []string{".", "pkg/storage"},
		StmtPoints:  []string{"partDisk.Reader", "fileDisk.Finalize", "fileDisk.Reader", "fileDisk.NewPart", "fileRAM.Finalize", "fileRAM.Reader", "partRAM.Reader"},
		Assumptions: schedAssumptions},
	{ID: "C17", Pkg: "pkg/storage", Level: "model_checking", Procs: 8, MemKB: 10 * 1024 * 1024, Also: []string{"C17-sched"},
		Rule:        "explicit-state BFS over storage operation sequences (NewPart, Write, Write after a refused Seek, rewrite of the previous part's head through its kept writer, Seek, Finalize, Size, open/read readers with several buffer sizes and with io.Copy, Remove - also before Finalize, with a listing of the directory afterwards) applied to the real RAM and disk back ends (the disk file created in an empty directory or over a longer stale file of the same name) and a [][]byte model; a state is the exact observable state (part contents, writer position, finalized/removed flags, open readers with offsets); distinct = distinct state keys",
		Assumptions: append([]string{"alphabet restricted to the documented usage: a part is written through one Writer while it is the last allocated part; seeks stay within written bytes"}, commonAssumptions...)},
}
