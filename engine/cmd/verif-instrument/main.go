// verif-instrument prints the instrumented form of one Go source file (debugging aid for the rewriter).
package main

import (
	"fmt"
	"os"
	"strings"

	"verif/instr"
)

func main() {
	if len(os.Args) < 2 {
		fmt.Fprintln(os.Stderr, "usage: verif-instrument file.go [stmt-point-func,...]")
		os.Exit(2)
	}
	b, err := os.ReadFile(os.Args[1])
	if err != nil {
		fmt.Fprintln(os.Stderr, err)
		os.Exit(2)
	}
	cfg := instr.Config{
		RuntimeImport: "github.com/bluenviron/gohlslib/v2/internal/zzverif/vsched",
		SyncImport:    "github.com/bluenviron/gohlslib/v2/internal/zzverif/vsync",
	}
	if len(os.Args) > 2 {
		cfg.StmtPoints = strings.Split(os.Args[2], ",")
	}
	out, _, err := instr.Rewrite(os.Args[1], b, cfg)
	if err != nil {
		fmt.Fprintln(os.Stderr, err)
		os.Exit(2)
	}
	os.Stdout.Write(out)
}
