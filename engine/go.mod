module verif

go 1.26
