// Package instr rewrites gohlslib sources so that every synchronisation operation becomes a scheduling point.
package instr

// Config selects what the rewriter inserts.
type Config struct {
	RuntimeImport string   // import path of vsched
	SyncImport    string   // import path of vsync (replaces "sync")
	StmtPoints    []string // functions ("Type.method" or "func") whose statements each get a point
}

// Rewrite returns the instrumented source of one file.
func Rewrite(filename string, src []byte, cfg Config) ([]byte, bool, error) {
	return src, false, nil
}
