// Package instr rewrites Go sources so that every synchronisation operation becomes a scheduling point of
// the vsched runtime: "sync" is re-imported as vsync, go statements become vsched.Go, channel operations
// get Pre/Post points, select statements get an explicit, scheduler-controlled case preference, close()
// and context cancel functions get a point in front of them. A construct the rewriter does not understand
// is an error (the check then ends as an engine error, never as a verdict).
//
// The rewriter is purely syntactic (go/ast, no type information) and works by text splicing: emit(n)
// returns the original text of n with every rewrite-needing descendant replaced recursively.
package instr

import (
	"bytes"
	"fmt"
	"go/ast"
	"go/format"
	"go/parser"
	"go/token"
	"path/filepath"
	"sort"
	"strconv"
	"strings"
)

// Config selects what the rewriter inserts.
type Config struct {
	RuntimeImport string   // import path of vsched
	SyncImport    string   // import path of vsync (replaces "sync")
	StmtPoints    []string // functions ("Type.method" or "func") whose statements each get a point
	AtomicRanges  []string // functions whose range loops are made atomic (random map iteration order)
	// AccessFields: names of struct fields whose every access is reported to the happens-before race monitor
	// (vsched.R / vsched.W around the selector expression); HB: channel operations publish / import clocks.
	AccessFields map[string]bool
	HB           bool
}

// CollectFields returns the field names of the given struct types declared in the given sources, minus the names
// that are also methods of any type (x.name would be ambiguous without type information) and minus fields of
// synchronisation types.
func CollectFields(sources map[string][]byte, types []string) (map[string]bool, error) {
	fields := map[string]bool{}
	methods := map[string]bool{}
	want := map[string]bool{}
	for _, t := range types {
		want[t] = true
	}
	for name, src := range sources {
		fset := token.NewFileSet()
		f, err := parser.ParseFile(fset, name, src, parser.SkipObjectResolution)
		if err != nil {
			return nil, err
		}
		for _, d := range f.Decls {
			switch x := d.(type) {
			case *ast.FuncDecl:
				if x.Recv != nil {
					methods[x.Name.Name] = true
				}
			case *ast.GenDecl:
				for _, sp := range x.Specs {
					ts, ok := sp.(*ast.TypeSpec)
					if !ok {
						continue
					}
					if it, ok := ts.Type.(*ast.InterfaceType); ok {
						for _, m := range it.Methods.List {
							for _, n := range m.Names {
								methods[n.Name] = true
							}
						}
					}
					st, ok := ts.Type.(*ast.StructType)
					if !ok || !(want[ts.Name.Name] || want["*"]) {
						continue
					}
					for _, fl := range st.Fields.List {
						typ := string(src[fset.Position(fl.Type.Pos()).Offset:fset.Position(fl.Type.End()).Offset])
						if strings.Contains(typ, "sync.") || strings.HasPrefix(typ, "func(") {
							continue
						}
						for _, n := range fl.Names {
							fields[n.Name] = true
						}
					}
				}
			}
		}
	}
	for m := range methods {
		delete(fields, m)
	}
	return fields, nil
}

type rw struct {
	cfg      Config
	fset     *token.FileSet
	src      []byte
	file     *ast.File
	base     string
	inList   map[ast.Stmt]bool          // statement is a member of a statement list
	pointed  map[ast.Stmt]bool          // statement gets a statement-level point
	atomicFn map[ast.Node]bool          // range statements to wrap
	accSel   map[*ast.SelectorExpr]byte // monitored field access: 'r' or 'w'
	imports  map[string]bool            // names of imported packages
	curFunc  map[ast.Node]string        // selector -> enclosing function name
	labelOf  map[ast.Stmt]*ast.LabeledStmt
	err      error
	changed  bool
	tmp      int
}

// Rewrite returns the instrumented source of one file and whether anything was changed.
func Rewrite(filename string, src []byte, cfg Config) ([]byte, bool, error) {
	fset := token.NewFileSet()
	f, err := parser.ParseFile(fset, filename, src, parser.SkipObjectResolution)
	if err != nil {
		return nil, false, err
	}
	r := &rw{cfg: cfg, fset: fset, src: src, file: f, base: filepath.Base(filename),
		inList: map[ast.Stmt]bool{}, pointed: map[ast.Stmt]bool{}, atomicFn: map[ast.Node]bool{}, labelOf: map[ast.Stmt]*ast.LabeledStmt{},
		accSel: map[*ast.SelectorExpr]byte{}, imports: map[string]bool{}, curFunc: map[ast.Node]string{}}
	r.prepare()
	var out bytes.Buffer
	// package clause and everything up to the first declaration is copied; imports are regenerated
	out.WriteString("package " + f.Name.Name + "\n\n")
	needSync := false
	hasRuntime := false
	for _, imp := range f.Imports {
		p, _ := strconv.Unquote(imp.Path.Value)
		if p == cfg.RuntimeImport {
			hasRuntime = true
		}
		name := ""
		if imp.Name != nil {
			name = imp.Name.Name + " "
		}
		if p == "sync" && cfg.SyncImport != "" {
			alias := "sync"
			if imp.Name != nil {
				alias = imp.Name.Name
			}
			fmt.Fprintf(&out, "import %s %q\n", alias, cfg.SyncImport)
			needSync = true
			r.changed = true
			continue
		}
		fmt.Fprintf(&out, "import %s%s\n", name, imp.Path.Value)
	}
	_ = needSync
	body := &bytes.Buffer{}
	for _, d := range f.Decls {
		if gd, ok := d.(*ast.GenDecl); ok && gd.Tok == token.IMPORT {
			continue
		}
		body.WriteString(r.emit(d))
		body.WriteString("\n\n")
	}
	if r.err != nil {
		return nil, false, r.err
	}
	if !r.changed {
		return src, false, nil
	}
	if !hasRuntime {
		fmt.Fprintf(&out, "import vsched %q\n", cfg.RuntimeImport)
	}
	out.WriteString("\nvar _ = vsched.Active\n\n")
	out.Write(body.Bytes())
	res, err := format.Source(out.Bytes())
	if err != nil {
		return nil, false, fmt.Errorf("instrumented source does not parse: %v\n%s", err, numbered(out.String()))
	}
	return res, true, nil
}

func numbered(s string) string {
	lines := strings.Split(s, "\n")
	var b strings.Builder
	for i, l := range lines {
		fmt.Fprintf(&b, "%4d %s\n", i+1, l)
	}
	return b.String()
}

func funcName(fd *ast.FuncDecl) string {
	if fd.Recv != nil && len(fd.Recv.List) == 1 {
		t := fd.Recv.List[0].Type
		if s, ok := t.(*ast.StarExpr); ok {
			t = s.X
		}
		if id, ok := t.(*ast.Ident); ok {
			return id.Name + "." + fd.Name.Name
		}
	}
	return fd.Name.Name
}

func contains(l []string, s string) bool {
	for _, x := range l {
		if x == s || x == "*" {
			return true
		}
	}
	return false
}

func (r *rw) prepare() {
	markLists := func(n ast.Node, pointed bool) {
		ast.Inspect(n, func(n ast.Node) bool {
			var list []ast.Stmt
			switch x := n.(type) {
			case *ast.BlockStmt:
				list = x.List
			case *ast.CaseClause:
				list = x.Body
			case *ast.CommClause:
				list = x.Body
			case *ast.LabeledStmt:
				r.labelOf[x.Stmt] = x
				if r.inList[x] {
					r.inList[x.Stmt] = true
				}
			}
			for _, s := range list {
				r.inList[s] = true
				if ls, ok := s.(*ast.LabeledStmt); ok {
					r.inList[ls.Stmt] = true
				}
				if pointed {
					r.pointed[s] = true
				}
			}
			return true
		})
	}
	for _, d := range r.file.Decls {
		fd, ok := d.(*ast.FuncDecl)
		if !ok || fd.Body == nil {
			if ok {
				continue
			}
			markLists(d, false)
			continue
		}
		name := funcName(fd)
		markLists(fd.Body, contains(r.cfg.StmtPoints, name))
		if len(r.cfg.AccessFields) > 0 {
			r.markAccesses(fd.Body, name)
		}
		if contains(r.cfg.AtomicRanges, name) {
			ast.Inspect(fd.Body, func(n ast.Node) bool {
				if rs, ok := n.(*ast.RangeStmt); ok {
					r.atomicFn[rs] = true
				}
				return true
			})
		}
	}
}

func unparen(e ast.Expr) ast.Expr {
	for {
		p, ok := e.(*ast.ParenExpr)
		if !ok {
			return e
		}
		e = p.X
	}
}

// markAccesses finds the selector expressions x.f with f a monitored field and classifies them as read or write.
func (r *rw) markAccesses(body ast.Node, fn string) {
	if len(r.imports) == 0 {
		for _, imp := range r.file.Imports {
			p, _ := strconv.Unquote(imp.Path.Value)
			name := p[strings.LastIndexByte(p, '/')+1:]
			if imp.Name != nil {
				name = imp.Name.Name
			}
			r.imports[name] = true
			// module paths ending in a major version ("/v2") are imported under the previous element
			if strings.HasPrefix(name, "v") && len(name) <= 3 {
				q := strings.TrimSuffix(p, "/"+name)
				r.imports[q[strings.LastIndexByte(q, '/')+1:]] = true
			}
		}
	}
	skip := map[*ast.SelectorExpr]bool{}
	write := map[*ast.SelectorExpr]bool{}
	lhs := func(e ast.Expr) {
		e = unparen(e)
		if ix, ok := e.(*ast.IndexExpr); ok {
			e = unparen(ix.X) // x.f[k] = v counts as a write of x.f
		}
		if se, ok := e.(*ast.SelectorExpr); ok {
			write[se] = true
		}
	}
	ast.Inspect(body, func(n ast.Node) bool {
		switch x := n.(type) {
		case *ast.AssignStmt:
			if x.Tok != token.DEFINE {
				for _, l := range x.Lhs {
					lhs(l)
				}
			}
		case *ast.IncDecStmt:
			lhs(x.X)
		case *ast.CallExpr:
			if se, ok := unparen(x.Fun).(*ast.SelectorExpr); ok {
				skip[se] = true // method call or call of a function-typed field
			}
			if id, ok := x.Fun.(*ast.Ident); ok && id.Name == "delete" && len(x.Args) == 2 {
				lhs(x.Args[0])
			}
		}
		return true
	})
	ast.Inspect(body, func(n ast.Node) bool {
		se, ok := n.(*ast.SelectorExpr)
		if !ok || skip[se] || !r.cfg.AccessFields[se.Sel.Name] {
			return true
		}
		if id, ok := se.X.(*ast.Ident); ok && r.imports[id.Name] {
			return true // package-qualified identifier
		}
		if write[se] {
			r.accSel[se] = 'w'
		} else {
			r.accSel[se] = 'r'
		}
		r.curFunc[se] = fn
		return true
	})
}

func (r *rw) fail(n ast.Node, format string, a ...any) {
	if r.err == nil {
		r.err = fmt.Errorf("%s: %s", r.fset.Position(n.Pos()), fmt.Sprintf(format, a...))
	}
}

func (r *rw) text(n ast.Node) string {
	return string(r.src[r.fset.Position(n.Pos()).Offset:r.fset.Position(n.End()).Offset])
}

func (r *rw) site(n ast.Node) string {
	p := r.fset.Position(n.Pos())
	return fmt.Sprintf("%s:%d", r.base, p.Line)
}

func isRecv(e ast.Expr) (*ast.UnaryExpr, bool) {
	for {
		if p, ok := e.(*ast.ParenExpr); ok {
			e = p.X
			continue
		}
		break
	}
	u, ok := e.(*ast.UnaryExpr)
	if ok && u.Op == token.ARROW {
		return u, true
	}
	return nil, false
}

func isCallTo(e ast.Expr, pkg, fn string) bool {
	c, ok := e.(*ast.CallExpr)
	if !ok {
		return false
	}
	if pkg == "" {
		id, ok := c.Fun.(*ast.Ident)
		return ok && id.Name == fn
	}
	s, ok := c.Fun.(*ast.SelectorExpr)
	if !ok {
		return false
	}
	id, ok := s.X.(*ast.Ident)
	return ok && id.Name == pkg && s.Sel.Name == fn
}

// needs reports whether n itself is rewritten (as opposed to merely containing rewritten nodes).
func (r *rw) needs(n ast.Node) bool {
	switch x := n.(type) {
	case *ast.GoStmt, *ast.SelectStmt, *ast.SendStmt:
		return true
	case *ast.ExprStmt:
		if _, ok := isRecv(x.X); ok {
			return true
		}
		if isCallTo(x.X, "", "close") || isCallTo(x.X, "time", "Sleep") {
			return true
		}
	case *ast.AssignStmt:
		if len(x.Rhs) == 1 {
			if _, ok := isRecv(x.Rhs[0]); ok {
				return true
			}
		}
	case *ast.DeferStmt:
		if isCallTo(x.Call, "", "close") {
			return true
		}
	case *ast.CallExpr:
		if isCallTo(x, "context", "WithCancel") || isCallTo(x, "context", "AfterFunc") {
			return true
		}
	case *ast.UnaryExpr:
		if x.Op == token.ARROW {
			return true // a receive in an unsupported position
		}
	case *ast.RangeStmt:
		if r.atomicFn[x] {
			return true
		}
	case *ast.LabeledStmt:
		if _, ok := x.Stmt.(*ast.SelectStmt); ok {
			return true
		}
	case *ast.SelectorExpr:
		if r.accSel[x] != 0 {
			return true
		}
	}
	if s, ok := n.(ast.Stmt); ok && r.pointed[s] {
		return true
	}
	return false
}

// emit returns the text of n with all rewrites applied.
func (r *rw) emit(n ast.Node) string {
	if n == nil {
		return ""
	}
	if r.needs(n) {
		r.changed = true
		return r.rewrite(n)
	}
	return r.emitChildren(n)
}

// emitChildren copies n's text, replacing its outermost rewrite-needing descendants.
func (r *rw) emitChildren(n ast.Node) string {
	var subs []ast.Node
	ast.Inspect(n, func(c ast.Node) bool {
		if c == nil || c == n {
			return true
		}
		if r.needs(c) {
			subs = append(subs, c)
			return false
		}
		return true
	})
	if len(subs) == 0 {
		return r.text(n)
	}
	sort.Slice(subs, func(a, b int) bool { return subs[a].Pos() < subs[b].Pos() })
	var b strings.Builder
	off := r.fset.Position(n.Pos()).Offset
	for _, c := range subs {
		co := r.fset.Position(c.Pos()).Offset
		b.Write(r.src[off:co])
		r.changed = true
		b.WriteString(r.rewrite(c))
		off = r.fset.Position(c.End()).Offset
	}
	b.Write(r.src[off:r.fset.Position(n.End()).Offset])
	return b.String()
}

func (r *rw) newTmp(prefix string) string {
	r.tmp++
	return fmt.Sprintf("_v%s%d", prefix, r.tmp)
}

func (r *rw) requireList(n ast.Stmt) {
	if !r.inList[n] {
		r.fail(n, "channel operation / go / select in a position that is not a statement list (unsupported by the rewriter)")
	}
}

func (r *rw) rewrite(n ast.Node) string {
	q := strconv.Quote
	if s, ok := n.(ast.Stmt); ok && r.pointed[s] {
		// statement-level point, then the statement itself (without the mark, to avoid recursion)
		delete(r.pointed, s)
		inner := r.emit(n)
		r.pointed[s] = true
		if _, isLabeled := n.(*ast.LabeledStmt); isLabeled {
			return inner
		}
		return "vsched.Yield(" + q("stmt "+r.site(n)) + "); " + inner
	}
	switch x := n.(type) {
	case *ast.SelectorExpr:
		fn := "R"
		if r.accSel[x] == 'w' {
			fn = "W"
		}
		site := r.curFunc[x] + " " + x.Sel.Name + " " + r.site(x)
		return "(*vsched." + fn + "(&" + r.emit(x.X) + "." + x.Sel.Name + ", " + q(site) + "))"

	case *ast.GoStmt:
		r.requireList(x)
		if fl, ok := x.Call.Fun.(*ast.FuncLit); ok && len(x.Call.Args) == 0 {
			return "vsched.Go(" + r.emit(fl) + ")"
		}
		var b strings.Builder
		b.WriteString("{ ")
		fn := r.newTmp("f")
		b.WriteString(fn + " := " + r.emit(x.Call.Fun) + "; ")
		var args []string
		for i, a := range x.Call.Args {
			an := r.newTmp("a")
			b.WriteString(an + " := " + r.emit(a) + "; ")
			if i == len(x.Call.Args)-1 && x.Call.Ellipsis.IsValid() {
				an += "..."
			}
			args = append(args, an)
		}
		b.WriteString("vsched.Go(func() { " + fn + "(" + strings.Join(args, ", ") + ") }) }")
		return b.String()

	case *ast.SendStmt:
		r.requireList(x)
		s := q("send " + r.site(x))
		tk := r.newTmp("t")
		if r.cfg.HB {
			ch := r.newTmp("c")
			return tk + " := vsched.Pre(" + s + "); " + ch + " := " + r.emit(x.Chan) + "; vsched.HBRelease(" + ch + "); " + ch + " <- " + r.emit(x.Value) + "; vsched.Post(" + tk + ", " + s + ")"
		}
		return tk + " := vsched.Pre(" + s + "); " + r.emitChildren(x) + "; vsched.Post(" + tk + ", " + s + ")"

	case *ast.ExprStmt:
		if _, ok := isRecv(x.X); ok {
			r.requireList(x)
			s := q("recv " + r.site(x))
			tk := r.newTmp("t")
			if r.cfg.HB {
				u, _ := isRecv(x.X)
				ch := r.newTmp("c")
				return tk + " := vsched.Pre(" + s + "); " + ch + " := " + r.emit(u.X) + "; <-" + ch + "; vsched.Post(" + tk + ", " + s + "); vsched.HBAcquire(" + ch + ")"
			}
			return tk + " := vsched.Pre(" + s + "); " + r.recvText(x.X) + "; vsched.Post(" + tk + ", " + s + ")"
		}
		if isCallTo(x.X, "", "close") {
			r.requireList(x)
			if r.cfg.HB {
				c := x.X.(*ast.CallExpr)
				ch := r.newTmp("c")
				return "vsched.Yield(" + q("close "+r.site(x)) + "); " + ch + " := " + r.emit(c.Args[0]) + "; vsched.HBRelease(" + ch + "); close(" + ch + ")"
			}
			return "vsched.Yield(" + q("close "+r.site(x)) + "); " + r.emitChildren(x)
		}
		if isCallTo(x.X, "time", "Sleep") {
			r.requireList(x)
			c := x.X.(*ast.CallExpr)
			return "vsched.Sleep(" + r.emit(c.Args[0]) + ")"
		}

	case *ast.AssignStmt:
		r.requireList(x)
		s := q("recv " + r.site(x))
		var lhs []string
		for _, l := range x.Lhs {
			lhs = append(lhs, r.emit(l))
		}
		tk := r.newTmp("t")
		if r.cfg.HB {
			u, _ := isRecv(x.Rhs[0])
			ch := r.newTmp("c")
			return tk + " := vsched.Pre(" + s + "); " + ch + " := " + r.emit(u.X) + "; " + strings.Join(lhs, ", ") + " " + x.Tok.String() + " <-" + ch + "; vsched.Post(" + tk + ", " + s + "); vsched.HBAcquire(" + ch + ")"
		}
		return tk + " := vsched.Pre(" + s + "); " + strings.Join(lhs, ", ") + " " + x.Tok.String() + " " + r.recvText(x.Rhs[0]) + "; vsched.Post(" + tk + ", " + s + ")"

	case *ast.DeferStmt:
		if r.cfg.HB {
			return "defer func() { vsched.Yield(" + q("close "+r.site(x)) + "); vsched.HBRelease(" + r.emit(x.Call.Args[0]) + "); " + r.emitChildren(x.Call) + " }()"
		}
		return "defer func() { vsched.Yield(" + q("close "+r.site(x)) + "); " + r.emitChildren(x.Call) + " }()"

	case *ast.CallExpr: // context.WithCancel, context.AfterFunc
		var args []string
		for _, a := range x.Args {
			args = append(args, r.emit(a))
		}
		if isCallTo(x, "context", "AfterFunc") {
			return "vsched.AfterFunc(" + strings.Join(args, ", ") + ")"
		}
		return "vsched.WithCancel(" + strings.Join(args, ", ") + ")"

	case *ast.UnaryExpr:
		r.fail(x, "receive expression in an unsupported position")
		return r.text(x)

	case *ast.RangeStmt:
		delete(r.atomicFn, x)
		inner := r.emit(x)
		return "vsched.AtomicBegin(); " + inner + "; vsched.AtomicEnd()"

	case *ast.LabeledStmt:
		sel := x.Stmt.(*ast.SelectStmt)
		r.requireList(x)
		return r.rewriteSelect(sel, x.Label.Name)

	case *ast.SelectStmt:
		r.requireList(x)
		return r.rewriteSelect(x, "")
	}
	r.fail(n, "internal: no rewrite for %T", n)
	return r.text(n)
}

// recvText returns "<-X" with X emitted.
func (r *rw) recvText(e ast.Expr) string {
	u, _ := isRecv(e)
	return "<-" + r.emit(u.X)
}

type commCase struct {
	chanExpr ast.Expr
	isSend   bool
	doneLike bool
	comm     func(ch string) string // the comm clause text with the channel expression replaced by ch
	body     []ast.Stmt
}

func isDoneCall(e ast.Expr) bool {
	c, ok := e.(*ast.CallExpr)
	if !ok || len(c.Args) != 0 {
		return false
	}
	s, ok := c.Fun.(*ast.SelectorExpr)
	return ok && s.Sel.Name == "Done"
}

func (r *rw) emitStmts(list []ast.Stmt) string {
	var b strings.Builder
	for _, s := range list {
		b.WriteString(r.emit(s))
		b.WriteString("\n")
	}
	return b.String()
}

func (r *rw) rewriteSelect(sel *ast.SelectStmt, label string) string {
	q := strconv.Quote
	site := "select " + r.site(sel)
	var cases []commCase
	var defBody []ast.Stmt
	hasDefault := false
	for _, c := range sel.Body.List {
		cc := c.(*ast.CommClause)
		if cc.Comm == nil {
			hasDefault = true
			defBody = cc.Body
			continue
		}
		var k commCase
		k.body = cc.Body
		switch s := cc.Comm.(type) {
		case *ast.SendStmt:
			k.isSend = true
			k.chanExpr = s.Chan
			val := r.emit(s.Value)
			k.comm = func(ch string) string { return ch + " <- " + val }
		case *ast.ExprStmt:
			u, ok := isRecv(s.X)
			if !ok {
				r.fail(s, "unsupported select communication")
				return r.text(sel)
			}
			k.chanExpr = u.X
			k.comm = func(ch string) string { return "<-" + ch }
		case *ast.AssignStmt:
			u, ok := isRecv(s.Rhs[0])
			if !ok || len(s.Rhs) != 1 {
				r.fail(s, "unsupported select communication")
				return r.text(sel)
			}
			k.chanExpr = u.X
			var lhs []string
			for _, l := range s.Lhs {
				lhs = append(lhs, r.emit(l))
			}
			tok := s.Tok.String()
			k.comm = func(ch string) string { return strings.Join(lhs, ", ") + " " + tok + " <-" + ch }
		default:
			r.fail(cc, "unsupported select communication")
			return r.text(sel)
		}
		k.doneLike = isDoneCall(k.chanExpr)
		cases = append(cases, k)
	}
	n := len(cases)
	lbl := ""
	if label != "" {
		lbl = label + ": "
	}
	if n == 0 {
		if hasDefault {
			return lbl + "switch { default: " + r.emitStmts(defBody) + "}"
		}
		r.fail(sel, "empty select blocks forever")
		return r.text(sel)
	}
	var b strings.Builder
	b.WriteString("{\n")
	chans := make([]string, n)
	for i, k := range cases {
		chans[i] = r.newTmp("c")
		fmt.Fprintf(&b, "%s := %s\n", chans[i], r.emit(k.chanExpr))
	}
	// bodies are emitted once as text and duplicated
	bodies := make([]string, n)
	for i, k := range cases {
		bodies[i] = r.emitStmts(k.body)
		if r.cfg.HB && !k.isSend {
			bodies[i] = "vsched.HBAcquire(" + chans[i] + ")\n" + bodies[i]
		}
	}
	defText := ""
	if hasDefault {
		defText = r.emitStmts(defBody)
	}
	fmt.Fprintf(&b, "vsched.Yield(%s)\n", q(site))
	if r.cfg.HB {
		for i, k := range cases {
			if k.isSend {
				fmt.Fprintf(&b, "vsched.HBRelease(%s)\n", chans[i])
			}
		}
	}
	if n == 1 {
		// a single communication: plain operation
		if hasDefault {
			fmt.Fprintf(&b, "%sselect {\ncase %s:\n%s\ndefault:\n%s}\n}", lbl, cases[0].comm(chans[0]), bodies[0], defText)
			return b.String()
		}
		tk := r.newTmp("t")
		fmt.Fprintf(&b, "%s := vsched.Enter(%s)\n%sselect {\ncase %s:\nvsched.Post(%s, %s)\n%s}\n}", tk, q(site), lbl, cases[0].comm(chans[0]), tk, q(site), bodies[0])
		return b.String()
	}
	kvar, dvar := r.newTmp("k"), r.newTmp("d")
	var poss []string
	for i, k := range cases {
		if k.doneLike {
			poss = append(poss, "vsched.Closed("+chans[i]+")")
		} else {
			poss = append(poss, "true")
		}
	}
	fmt.Fprintf(&b, "%s, %s := vsched.SelectPref(%s, []bool{%s})\n_ = %s\n", kvar, dvar, q(site), strings.Join(poss, ", "), dvar)
	fmt.Fprintf(&b, "%sswitch %s {\n", lbl, kvar)
	for start := 0; start < n; start++ {
		if start == n-1 {
			b.WriteString("default:\n")
		} else {
			fmt.Fprintf(&b, "case %d:\n", start)
		}
		// nested non-blocking attempts in rotation order
		closers := 0
		for j := 0; j < n; j++ {
			i := (start + j) % n
			moot := ""
			if j > 0 {
				moot = "if " + dvar + " { vsched.MootLast() }\n"
			}
			fmt.Fprintf(&b, "select {\ncase %s:\n%s%s\ndefault:\n", cases[i].comm(chans[i]), moot, bodies[i])
			closers++
		}
		if hasDefault {
			b.WriteString("if " + dvar + " { vsched.MootLast() }\n")
			b.WriteString(defText)
		} else {
			b.WriteString("if " + dvar + " { vsched.MootLast() }\n")
			tk := r.newTmp("t")
			fmt.Fprintf(&b, "%s := vsched.Enter(%s)\nselect {\n", tk, q(site))
			for i := range cases {
				fmt.Fprintf(&b, "case %s:\nvsched.Post(%s, %s)\n%s\n", cases[i].comm(chans[i]), tk, q(site), bodies[i])
			}
			b.WriteString("}\n")
		}
		for ; closers > 0; closers-- {
			b.WriteString("}\n")
		}
	}
	b.WriteString("}\n}")
	return b.String()
}
