//go:build verif

// Package m3u is an independent, strict M3U8 reader written from RFC 8216 and draft-pantos-hls-rfc8216bis.
// It shares no code with gohlslib's pkg/playlist. Parse returns the decoded playlist together with the list of
// grammar violations it found (an empty list means the text is grammatical).
package m3u

import (
	"fmt"
	"regexp"
	"strconv"
	"strings"
	"time"
)

type Attr struct {
	Name   string
	Value  string // unquoted value
	Quoted bool
}

type Part struct {
	URI         string
	DurationNS  int64
	Independent bool
	Gap         bool
	ByteRange   string
}

type Key struct {
	Method, URI, IV, KeyFormat, KeyFormatVersions string
}

type Segment struct {
	URI           string
	DurationNS    int64
	DurationText  string
	Title         string
	DateTime      *time.Time
	Gap           bool
	Discontinuity bool
	ByteRange     string
	Bitrate       *int
	Key           *Key // key in effect
	MapURI        string
	MapByteRange  string
	Parts         []Part
}

type ServerControl struct {
	CanBlockReload    bool
	PartHoldBackNS    *int64
	CanSkipUntilNS    *int64
	HoldBackNS        *int64
	CanSkipDateRanges bool
}

type PreloadHint struct {
	Type            string
	URI             string
	ByteRangeStart  *uint64
	ByteRangeLength *uint64
}

type Start struct {
	TimeOffsetNS int64
	Precise      bool
}

type Media struct {
	Version               *int
	IndependentSegments   bool
	Start                 *Start
	TargetDuration        int
	HasTargetDuration     bool
	MediaSequence         int
	HasMediaSequence      bool
	DiscontinuitySequence *int
	AllowCache            *bool
	PlaylistType          string
	ServerControl         *ServerControl
	PartTargetNS          *int64
	Skip                  *int
	Segments              []*Segment
	Parts                 []Part // parts after the last segment
	PreloadHints          []PreloadHint
	Endlist               bool
	MapURI                string // first EXT-X-MAP
	HasMap                bool
}

type Variant struct {
	URI                                     string
	Bandwidth                               int
	AverageBandwidth                        *int
	Codecs                                  []string
	Resolution                              string
	FrameRate                               string
	Video, Audio, Subtitles, ClosedCaptions string
	Attrs                                   []Attr
}

type Rendition struct {
	Type, GroupID, Name, Language string
	Default, Autoselect, Forced   *bool
	Channels, InstreamID          string
	URI                           *string
	Attrs                         []Attr
}

type Multi struct {
	Version             *int
	IndependentSegments bool
	Start               *Start
	Variants            []*Variant
	Renditions          []*Rendition
}

var (
	reInt    = regexp.MustCompile(`^[0-9]{1,20}$`)
	reFloat  = regexp.MustCompile(`^[0-9]+(\.[0-9]+)?$`)
	reSFloat = regexp.MustCompile(`^-?[0-9]+(\.[0-9]+)?$`)
	reHex    = regexp.MustCompile(`^0[xX][0-9A-Fa-f]+$`)
	reRes    = regexp.MustCompile(`^[0-9]+x[0-9]+$`)
	reName   = regexp.MustCompile(`^[A-Z0-9-]+$`)
	reRange  = regexp.MustCompile(`^[0-9]+(@[0-9]+)?$`)
)

// ParseDecimalNS converts a decimal number of seconds to nanoseconds exactly (truncating beyond 1 ns).
func ParseDecimalNS(s string) (int64, bool) {
	neg := false
	if strings.HasPrefix(s, "-") {
		neg = true
		s = s[1:]
	}
	if !reFloat.MatchString(s) {
		return 0, false
	}
	ip, fp := s, ""
	if i := strings.IndexByte(s, '.'); i >= 0 {
		ip, fp = s[:i], s[i+1:]
	}
	iv, err := strconv.ParseInt(ip, 10, 64)
	if err != nil || iv > 9_000_000_000 {
		return 0, false
	}
	for len(fp) < 9 {
		fp += "0"
	}
	fv, _ := strconv.ParseInt(fp[:9], 10, 64)
	v := iv*1_000_000_000 + fv
	if neg {
		v = -v
	}
	return v, true
}

// ParseAttrs splits an attribute list; errs receives grammar violations.
func ParseAttrs(s string, where string, errs *[]string) []Attr {
	var out []Attr
	seen := map[string]bool{}
	if s == "" {
		*errs = append(*errs, where+": empty attribute list")
		return nil
	}
	i := 0
	for i <= len(s) {
		// one NAME=value
		j := strings.IndexByte(s[i:], '=')
		if j < 0 {
			*errs = append(*errs, fmt.Sprintf("%s: attribute without '=' at %q", where, s[i:]))
			return out
		}
		name := s[i : i+j]
		if !reName.MatchString(name) {
			*errs = append(*errs, fmt.Sprintf("%s: bad attribute name %q", where, name))
		}
		i += j + 1
		var val string
		quoted := false
		if i < len(s) && s[i] == '"' {
			quoted = true
			k := strings.IndexByte(s[i+1:], '"')
			if k < 0 {
				*errs = append(*errs, where+": unterminated quoted string")
				return out
			}
			val = s[i+1 : i+1+k]
			i += k + 2
			if strings.ContainsAny(val, "\r\n") {
				*errs = append(*errs, where+": line break in quoted string")
			}
		} else {
			k := strings.IndexByte(s[i:], ',')
			if k < 0 {
				k = len(s) - i
			}
			val = s[i : i+k]
			i += k
			if val == "" {
				*errs = append(*errs, fmt.Sprintf("%s: empty value for %s", where, name))
			}
			if strings.ContainsAny(val, "\" \t") {
				*errs = append(*errs, fmt.Sprintf("%s: bad unquoted value %q for %s", where, val, name))
			}
		}
		if seen[name] {
			*errs = append(*errs, fmt.Sprintf("%s: attribute %s appears twice", where, name))
		}
		seen[name] = true
		out = append(out, Attr{Name: name, Value: val, Quoted: quoted})
		if i >= len(s) {
			break
		}
		if s[i] != ',' {
			*errs = append(*errs, fmt.Sprintf("%s: expected ',' after %s, found %q", where, name, s[i:]))
			return out
		}
		i++
		if i >= len(s) {
			*errs = append(*errs, where+": trailing comma in attribute list")
		}
	}
	return out
}

type attrSpec struct {
	typ      string // int float sfloat qstr enum hex res
	enum     []string
	required bool
}

func checkAttrs(attrs []Attr, spec map[string]attrSpec, where string, strictUnknown bool, errs *[]string) map[string]Attr {
	m := map[string]Attr{}
	for _, a := range attrs {
		m[a.Name] = a
		sp, ok := spec[a.Name]
		if !ok {
			if strictUnknown {
				*errs = append(*errs, fmt.Sprintf("%s: unknown attribute %s", where, a.Name))
			}
			continue
		}
		bad := false
		switch sp.typ {
		case "int":
			bad = a.Quoted || !reInt.MatchString(a.Value)
		case "float":
			bad = a.Quoted || !reFloat.MatchString(a.Value)
		case "sfloat":
			bad = a.Quoted || !reSFloat.MatchString(a.Value)
		case "hex":
			bad = a.Quoted || !reHex.MatchString(a.Value)
		case "res":
			bad = a.Quoted || !reRes.MatchString(a.Value)
		case "qstr":
			bad = !a.Quoted
		case "qrange":
			bad = !a.Quoted || !reRange.MatchString(a.Value)
		case "enum":
			bad = a.Quoted
			found := false
			for _, e := range sp.enum {
				if e == a.Value {
					found = true
				}
			}
			if !found {
				bad = true
			}
		case "qstr|enum": // CLOSED-CAPTIONS: quoted string or NONE
			if !a.Quoted && a.Value != "NONE" {
				bad = true
			}
		}
		if bad {
			*errs = append(*errs, fmt.Sprintf("%s: attribute %s has value %q of the wrong lexical type (%s)", where, a.Name, a.Value, sp.typ))
		}
	}
	for n, sp := range spec {
		if sp.required {
			if _, ok := m[n]; !ok {
				*errs = append(*errs, fmt.Sprintf("%s: required attribute %s missing", where, n))
			}
		}
	}
	return m
}

var yes = []string{"YES"}
var yesno = []string{"YES", "NO"}

var (
	specStart     = map[string]attrSpec{"TIME-OFFSET": {typ: "sfloat", required: true}, "PRECISE": {typ: "enum", enum: yesno}}
	specServerCtl = map[string]attrSpec{"CAN-BLOCK-RELOAD": {typ: "enum", enum: yes}, "PART-HOLD-BACK": {typ: "float"}, "CAN-SKIP-UNTIL": {typ: "float"}, "HOLD-BACK": {typ: "float"}, "CAN-SKIP-DATERANGES": {typ: "enum", enum: yes}}
	specPartInf   = map[string]attrSpec{"PART-TARGET": {typ: "float", required: true}}
	specMap       = map[string]attrSpec{"URI": {typ: "qstr", required: true}, "BYTERANGE": {typ: "qrange"}}
	specSkip      = map[string]attrSpec{"SKIPPED-SEGMENTS": {typ: "int", required: true}, "RECENTLY-REMOVED-DATERANGES": {typ: "qstr"}}
	specKey       = map[string]attrSpec{"METHOD": {typ: "enum", enum: []string{"NONE", "AES-128", "SAMPLE-AES", "SAMPLE-AES-CTR"}, required: true}, "URI": {typ: "qstr"}, "IV": {typ: "hex"}, "KEYFORMAT": {typ: "qstr"}, "KEYFORMATVERSIONS": {typ: "qstr"}}
	specPart      = map[string]attrSpec{"DURATION": {typ: "float", required: true}, "URI": {typ: "qstr", required: true}, "INDEPENDENT": {typ: "enum", enum: yes}, "BYTERANGE": {typ: "qrange"}, "GAP": {typ: "enum", enum: yes}}
	specHint      = map[string]attrSpec{"TYPE": {typ: "enum", enum: []string{"PART", "MAP"}, required: true}, "URI": {typ: "qstr", required: true}, "BYTERANGE-START": {typ: "int"}, "BYTERANGE-LENGTH": {typ: "int"}}
	specStreamInf = map[string]attrSpec{"BANDWIDTH": {typ: "int", required: true}, "AVERAGE-BANDWIDTH": {typ: "int"}, "CODECS": {typ: "qstr"}, "RESOLUTION": {typ: "res"}, "FRAME-RATE": {typ: "float"}, "VIDEO": {typ: "qstr"}, "AUDIO": {typ: "qstr"}, "SUBTITLES": {typ: "qstr"}, "CLOSED-CAPTIONS": {typ: "qstr|enum"}, "HDCP-LEVEL": {typ: "enum", enum: []string{"TYPE-0", "TYPE-1", "NONE"}}, "VIDEO-RANGE": {typ: "enum", enum: []string{"SDR", "HLG", "PQ"}}, "PROGRAM-ID": {typ: "int"}, "NAME": {typ: "qstr"}, "STABLE-VARIANT-ID": {typ: "qstr"}, "SCORE": {typ: "float"}, "SUPPLEMENTAL-CODECS": {typ: "qstr"}, "PATHWAY-ID": {typ: "qstr"}, "ALLOWED-CPC": {typ: "qstr"}}
	specMedia     = map[string]attrSpec{"TYPE": {typ: "enum", enum: []string{"AUDIO", "VIDEO", "SUBTITLES", "CLOSED-CAPTIONS"}, required: true}, "GROUP-ID": {typ: "qstr", required: true}, "NAME": {typ: "qstr", required: true}, "LANGUAGE": {typ: "qstr"}, "ASSOC-LANGUAGE": {typ: "qstr"}, "DEFAULT": {typ: "enum", enum: yesno}, "AUTOSELECT": {typ: "enum", enum: yesno}, "FORCED": {typ: "enum", enum: yesno}, "CHANNELS": {typ: "qstr"}, "URI": {typ: "qstr"}, "INSTREAM-ID": {typ: "qstr"}, "CHARACTERISTICS": {typ: "qstr"}, "STABLE-RENDITION-ID": {typ: "qstr"}, "BIT-DEPTH": {typ: "int"}, "SAMPLE-RATE": {typ: "int"}}
)

func attrNS(m map[string]Attr, n string) *int64 {
	a, ok := m[n]
	if !ok {
		return nil
	}
	v, ok := ParseDecimalNS(a.Value)
	if !ok {
		return nil
	}
	return &v
}

// Options of the parser.
type Options struct {
	StrictUnknown bool // unknown tags / attributes are violations (encoder output); otherwise tolerated (input texts)
}

// Parse decodes a playlist. Exactly one of the returned playlists is non-nil unless the text is hopeless.
func Parse(text []byte, opt Options) (*Media, *Multi, []string) {
	var errs []string
	s := string(text)
	s = strings.ReplaceAll(s, "\r\n", "\n")
	lines := strings.Split(s, "\n")
	if len(lines) > 0 && lines[len(lines)-1] == "" {
		lines = lines[:len(lines)-1]
	}
	if len(lines) == 0 || strings.TrimRight(lines[0], " \t") != "#EXTM3U" {
		errs = append(errs, "first line is not #EXTM3U")
		if len(lines) == 0 {
			return nil, nil, errs
		}
	}
	isMulti, isMedia := false, false
	for _, l := range lines {
		if strings.HasPrefix(l, "#EXT-X-STREAM-INF:") || strings.HasPrefix(l, "#EXT-X-MEDIA:") || strings.HasPrefix(l, "#EXT-X-I-FRAME-STREAM-INF:") {
			isMulti = true
		}
		if strings.HasPrefix(l, "#EXTINF:") || strings.HasPrefix(l, "#EXT-X-TARGETDURATION:") || strings.HasPrefix(l, "#EXT-X-MEDIA-SEQUENCE:") || strings.HasPrefix(l, "#EXT-X-PART:") {
			isMedia = true
		}
	}
	if isMulti && isMedia {
		errs = append(errs, "playlist contains both media-playlist and multivariant-playlist tags")
	}
	if isMulti {
		m := parseMulti(lines, opt, &errs)
		return nil, m, errs
	}
	m := parseMedia(lines, opt, &errs)
	return m, nil, errs
}

func splitTag(l string) (string, string, bool) {
	// "#EXT-X-FOO:value" -> ("EXT-X-FOO", "value", true); "#EXT-X-FOO" -> ("EXT-X-FOO", "", false)
	l = l[1:]
	if i := strings.IndexByte(l, ':'); i >= 0 {
		return l[:i], l[i+1:], true
	}
	return l, "", false
}

func once(seen map[string]int, name string, line int, errs *[]string) {
	seen[name]++
	if seen[name] == 2 {
		*errs = append(*errs, fmt.Sprintf("line %d: tag %s appears more than once", line, name))
	}
}

func parseIntTag(v string, name string, line int, errs *[]string) int {
	if !reInt.MatchString(v) {
		*errs = append(*errs, fmt.Sprintf("line %d: %s value %q is not a decimal-integer", line, name, v))
	}
	n, _ := strconv.Atoi(v)
	return n
}

func parseStart(v string, line int, opt Options, errs *[]string) *Start {
	where := fmt.Sprintf("line %d EXT-X-START", line)
	m := checkAttrs(ParseAttrs(v, where, errs), specStart, where, opt.StrictUnknown, errs)
	st := &Start{}
	if a, ok := m["TIME-OFFSET"]; ok {
		st.TimeOffsetNS, _ = ParseDecimalNS(a.Value)
	}
	st.Precise = m["PRECISE"].Value == "YES"
	return st
}

func parsePart(v string, line int, opt Options, errs *[]string) Part {
	where := fmt.Sprintf("line %d EXT-X-PART", line)
	m := checkAttrs(ParseAttrs(v, where, errs), specPart, where, opt.StrictUnknown, errs)
	p := Part{URI: m["URI"].Value, Independent: m["INDEPENDENT"].Value == "YES", Gap: m["GAP"].Value == "YES", ByteRange: m["BYTERANGE"].Value}
	if d := attrNS(m, "DURATION"); d != nil {
		p.DurationNS = *d
	}
	if p.URI == "" {
		*errs = append(*errs, where+": empty URI")
	}
	return p
}

func parseMedia(lines []string, opt Options, errs *[]string) *Media {
	m := &Media{}
	seen := map[string]int{}
	var cur *Segment // segment being assembled (tags seen, URI not yet)
	newSeg := func() *Segment {
		if cur == nil {
			cur = &Segment{}
		}
		return cur
	}
	var key *Key
	mapURI, mapRange := "", ""
	hasExtinf := false
	firstSegSeen := false
	for i, l := range lines {
		ln := i + 1
		if i == 0 {
			continue
		}
		if l == "" {
			continue
		}
		if l[0] != '#' {
			// URI line
			if strings.TrimSpace(l) != l {
				*errs = append(*errs, fmt.Sprintf("line %d: URI line with surrounding white space", ln))
			}
			seg := newSeg()
			if !hasExtinf {
				*errs = append(*errs, fmt.Sprintf("line %d: URI %q is not preceded by an EXTINF tag", ln, l))
			}
			seg.URI = l
			seg.Key = key
			seg.MapURI, seg.MapByteRange = mapURI, mapRange
			m.Segments = append(m.Segments, seg)
			cur = nil
			hasExtinf = false
			firstSegSeen = true
			continue
		}
		if !strings.HasPrefix(l, "#EXT") {
			continue // comment
		}
		name, val, hasVal := splitTag(l)
		switch name {
		case "EXTM3U":
			*errs = append(*errs, fmt.Sprintf("line %d: EXTM3U repeated", ln))
		case "EXT-X-VERSION":
			once(seen, name, ln, errs)
			v := parseIntTag(val, name, ln, errs)
			m.Version = &v
		case "EXT-X-INDEPENDENT-SEGMENTS":
			once(seen, name, ln, errs)
			m.IndependentSegments = true
			if hasVal {
				*errs = append(*errs, fmt.Sprintf("line %d: %s takes no value", ln, name))
			}
		case "EXT-X-START":
			once(seen, name, ln, errs)
			m.Start = parseStart(val, ln, opt, errs)
		case "EXT-X-TARGETDURATION":
			once(seen, name, ln, errs)
			m.TargetDuration = parseIntTag(val, name, ln, errs)
			m.HasTargetDuration = true
		case "EXT-X-MEDIA-SEQUENCE":
			once(seen, name, ln, errs)
			if firstSegSeen {
				*errs = append(*errs, fmt.Sprintf("line %d: %s after the first media segment", ln, name))
			}
			m.MediaSequence = parseIntTag(val, name, ln, errs)
			m.HasMediaSequence = true
		case "EXT-X-DISCONTINUITY-SEQUENCE":
			once(seen, name, ln, errs)
			if firstSegSeen {
				*errs = append(*errs, fmt.Sprintf("line %d: %s after the first media segment", ln, name))
			}
			v := parseIntTag(val, name, ln, errs)
			m.DiscontinuitySequence = &v
		case "EXT-X-ALLOW-CACHE":
			once(seen, name, ln, errs)
			if val != "YES" && val != "NO" {
				*errs = append(*errs, fmt.Sprintf("line %d: %s value %q", ln, name, val))
			}
			b := val == "YES"
			m.AllowCache = &b
		case "EXT-X-PLAYLIST-TYPE":
			once(seen, name, ln, errs)
			if val != "EVENT" && val != "VOD" {
				*errs = append(*errs, fmt.Sprintf("line %d: %s value %q", ln, name, val))
			}
			m.PlaylistType = val
		case "EXT-X-SERVER-CONTROL":
			once(seen, name, ln, errs)
			where := fmt.Sprintf("line %d %s", ln, name)
			a := checkAttrs(ParseAttrs(val, where, errs), specServerCtl, where, opt.StrictUnknown, errs)
			m.ServerControl = &ServerControl{CanBlockReload: a["CAN-BLOCK-RELOAD"].Value == "YES", PartHoldBackNS: attrNS(a, "PART-HOLD-BACK"),
				CanSkipUntilNS: attrNS(a, "CAN-SKIP-UNTIL"), HoldBackNS: attrNS(a, "HOLD-BACK"), CanSkipDateRanges: a["CAN-SKIP-DATERANGES"].Value == "YES"}
		case "EXT-X-PART-INF":
			once(seen, name, ln, errs)
			where := fmt.Sprintf("line %d %s", ln, name)
			a := checkAttrs(ParseAttrs(val, where, errs), specPartInf, where, opt.StrictUnknown, errs)
			m.PartTargetNS = attrNS(a, "PART-TARGET")
		case "EXT-X-MAP":
			where := fmt.Sprintf("line %d %s", ln, name)
			a := checkAttrs(ParseAttrs(val, where, errs), specMap, where, opt.StrictUnknown, errs)
			mapURI, mapRange = a["URI"].Value, a["BYTERANGE"].Value
			if mapURI == "" {
				*errs = append(*errs, where+": empty URI")
			}
			if !m.HasMap {
				m.HasMap = true
				m.MapURI = mapURI
			}
		case "EXT-X-SKIP":
			once(seen, name, ln, errs)
			if firstSegSeen {
				*errs = append(*errs, fmt.Sprintf("line %d: %s after the first media segment", ln, name))
			}
			where := fmt.Sprintf("line %d %s", ln, name)
			a := checkAttrs(ParseAttrs(val, where, errs), specSkip, where, opt.StrictUnknown, errs)
			n, _ := strconv.Atoi(a["SKIPPED-SEGMENTS"].Value)
			m.Skip = &n
		case "EXT-X-KEY":
			where := fmt.Sprintf("line %d %s", ln, name)
			a := checkAttrs(ParseAttrs(val, where, errs), specKey, where, opt.StrictUnknown, errs)
			k := &Key{Method: a["METHOD"].Value, URI: a["URI"].Value, IV: a["IV"].Value, KeyFormat: a["KEYFORMAT"].Value, KeyFormatVersions: a["KEYFORMATVERSIONS"].Value}
			if k.Method == "NONE" {
				if len(a) != 1 {
					*errs = append(*errs, where+": METHOD=NONE with other attributes")
				}
				key = nil
			} else {
				if _, ok := a["URI"]; !ok {
					*errs = append(*errs, where+": URI required unless METHOD=NONE")
				}
				key = k
			}
		case "EXT-X-PROGRAM-DATE-TIME":
			seg := newSeg()
			if seg.DateTime != nil {
				*errs = append(*errs, fmt.Sprintf("line %d: two EXT-X-PROGRAM-DATE-TIME tags for one segment", ln))
			}
			t, err := parseDateTime(val)
			if err != nil {
				*errs = append(*errs, fmt.Sprintf("line %d: bad date-time %q", ln, val))
			} else {
				seg.DateTime = &t
			}
		case "EXT-X-DISCONTINUITY":
			seg := newSeg()
			if seg.Discontinuity {
				*errs = append(*errs, fmt.Sprintf("line %d: EXT-X-DISCONTINUITY twice for one segment", ln))
			}
			seg.Discontinuity = true
		case "EXT-X-GAP":
			seg := newSeg()
			if seg.Gap {
				*errs = append(*errs, fmt.Sprintf("line %d: EXT-X-GAP twice for one segment", ln))
			}
			seg.Gap = true
		case "EXT-X-BITRATE":
			v := parseIntTag(val, name, ln, errs)
			newSeg().Bitrate = &v
		case "EXT-X-PART":
			if hasExtinf {
				*errs = append(*errs, fmt.Sprintf("line %d: EXT-X-PART between EXTINF and its URI", ln))
			}
			p := parsePart(val, ln, opt, errs)
			seg := newSeg()
			seg.Parts = append(seg.Parts, p)
		case "EXTINF":
			seg := newSeg()
			if hasExtinf {
				*errs = append(*errs, fmt.Sprintf("line %d: two EXTINF tags for one segment", ln))
			}
			hasExtinf = true
			d, title := val, ""
			if j := strings.IndexByte(val, ','); j >= 0 {
				d, title = val[:j], val[j+1:]
			}
			ns, ok := ParseDecimalNS(d)
			if !ok {
				*errs = append(*errs, fmt.Sprintf("line %d: EXTINF duration %q is not a decimal number", ln, d))
			}
			seg.DurationNS, seg.DurationText, seg.Title = ns, d, title
		case "EXT-X-BYTERANGE":
			seg := newSeg()
			if !hasExtinf {
				*errs = append(*errs, fmt.Sprintf("line %d: EXT-X-BYTERANGE before EXTINF", ln))
			}
			if seg.ByteRange != "" {
				*errs = append(*errs, fmt.Sprintf("line %d: two EXT-X-BYTERANGE tags for one segment", ln))
			}
			if !reRange.MatchString(val) {
				*errs = append(*errs, fmt.Sprintf("line %d: bad byte range %q", ln, val))
			}
			seg.ByteRange = val
		case "EXT-X-PRELOAD-HINT":
			where := fmt.Sprintf("line %d %s", ln, name)
			a := checkAttrs(ParseAttrs(val, where, errs), specHint, where, opt.StrictUnknown, errs)
			h := PreloadHint{Type: a["TYPE"].Value, URI: a["URI"].Value}
			if x, ok := a["BYTERANGE-START"]; ok {
				v, _ := strconv.ParseUint(x.Value, 10, 64)
				h.ByteRangeStart = &v
			}
			if x, ok := a["BYTERANGE-LENGTH"]; ok {
				v, _ := strconv.ParseUint(x.Value, 10, 64)
				h.ByteRangeLength = &v
			}
			for _, o := range m.PreloadHints {
				if o.Type == h.Type {
					*errs = append(*errs, where+": more than one preload hint of type "+h.Type)
				}
			}
			if h.URI == "" {
				*errs = append(*errs, where+": empty URI")
			}
			m.PreloadHints = append(m.PreloadHints, h)
		case "EXT-X-ENDLIST":
			once(seen, name, ln, errs)
			m.Endlist = true
		case "EXT-X-DATERANGE", "EXT-X-I-FRAMES-ONLY", "EXT-X-RENDITION-REPORT", "EXT-X-DEFINE", "EXT-X-CUE-OUT", "EXT-X-CUE-IN":
			// tolerated, not modelled
		default:
			if opt.StrictUnknown {
				*errs = append(*errs, fmt.Sprintf("line %d: unknown tag %s", ln, name))
			}
		}
	}
	if cur != nil {
		// trailing tags without a URI: parts of the open segment are legal, anything else is not
		if hasExtinf {
			*errs = append(*errs, "EXTINF without a following URI at the end of the playlist")
		}
		if cur.Gap || cur.Discontinuity && len(cur.Parts) == 0 {
			// a trailing GAP / DISCONTINUITY applies to nothing
		}
		m.Parts = cur.Parts
		if cur.DateTime != nil && len(cur.Parts) == 0 {
			*errs = append(*errs, "EXT-X-PROGRAM-DATE-TIME applies to no segment")
		}
	}
	if !m.HasTargetDuration {
		*errs = append(*errs, "EXT-X-TARGETDURATION missing")
	}
	if m.PartTargetNS != nil && (m.ServerControl == nil || m.ServerControl.PartHoldBackNS == nil) {
		*errs = append(*errs, "EXT-X-PART-INF without PART-HOLD-BACK in EXT-X-SERVER-CONTROL")
	}
	if m.PartTargetNS == nil {
		hasParts := len(m.Parts) > 0
		for _, s := range m.Segments {
			if len(s.Parts) > 0 {
				hasParts = true
			}
		}
		if hasParts {
			*errs = append(*errs, "EXT-X-PART present without EXT-X-PART-INF")
		}
	}
	return m
}

func parseDateTime(v string) (time.Time, error) {
	for _, f := range []string{"2006-01-02T15:04:05.999999999Z07:00", "2006-01-02T15:04:05.999999999Z0700", "2006-01-02T15:04:05.999999999Z07"} {
		if t, err := time.Parse(f, v); err == nil {
			return t, nil
		}
	}
	return time.Time{}, fmt.Errorf("bad date-time")
}

func boolp(a Attr, ok bool) *bool {
	if !ok {
		return nil
	}
	b := a.Value == "YES"
	return &b
}

func parseMulti(lines []string, opt Options, errs *[]string) *Multi {
	m := &Multi{}
	seen := map[string]int{}
	var pending *Variant
	for i, l := range lines {
		ln := i + 1
		if i == 0 {
			continue
		}
		if pending != nil {
			if l == "" || l[0] == '#' {
				*errs = append(*errs, fmt.Sprintf("line %d: EXT-X-STREAM-INF is not followed by a URI line", ln))
				pending = nil
			} else {
				pending.URI = l
				m.Variants = append(m.Variants, pending)
				pending = nil
				continue
			}
		}
		if l == "" {
			continue
		}
		if l[0] != '#' {
			*errs = append(*errs, fmt.Sprintf("line %d: URI %q is not preceded by EXT-X-STREAM-INF", ln, l))
			continue
		}
		if !strings.HasPrefix(l, "#EXT") {
			continue
		}
		name, val, hasVal := splitTag(l)
		switch name {
		case "EXT-X-VERSION":
			once(seen, name, ln, errs)
			v := parseIntTag(val, name, ln, errs)
			m.Version = &v
		case "EXT-X-INDEPENDENT-SEGMENTS":
			once(seen, name, ln, errs)
			m.IndependentSegments = true
			if hasVal {
				*errs = append(*errs, fmt.Sprintf("line %d: %s takes no value", ln, name))
			}
		case "EXT-X-START":
			once(seen, name, ln, errs)
			m.Start = parseStart(val, ln, opt, errs)
		case "EXT-X-STREAM-INF":
			where := fmt.Sprintf("line %d %s", ln, name)
			attrs := ParseAttrs(val, where, errs)
			a := checkAttrs(attrs, specStreamInf, where, opt.StrictUnknown, errs)
			v := &Variant{Attrs: attrs, Resolution: a["RESOLUTION"].Value, FrameRate: a["FRAME-RATE"].Value, Video: a["VIDEO"].Value,
				Audio: a["AUDIO"].Value, Subtitles: a["SUBTITLES"].Value, ClosedCaptions: a["CLOSED-CAPTIONS"].Value}
			v.Bandwidth, _ = strconv.Atoi(a["BANDWIDTH"].Value)
			if x, ok := a["AVERAGE-BANDWIDTH"]; ok {
				n, _ := strconv.Atoi(x.Value)
				v.AverageBandwidth = &n
			}
			if x, ok := a["CODECS"]; ok {
				if x.Value == "" {
					*errs = append(*errs, where+": empty CODECS")
				}
				for _, c := range strings.Split(x.Value, ",") {
					v.Codecs = append(v.Codecs, strings.TrimSpace(c))
				}
			}
			pending = v
		case "EXT-X-MEDIA":
			where := fmt.Sprintf("line %d %s", ln, name)
			attrs := ParseAttrs(val, where, errs)
			a := checkAttrs(attrs, specMedia, where, opt.StrictUnknown, errs)
			r := &Rendition{Attrs: attrs, Type: a["TYPE"].Value, GroupID: a["GROUP-ID"].Value, Name: a["NAME"].Value, Language: a["LANGUAGE"].Value,
				Channels: a["CHANNELS"].Value, InstreamID: a["INSTREAM-ID"].Value}
			x, ok := a["DEFAULT"]
			r.Default = boolp(x, ok)
			x, ok = a["AUTOSELECT"]
			r.Autoselect = boolp(x, ok)
			x, ok = a["FORCED"]
			r.Forced = boolp(x, ok)
			if x, ok := a["URI"]; ok {
				u := x.Value
				r.URI = &u
			}
			switch r.Type {
			case "CLOSED-CAPTIONS":
				if r.URI != nil {
					*errs = append(*errs, where+": URI forbidden for CLOSED-CAPTIONS")
				}
				if _, ok := a["INSTREAM-ID"]; !ok {
					*errs = append(*errs, where+": INSTREAM-ID required for CLOSED-CAPTIONS")
				}
			case "SUBTITLES":
				if r.URI == nil {
					*errs = append(*errs, where+": URI required for SUBTITLES")
				}
			}
			if r.Type != "CLOSED-CAPTIONS" {
				if _, ok := a["INSTREAM-ID"]; ok {
					*errs = append(*errs, where+": INSTREAM-ID only allowed for CLOSED-CAPTIONS")
				}
			}
			if _, ok := a["CHANNELS"]; ok && r.Type != "AUDIO" {
				*errs = append(*errs, where+": CHANNELS only allowed for AUDIO")
			}
			if _, ok := a["FORCED"]; ok && r.Type != "SUBTITLES" {
				*errs = append(*errs, where+": FORCED only allowed for SUBTITLES")
			}
			if r.Default != nil && *r.Default && r.Autoselect != nil && !*r.Autoselect {
				*errs = append(*errs, where+": DEFAULT=YES with AUTOSELECT=NO")
			}
			m.Renditions = append(m.Renditions, r)
		case "EXT-X-I-FRAME-STREAM-INF", "EXT-X-SESSION-DATA", "EXT-X-SESSION-KEY", "EXT-X-CONTENT-STEERING", "EXT-X-DEFINE":
		default:
			if opt.StrictUnknown {
				*errs = append(*errs, fmt.Sprintf("line %d: unknown tag %s", ln, name))
			}
		}
	}
	if pending != nil {
		*errs = append(*errs, "EXT-X-STREAM-INF at the end of the playlist without a URI line")
	}
	// group references and default uniqueness
	groups := map[string]map[string]int{}
	for _, r := range m.Renditions {
		k := r.Type + "/" + r.GroupID
		if groups[k] == nil {
			groups[k] = map[string]int{}
		}
		groups[k]["n"]++
		if r.Default != nil && *r.Default {
			groups[k]["default"]++
		}
	}
	for k, g := range groups {
		if g["default"] > 1 {
			*errs = append(*errs, fmt.Sprintf("rendition group %s has %d DEFAULT=YES members", k, g["default"]))
		}
	}
	for _, v := range m.Variants {
		for typ, id := range map[string]string{"AUDIO": v.Audio, "VIDEO": v.Video, "SUBTITLES": v.Subtitles} {
			if id != "" && groups[typ+"/"+id] == nil {
				*errs = append(*errs, fmt.Sprintf("variant %s references %s group %q which has no EXT-X-MEDIA", v.URI, typ, id))
			}
		}
	}
	return m
}
