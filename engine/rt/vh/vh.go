//go:build verif

// Package vh is the harness-side helper shared by all in-package verification harnesses:
// job parsing, result accounting (executions, states, outcomes, samples, violations), deadlines.
package vh

import (
	"crypto/sha256"
	"encoding/hex"
	"encoding/json"
	"fmt"
	"os"
	"runtime"
	"sort"
	"strconv"
	"strings"
	"testing"
	"time"
)

// Scenario is one unit of work a harness lists for a property and tier.
type Scenario struct {
	Name   string `json:"name"`
	Weight int    `json:"weight,omitempty"`
}

// Violation is one property violation found by a harness.
type Violation struct {
	Signature string          `json:"signature"` // stable class of the failure (matched against known findings)
	Message   string          `json:"message"`
	Scenario  string          `json:"scenario"`
	Replay    json.RawMessage `json:"replay,omitempty"` // whatever the harness needs to re-run this single case
}

// Result is what one worker invocation reports.
type Result struct {
	Property    string            `json:"property"`
	Scenarios   []string          `json:"scenarios"`
	Executions  int64             `json:"executions"`
	Decisions   int64             `json:"decisions"`
	States      int64             `json:"states"`
	Transitions int64             `json:"transitions"`
	Steps       int64             `json:"steps"` // reference-model comparisons / oracle evaluations
	Outcomes    []string          `json:"outcomes"`
	OutcomesCap bool              `json:"outcomes_capped"`
	Samples     []json.RawMessage `json:"samples"`
	Violations  []Violation       `json:"violations"`
	Caps        []string          `json:"caps"`
	Counters    map[string]int64  `json:"counters"`
	MaxBound    map[string]int    `json:"max_bound"` // scenario -> deviation bound fully completed
	EngineError string            `json:"engine_error,omitempty"`
	WallS       float64           `json:"wall_s"`
}

// Ctx is handed to a harness for one scenario.
type Ctx struct {
	T        *testing.T
	Property string
	Tier     string
	Scenario string
	Deadline time.Time
	Scratch  string
	Replay   json.RawMessage // non-nil: re-run exactly this case
	Params   map[string]string

	res      *Result
	outcomes map[string]struct{}
	flush    func()
}

// Flush writes the result file now (used by watchdogs that are about to end the process).
func Flush(c *Ctx) {
	if c.flush != nil {
		c.flush()
	}
}

const maxOutcomes = 200000
const maxSamples = 6
const maxViolations = 40

func (c *Ctx) Exec()                  { c.res.Executions++ }
func (c *Ctx) AddExec(n int64)        { c.res.Executions += n }
func (c *Ctx) AddDecisions(n int64)   { c.res.Decisions += n }
func (c *Ctx) AddStates(n int64)      { c.res.States += n }
func (c *Ctx) AddTransitions(n int64) { c.res.Transitions += n }
func (c *Ctx) AddSteps(n int64)       { c.res.Steps += n }
func (c *Ctx) Count(k string, n int64) {
	c.res.Counters[k] += n
}
func (c *Ctx) Bound(b int) { c.res.MaxBound[c.Scenario] = b }

// Outcome records the canonical observation of one execution / case (hashed).
func (c *Ctx) Outcome(s string) {
	h := sha256.Sum256([]byte(s))
	k := hex.EncodeToString(h[:8])
	if len(c.outcomes) >= maxOutcomes {
		c.res.OutcomesCap = true
		return
	}
	c.outcomes[k] = struct{}{}
}

func (c *Ctx) Sample(v any) {
	if len(c.res.Samples) >= maxSamples {
		return
	}
	b, err := json.Marshal(v)
	if err == nil {
		c.res.Samples = append(c.res.Samples, b)
	}
}

func (c *Ctx) WantSample() bool { return len(c.res.Samples) < maxSamples }

func (c *Ctx) Violation(sig, msg string, replay any) {
	if len(c.res.Violations) >= maxViolations {
		return
	}
	var rb json.RawMessage
	if replay != nil {
		rb, _ = json.Marshal(replay)
	}
	c.res.Violations = append(c.res.Violations, Violation{Signature: sig, Message: msg, Scenario: c.Scenario, Replay: rb})
}

func (c *Ctx) NViolations() int { return len(c.res.Violations) }

// Cap records that exploration of something was cut short (the run is then not exhaustive).
func (c *Ctx) Cap(reason string) {
	for _, r := range c.res.Caps {
		if r == reason {
			return
		}
	}
	c.res.Caps = append(c.res.Caps, reason)
}

func (c *Ctx) Expired() bool { return !c.Deadline.IsZero() && time.Now().After(c.Deadline) }

func (c *Ctx) EngineError(format string, a ...any) {
	c.res.EngineError = fmt.Sprintf(format, a...)
}

// Prop is the harness entry for one property.
type Prop struct {
	List func(tier string) []Scenario
	Run  func(c *Ctx)
}

// Main is called from the single TestVerif function of each harness package.
//
// Environment: VERIF_PROP, VERIF_TIER, VERIF_MODE=list|run|replay, VERIF_SCEN="i,j,k" (indices into List),
// VERIF_OUT (result file), VERIF_DEADLINE (unix seconds), VERIF_SCRATCH, VERIF_REPLAY (file), VERIF_PARAMS (k=v,k=v).
func Main(t *testing.T, props map[string]Prop) {
	prop := os.Getenv("VERIF_PROP")
	if prop == "" {
		t.Skip("VERIF_PROP not set")
	}
	p, ok := props[prop]
	if !ok {
		t.Skipf("property %s not served by this package", prop)
	}
	tier := os.Getenv("VERIF_TIER")
	if tier == "" {
		tier = "quick"
	}
	out := os.Getenv("VERIF_OUT")
	mode := os.Getenv("VERIF_MODE")
	params := map[string]string{}
	for _, kv := range strings.Split(os.Getenv("VERIF_PARAMS"), ",") {
		if i := strings.IndexByte(kv, '='); i > 0 {
			params[kv[:i]] = kv[i+1:]
		}
	}
	scen := p.List(tier)
	if mode == "list" {
		b, _ := json.Marshal(scen)
		if err := os.WriteFile(out, b, 0o644); err != nil {
			t.Fatal(err)
		}
		return
	}
	start := time.Now()
	res := &Result{Property: prop, Counters: map[string]int64{}, MaxBound: map[string]int{}}
	outcomes := map[string]struct{}{}
	var deadline time.Time
	if d := os.Getenv("VERIF_DEADLINE"); d != "" {
		if v, err := strconv.ParseInt(d, 10, 64); err == nil {
			deadline = time.Unix(v, 0)
		}
	}
	var write func()
	mk := func(name string) *Ctx {
		return &Ctx{T: t, Property: prop, Tier: tier, Scenario: name, Deadline: deadline,
			Scratch: os.Getenv("VERIF_SCRATCH"), Params: params, res: res, outcomes: outcomes, flush: func() { write() }}
	}
	write = func() {
		res.WallS = time.Since(start).Seconds()
		if os.Getenv("VERIF_VERBOSE") != "" {
			var ms runtime.MemStats
			runtime.ReadMemStats(&ms)
			res.Counters[fmt.Sprintf("mem/worker-%d heap_inuse_mb", os.Getpid())] = int64(ms.HeapInuse >> 20)
			res.Counters[fmt.Sprintf("mem/worker-%d goroutines", os.Getpid())] = int64(runtime.NumGoroutine())
		}
		res.Outcomes = res.Outcomes[:0]
		for k := range outcomes {
			res.Outcomes = append(res.Outcomes, k)
		}
		sort.Strings(res.Outcomes)
		b, _ := json.Marshal(res)
		if err := os.WriteFile(out, b, 0o644); err != nil {
			t.Fatal(err)
		}
	}
	if mode == "replay" {
		b, err := os.ReadFile(os.Getenv("VERIF_REPLAY"))
		if err != nil {
			t.Fatal(err)
		}
		var v struct {
			Scenario string          `json:"scenario"`
			Replay   json.RawMessage `json:"replay"`
		}
		if err := json.Unmarshal(b, &v); err != nil {
			t.Fatal(err)
		}
		c := mk(v.Scenario)
		c.Replay = v.Replay
		if c.Replay == nil {
			c.Replay = json.RawMessage("null")
		}
		res.Scenarios = append(res.Scenarios, v.Scenario)
		p.Run(c)
		write()
		return
	}
	for _, is := range strings.Split(os.Getenv("VERIF_SCEN"), ",") {
		if is == "" {
			continue
		}
		i, err := strconv.Atoi(is)
		if err != nil || i < 0 || i >= len(scen) {
			t.Fatalf("bad scenario index %q", is)
		}
		c := mk(scen[i].Name)
		res.Scenarios = append(res.Scenarios, scen[i].Name)
		if c.Expired() {
			c.Cap("deadline reached before scenario " + scen[i].Name)
			continue
		}
		p.Run(c)
		if res.EngineError != "" {
			break
		}
	}
	write()
}

// Hash returns a short stable hash of s.
func Hash(s string) string {
	h := sha256.Sum256([]byte(s))
	return hex.EncodeToString(h[:8])
}
