//go:build verif

package vsched

import (
	"fmt"
	"hash/fnv"
	"testing"
	"time"
)

// Viol is a property violation found in one execution.
type Viol struct {
	Sig string
	Msg string
}

// Harness describes one scenario to explore: Setup runs on the root (solo) and spawns the threads;
// Check runs on the root after the execution has ended (still inside the bubble) and evaluates the oracle.
type Harness struct {
	Setup func(s *Sched) any
	Check func(s *Sched, tr *Trace, st any) (outcome string, viols []Viol)
}

// Explorer enumerates all executions of a harness that differ from the canonical schedule in at most Bound
// decisions (deviation-bounded DFS, explored in order of increasing deviation count).
type Explorer struct {
	T          *testing.T
	H          Harness
	Bound      int  // maximum number of deviations; <0: unbounded
	Delay      bool // delay-bounded cost model
	Rotate     bool // round-robin canonical schedule
	Reverse    bool // descending-id canonical schedule
	MaxSteps   int
	Horizon    time.Duration
	Deadline   time.Time
	MaxExec    int64
	MaxPending int // cap on the executions queued at higher deviation levels (default 5 000 000)
	Shard      int // this process explores first-level alternatives with index%Shards == Shard
	Shards     int
	// OnExec is called for every execution (outcome string of Check).
	OnExec func(outcome string, tr *Trace)
	// StopAfterViolations stops the exploration after that many violating executions (default 1).
	StopAfterViolations int
}

// Found is a violating execution.
type Found struct {
	Viol    Viol
	Choices []int
	Devs    int
}

// Stats summarises an exploration.
type Stats struct {
	Executions     int64
	Decisions      int64
	BoundCompleted int // highest deviation count whose executions were all run (-1: none)
	Exhausted      bool
	Capped         string
	EngineErr      string
	Found          []Found
	MaxDepth       int
	CutByBound     bool // some alternative was not explored because it exceeded Bound
}

// item is one execution still to run: follow the first n decisions of the parent execution (base, shared between all
// children of that execution), then take alternative alt. The root item has n == -1.
type item struct {
	base    []byte
	n       int
	alt     byte
	devs    int
	metaSum uint64 // rolling hash of (kind, n, site) of the prefix decisions, for the divergence check
}

func (it *item) prefixLen() int { return it.n + 1 }

func (it *item) choices() []int {
	if it.n < 0 {
		return nil
	}
	out := make([]int, it.n+1)
	for i := 0; i < it.n; i++ {
		out[i] = int(it.base[i])
	}
	out[it.n] = int(it.alt)
	return out
}

func metaHash(prev uint64, d *Decision) uint64 {
	h := fnv.New64a()
	var b [10]byte
	for i := 0; i < 8; i++ {
		b[i] = byte(prev >> (8 * i))
	}
	b[8] = d.Kind
	b[9] = byte(d.N)
	h.Write(b[:])
	h.Write([]byte(d.Site))
	return h.Sum64()
}

func (e *Explorer) runOne(choices []int) (*Trace, string, []Viol) {
	var outcome string
	var viols []Viol
	var st any
	tr := Run(e.T, Options{Prefix: choices, MaxSteps: e.MaxSteps, Delay: e.Delay, Rotate: e.Rotate, Reverse: e.Reverse, Horizon: e.Horizon},
		func(s *Sched) { st = e.H.Setup(s) },
		func(s *Sched, tr *Trace) { outcome, viols = e.H.Check(s, tr, st) })
	for _, r := range tr.Races {
		viols = append(viols, Viol{Sig: r.Sig, Msg: r.Msg})
	}
	if tr.Aborted && outcome == "" {
		// the bubble was torn down with natively blocked goroutines: evaluate what Check saw (it ran before teardown)
	}
	return tr, outcome, viols
}

// Replay runs exactly one execution following choices.
func (e *Explorer) Replay(choices []int) (*Trace, string, []Viol) {
	return e.runOne(choices)
}

// Run performs the exploration.
func (e *Explorer) Run() Stats {
	st := Stats{BoundCompleted: -1}
	stopAfter := e.StopAfterViolations
	if stopAfter <= 0 {
		stopAfter = 1
	}
	shards := e.Shards
	if shards <= 0 {
		shards = 1
	}
	levels := map[int][]item{0: {{n: -1}}}
	// executions waiting at higher deviation levels are kept in memory; the exploration stops (capped, not failed) when
	// their number would exhaust the worker's memory
	maxPending := e.MaxPending
	if maxPending <= 0 {
		maxPending = 5_000_000
	}
	pending := 0
	maxLevel := 0
	firstLevelIdx := 0
	for lvl := 0; ; lvl++ {
		if e.Bound >= 0 && lvl > e.Bound {
			break
		}
		q := levels[lvl]
		delete(levels, lvl)
		pending -= len(q)
		if pending < 0 {
			pending = 0
		}
		if len(q) == 0 {
			if lvl >= maxLevel {
				st.Exhausted = true
				if st.BoundCompleted < lvl {
					st.BoundCompleted = lvl
				}
				break
			}
			st.BoundCompleted = lvl
			continue
		}
		// depth-first inside one level: same-cost children (cost 0) are pushed back onto this level's stack
		for len(q) > 0 {
			if !e.Deadline.IsZero() && time.Now().After(e.Deadline) {
				st.Capped = fmt.Sprintf("deadline reached while exploring executions with %d deviation(s)", lvl)
				return st
			}
			if pending > maxPending {
				st.Capped = fmt.Sprintf("%d executions with more deviations are waiting (memory cap) while exploring executions with %d deviation(s)", pending, lvl)
				return st
			}
			if e.MaxExec > 0 && st.Executions >= e.MaxExec {
				st.Capped = fmt.Sprintf("execution cap %d reached while exploring executions with %d deviation(s)", e.MaxExec, lvl)
				return st
			}
			it := q[len(q)-1]
			q = q[:len(q)-1]
			plen := it.prefixLen()
			tr, outcome, viols := e.runOne(it.choices())
			st.Executions++
			st.Decisions += int64(len(tr.Decisions))
			if len(tr.Decisions) > st.MaxDepth {
				st.MaxDepth = len(tr.Decisions)
			}
			if tr.EngineErr != "" {
				st.EngineErr = tr.EngineErr
				return st
			}
			// divergence check on the prefix
			var sum uint64
			if len(tr.Decisions) < plen {
				st.EngineErr = fmt.Sprintf("replay divergence: execution has %d decisions, prefix has %d", len(tr.Decisions), plen)
				return st
			}
			for i := 0; i < plen; i++ {
				sum = metaHash(sum, &tr.Decisions[i])
			}
			if sum != it.metaSum {
				st.EngineErr = fmt.Sprintf("replay divergence: decision metadata of the %d-decision prefix differs from the recorded execution", plen)
				return st
			}
			if e.OnExec != nil {
				e.OnExec(outcome, tr)
			}
			if len(viols) > 0 {
				// re-run the same schedule: it must fail the same way every time
				full := tr.Choices()
				for k := 0; k < 4; k++ {
					tr2, _, v2 := e.runOne(full)
					if tr2.EngineErr != "" {
						st.EngineErr = "while re-running a violating schedule: " + tr2.EngineErr
						return st
					}
					if len(v2) == 0 || v2[0].Sig != viols[0].Sig {
						st.EngineErr = fmt.Sprintf("nondeterministic verdict: schedule %v violated %q, re-run gave %v", full, viols[0].Sig, v2)
						return st
					}
				}
				for _, v := range viols {
					st.Found = append(st.Found, Found{Viol: v, Choices: full, Devs: it.devs})
				}
				if len(st.Found) >= stopAfter {
					st.Capped = "stopped after a violation"
					return st
				}
			}
			// expand alternatives at every decision after the prefix
			sum = it.metaSum
			devs := it.devs
			base := make([]byte, len(tr.Decisions)) // shared by all children of this execution
			for k := range tr.Decisions {
				base[k] = byte(tr.Decisions[k].Chosen)
			}
			for i := plen; i < len(tr.Decisions); i++ {
				d := &tr.Decisions[i]
				if !d.Moot {
					for alt := 1; alt < d.N; alt++ {
						nd := devs + d.Cost[alt]
						if e.Bound >= 0 && nd > e.Bound {
							st.CutByBound = true
							continue
						}
						if plen == 0 && shards > 1 {
							// first-level alternative of the root execution: sharded over processes
							mine := firstLevelIdx%shards == e.Shard
							firstLevelIdx++
							if !mine {
								continue
							}
						}
						child := item{base: base, n: i, alt: byte(alt), devs: nd, metaSum: metaHash(sum, d)}
						if nd == lvl {
							q = append(q, child)
						} else {
							levels[nd] = append(levels[nd], child)
							pending++
							if nd > maxLevel {
								maxLevel = nd
							}
						}
					}
				}
				sum = metaHash(sum, d)
				// (the chosen alternative of decision i is 0 beyond the prefix, cost 0)
			}
		}
		st.BoundCompleted = lvl
		if lvl >= maxLevel {
			st.Exhausted = true
			break
		}
	}
	return st
}
