//go:build verif

package vsched

// Happens-before race monitor of the controlled executions.
//
// The cooperative scheduler serialises the threads, so the Go race detector sees a hand-off (a happens-before
// edge) between any two steps and reports nothing. This monitor rebuilds the happens-before relation the *program*
// establishes - and only that: mutex release -> acquire, WaitGroup Done -> Wait, channel send / close -> receive,
// context cancel -> observation of Done, thread creation - with vector clocks, and checks every instrumented access
// to a shared field (rewriter: vsched.R / vsched.W around selector expressions of the configured struct types)
// against the previous conflicting accesses of the same address (FastTrack-style: last write epoch + one read epoch
// per thread). Scheduler hand-offs contribute no edges. A race found in one explored schedule is a race of every
// schedule with the same synchronisation order, and the explorer enumerates the synchronisation orders.
//
// Over-approximations of happens-before (they can hide a race, never invent one): a channel has one clock (every
// earlier send is ordered before every later receive, not only the matching one); a send case of a select releases
// even when another case is taken. Not modelled (could invent a race if code relied on it; none of the instrumented
// code does): "receive happens before the matching unbuffered send completes", sync/atomic, sync.Once.

import (
	"fmt"
	"sort"
	"unsafe"
)

type vclock []uint32

func (a vclock) get(i int) uint32 {
	if i < len(a) {
		return a[i]
	}
	return 0
}

func joinInto(dst *vclock, src vclock) {
	for len(*dst) < len(src) {
		*dst = append(*dst, 0)
	}
	for i, v := range src {
		if v > (*dst)[i] {
			(*dst)[i] = v
		}
	}
}

type hbEpoch struct {
	tid   int
	clk   uint32
	site  string
	name  string // thread name
	write bool
}

type hbShadow struct {
	w     hbEpoch
	hasW  bool
	reads []hbEpoch
}

// Race is one reported data race.
type Race struct {
	Sig string
	Msg string
}

type hbState struct {
	sync  map[any]*vclock
	mem   map[unsafe.Pointer]*hbShadow
	races map[string]*Race
	nAcc  int64
}

func (s *Sched) hbInit() {
	s.hb = &hbState{sync: map[any]*vclock{}, mem: map[unsafe.Pointer]*hbShadow{}, races: map[string]*Race{}}
}

func (t *Thread) vcEnsure() {
	for len(t.vc) <= t.ID {
		t.vc = append(t.vc, 0)
	}
	if t.vc[t.ID] == 0 {
		t.vc[t.ID] = 1
	}
}

// hbFork gives a new thread its creator's clock.
func hbFork(parent, child *Thread) {
	if parent != nil {
		parent.vcEnsure()
		child.vc = append(vclock{}, parent.vc...)
		parent.vc[parent.ID]++
	}
	child.vcEnsure()
}

// HBRelease publishes the calling thread's clock on a synchronisation object (mutex unlock, channel send / close,
// WaitGroup.Done, context cancel).
func HBRelease(obj any) {
	s, t := Self()
	if t == nil || s.hb == nil || obj == nil {
		return
	}
	t.vcEnsure()
	l := s.hb.sync[obj]
	if l == nil {
		l = &vclock{}
		s.hb.sync[obj] = l
	}
	joinInto(l, t.vc)
	t.vc[t.ID]++
}

// HBAcquire imports the clock published on a synchronisation object (mutex lock, channel receive, WaitGroup.Wait,
// observation of a cancelled context).
func HBAcquire(obj any) {
	s, t := Self()
	if t == nil || s.hb == nil || obj == nil {
		return
	}
	t.vcEnsure()
	if l := s.hb.sync[obj]; l != nil {
		joinInto(&t.vc, *l)
	}
}

// R marks a read of *p by the calling thread and returns p.
func R[T any](p *T, site string) *T {
	if cur != nil {
		hbAccess(unsafe.Pointer(p), false, site)
	}
	return p
}

// W marks a write of *p by the calling thread and returns p.
func W[T any](p *T, site string) *T {
	if cur != nil {
		hbAccess(unsafe.Pointer(p), true, site)
	}
	return p
}

func hbAccess(p unsafe.Pointer, write bool, site string) {
	s, t := Self()
	if t == nil || s.hb == nil || p == nil {
		return
	}
	h := s.hb
	h.nAcc++
	t.vcEnsure()
	sh := h.mem[p] // the map keeps p reachable: its memory is not reused during the execution
	if sh == nil {
		sh = &hbShadow{}
		h.mem[p] = sh
	}
	cur := hbEpoch{tid: t.ID, clk: t.vc[t.ID], site: site, name: t.Name, write: write}
	ordered := func(e hbEpoch) bool { return e.tid == t.ID || e.clk <= t.vc.get(e.tid) }
	if sh.hasW && !ordered(sh.w) {
		h.report(sh.w, cur)
	}
	if write {
		for _, r := range sh.reads {
			if !ordered(r) {
				h.report(r, cur)
			}
		}
		sh.w, sh.hasW = cur, true
		sh.reads = sh.reads[:0]
		return
	}
	for i := range sh.reads {
		if sh.reads[i].tid == t.ID {
			sh.reads[i] = cur
			return
		}
	}
	sh.reads = append(sh.reads, cur)
}

func kindOf(e hbEpoch) string {
	if e.write {
		return "write"
	}
	return "read"
}

// siteFunc strips the position from a site label "func field file:line".
func siteFunc(site string) string {
	for i := 0; i < len(site); i++ {
		if site[i] == ' ' {
			return site[:i]
		}
	}
	return site
}

func siteField(site string) string {
	f := ""
	n := 0
	start := 0
	for i := 0; i <= len(site); i++ {
		if i == len(site) || site[i] == ' ' {
			if n == 1 {
				f = site[start:i]
			}
			n++
			start = i + 1
		}
	}
	return f
}

func (h *hbState) report(a, b hbEpoch) {
	// stable signature: field + the two functions with their access kinds, in sorted order
	pa := kindOf(a) + " in " + siteFunc(a.site)
	pb := kindOf(b) + " in " + siteFunc(b.site)
	if pb < pa {
		pa, pb = pb, pa
	}
	sig := "data-race " + siteField(b.site) + ": " + pa + " vs " + pb
	if _, ok := h.races[sig]; ok {
		return
	}
	h.races[sig] = &Race{Sig: sig, Msg: fmt.Sprintf("unsynchronised conflicting accesses (no happens-before path between them in this execution):\n  %s by thread %s at %s\n  %s by thread %s at %s",
		kindOf(a), a.name, a.site, kindOf(b), b.name, b.site)}
}

// Races returns the data races found in the execution, sorted by signature.
func (s *Sched) Races() []Race {
	if s.hb == nil {
		return nil
	}
	var out []Race
	for _, r := range s.hb.races {
		out = append(out, *r)
	}
	sort.Slice(out, func(i, j int) bool { return out[i].Sig < out[j].Sig })
	return out
}

// HBAccesses returns the number of monitored accesses of the execution.
func (s *Sched) HBAccesses() int64 {
	if s.hb == nil {
		return 0
	}
	return s.hb.nAcc
}
