//go:build verif

// Package vsched is the controlled scheduler of the model-checking harness (engine E2).
//
// Exactly one registered thread runs between two scheduling points; the root goroutine of a
// testing/synctest bubble is the scheduler. Instrumented library code (see engine/instr) calls
// Yield / Pre / Post / Choice / Go / WithCancel; package vsync replaces "sync".
//
// When no scheduler is active (free mode: the -race pass, or code running outside Run) every
// hook is a no-op and vsync falls back to the real sync primitives.
package vsched

import (
	"context"
	"fmt"
	"os"
	"runtime"
	"sort"
	"strings"
	"sync"
	"testing"
	"testing/synctest"
	"time"
)

const (
	stRunning = iota // running, or natively blocked inside an un-instrumented operation (engine error if durably so)
	stParked         // waiting at a scheduling point for the scheduler
	stNative         // inside an instrumented channel operation / select / sleep (may be natively blocked)
	stDone
)

// Thread is one registered goroutine of an execution.
type Thread struct {
	ID         int
	Name       string
	gid        uint64
	resume     chan struct{}
	state      int
	site       uintptr     // pc of the point where parked / blocked
	siteS      string      // explicit site label (rewriter)
	ready      func() bool // non-nil: enabled only when it returns true (vsync waits)
	waitFor    string      // description of what it waits for
	blocked    bool        // set by the scheduler when it has observed the thread natively blocked
	atomic     int         // >0: scheduling points suppressed
	vc         vclock      // happens-before clock (hb.go)
	Panic      any
	PanicStack string
}

// Decision is one recorded scheduler decision.
type Decision struct {
	Kind   byte   // 't' thread choice, 's' select preference
	N      int    // number of alternatives
	Chosen int    // index taken
	Cost   []int  // deviation cost of each alternative (Cost[0] == 0)
	Site   string // label for the divergence check
	Moot   bool   // alternatives proven equivalent to the chosen one
}

// Trace is the result of one execution.
type Trace struct {
	Decisions []Decision
	Deadlock  string   // non-empty: no enabled thread while some were not finished
	Livelock  string   // non-empty: one thread spins at one place until the step budget is used up
	Stuck     []string // threads not finished at the end (name @ site)
	Panics    []string
	EngineErr string
	Steps     int
	VirtualNS int64
	Aborted   bool
	Races     []Race // data races found by the happens-before monitor (hb.go)
	Accesses  int64  // monitored field accesses
}

// Choices returns the chosen indices.
func (t *Trace) Choices() []int {
	out := make([]int, len(t.Decisions))
	for i, d := range t.Decisions {
		out[i] = d.Chosen
	}
	return out
}

// Sched is the scheduler of one execution.
type Sched struct {
	mu       sync.Mutex
	threads  []*Thread
	byGid    map[uint64]*Thread
	wake     chan struct{}
	running  *Thread
	prefix   []int
	expect   []Decision // decisions of the parent execution for the divergence check (may be shorter than prefix)
	trace    Trace
	aborted  bool
	solo     bool // the root goroutine is running harness code (setup / finish); no thread is running
	maxSteps int
	// livelock diagnosis: the thread / place of the last steps and how many of them in a row
	spinThread *Thread
	spinSite   string
	spinCount  int
	delay      bool // delay-bounded cost model
	rotate     bool // canonical schedule: round robin (the next thread after the one that ran last) instead of "keep running"
	reverse    bool // canonical schedule: keep running, then the highest thread id first
	start      time.Time
	// OnQuiescent, if set, is called by the scheduler (root goroutine, no thread running) each time no
	// thread is enabled and before declaring deadlock / letting time pass; it may spawn threads or
	// perform solo operations. It returns true if it changed something (the scheduler re-evaluates).
	OnQuiescent func() bool
	// lock registry for leak / deadlock reporting
	Locks []LockInfo
	hb    *hbState
}

// LockInfo lets vsync objects report their state at the end of an execution.
type LockInfo interface {
	Describe() string // "" when free
}

var cur *Sched // the active scheduler (one execution at a time per process)

// Active reports whether a scheduler is controlling the current execution.
func Active() bool { return cur != nil && !cur.aborted }

func getGID() uint64 {
	var buf [40]byte
	n := runtime.Stack(buf[:], false)
	// "goroutine 123 ["
	var id uint64
	for i := 10; i < n; i++ {
		c := buf[i]
		if c < '0' || c > '9' {
			break
		}
		id = id*10 + uint64(c-'0')
	}
	return id
}

// Self returns the current scheduler and the calling thread (nil, nil in free mode; s, nil for the root).
//
// Exactly one registered thread runs between two scheduling points, so the calling thread is the one the scheduler
// resumed last; the only code that runs concurrently with it is the glue between a natively blocked channel
// operation completing and its Post hook, which carries its thread as a token instead of calling Self.
// With VERIF_CHECKGID=1 the assumption is verified on every call through the goroutine id.
func Self() (*Sched, *Thread) {
	s := cur
	if s == nil || s.aborted {
		return nil, nil
	}
	if s.solo {
		return s, nil
	}
	t := s.running
	if checkGID && t != nil {
		if g := getGID(); g != t.gid {
			panic(fmt.Sprintf("vsched: hook called by goroutine %d while thread %s (goroutine %d) is the running thread", g, t.Name, t.gid))
		}
	}
	return s, t
}

var checkGID = os.Getenv("VERIF_CHECKGID") != ""

func (s *Sched) notify() {
	select {
	case s.wake <- struct{}{}:
	default:
	}
}

func (t *Thread) park(s *Sched, pc uintptr, label string) {
	if t.atomic > 0 {
		return
	}
	if s.aborted {
		runtime.Goexit()
	}
	t.site = pc
	t.siteS = label
	t.state = stParked
	s.notify()
	<-t.resume
	if s.aborted {
		runtime.Goexit()
	}
}

func callerPC(skip int) uintptr {
	var pcs [1]uintptr
	runtime.Callers(skip+1, pcs[:])
	return pcs[0]
}

// Yield is a plain scheduling point.
func Yield(site string) {
	s, t := Self()
	if t == nil {
		return
	}
	t.park(s, callerPC(2), site)
}

// ParkUntil is a scheduling point at which the thread is enabled only when ready() holds (used by vsync).
func ParkUntil(ready func() bool, what string) {
	s, t := Self()
	if t == nil {
		if s != nil && !ready() {
			panic("vsched: solo (root) code would block on " + what)
		}
		return
	}
	if t.atomic > 0 {
		if !ready() {
			panic("vsched: blocking on " + what + " inside an atomic section")
		}
		return
	}
	t.ready = ready
	t.waitFor = what
	t.park(s, callerPC(3), what)
	t.ready = nil
	t.waitFor = ""
}

// Pre is placed before an instrumented channel operation / sleep: scheduling point, then the thread may block natively.
// It returns the thread as a token for Post.
func Pre(site string) *Thread {
	s, t := Self()
	if t == nil {
		return nil
	}
	t.park(s, callerPC(2), site) // no-op inside an atomic section
	t.state = stNative
	t.siteS = site
	return t
}

// Enter marks the thread as possibly natively blocked without a scheduling point (used inside rewritten selects).
func Enter(site string) *Thread {
	_, t := Self()
	if t == nil {
		return t
	}
	t.state = stNative
	t.siteS = site
	return t
}

// Post is placed after an instrumented channel operation: if the thread had been natively blocked (and was woken by
// another thread's operation or by the clock) it parks, so that still only one thread runs.
func Post(t *Thread, site string) {
	s := cur
	if t == nil || s == nil || s.aborted {
		return
	}
	if t.blocked {
		// woken by another thread's operation (or by the clock): must wait for its turn, even inside an atomic section
		t.blocked = false
		a := t.atomic
		t.atomic = 0
		t.park(s, callerPC(2), "after "+site)
		t.atomic = a
		return
	}
	t.state = stRunning
}

// Closed is a non-destructive probe of a close-only channel (ctx.Done()).
func Closed(ch <-chan struct{}) bool {
	select {
	case <-ch:
		return true
	default:
		return false
	}
}

// AtomicBegin / AtomicEnd suppress scheduling points (used for map-range loops whose iteration order is random).
func AtomicBegin() {
	_, t := Self()
	if t != nil {
		t.atomic++
	}
}

func AtomicEnd() {
	_, t := Self()
	if t != nil {
		t.atomic--
	}
}

// Choice is an explicit nondeterministic choice among n alternatives (select preference, environment answers).
// Alternative 0 is the default; any other costs one deviation.
func Choice(site string, n int) int {
	s, t := Self()
	if s == nil || n <= 1 {
		return 0
	}
	if t != nil && t.atomic > 0 {
		return 0
	}
	cost := make([]int, n)
	for i := 1; i < n; i++ {
		cost[i] = 1
	}
	return s.decide('s', n, cost, site)
}

// MootLast marks the most recent decision as having equivalent alternatives (they need not be explored).
func MootLast() {
	s := cur
	if s == nil || s.aborted {
		return
	}
	if n := len(s.trace.Decisions); n > 0 && s.trace.Decisions[n-1].Kind == 's' {
		s.trace.Decisions[n-1].Moot = true
	}
}

func (s *Sched) decide(kind byte, n int, cost []int, site string) int {
	i := len(s.trace.Decisions)
	ch := 0
	if i < len(s.prefix) {
		ch = s.prefix[i]
		if ch < 0 || ch >= n {
			s.trace.EngineErr = fmt.Sprintf("replay divergence at decision %d (%c %s): choice %d out of range %d", i, kind, site, ch, n)
			ch = 0
		}
		if i < len(s.expect) {
			e := s.expect[i]
			if e.Kind != kind || e.N != n || e.Site != site {
				s.trace.EngineErr = fmt.Sprintf("replay divergence at decision %d: recorded (%c,%d,%s) now (%c,%d,%s)", i, e.Kind, e.N, e.Site, kind, n, site)
			}
		}
	}
	s.trace.Decisions = append(s.trace.Decisions, Decision{Kind: kind, N: n, Chosen: ch, Cost: cost, Site: site})
	return ch
}

// Go starts f as a registered thread (plain goroutine in free mode).
func Go(f func()) { GoNamed("", f) }

// GoNamed is Go with a thread name for reports.
func GoNamed(name string, f func()) {
	s := cur
	if s == nil || s.aborted {
		if freeMode {
			goFree(f)
		} else if recordFreePanics {
			go func() {
				defer func() {
					if r := recover(); r != nil {
						buf := make([]byte, 8192)
						buf = buf[:runtime.Stack(buf, false)]
						freePanicMu.Lock()
						freePanics = append(freePanics, fmt.Sprintf("%v\n%s", r, trimStack(string(buf))))
						freePanicMu.Unlock()
					}
				}()
				f()
			}()
		} else {
			go f()
		}
		return
	}
	_, parent := Self()
	s.mu.Lock()
	t := &Thread{ID: len(s.threads), Name: name, resume: make(chan struct{}, 1), state: stRunning}
	if t.Name == "" {
		t.Name = fmt.Sprintf("T%d", t.ID)
	}
	s.threads = append(s.threads, t)
	s.mu.Unlock()
	hbFork(parent, t)
	pc := callerPC(2)
	registered := make(chan struct{})
	go func() {
		t.gid = getGID()
		close(registered)
		defer func() {
			if r := recover(); r != nil {
				t.Panic = r
				buf := make([]byte, 16384)
				buf = buf[:runtime.Stack(buf, false)]
				t.PanicStack = string(buf)
			}
			t.state = stDone
			s.notify()
		}()
		t.park(s, pc, "start")
		f()
	}()
	<-registered
}

// WithCancel is context.WithCancel whose cancel function is a scheduling point.
func WithCancel(parent context.Context) (context.Context, context.CancelFunc) {
	ctx, cancel := context.WithCancel(parent)
	return ctx, func() {
		Yield("cancel")
		HBRelease(ctx.Done())
		cancel()
		// functions registered with AfterFunc run in threads of their own, started by the cancelling thread
		afterMu.Lock()
		fs := afterFuncs[ctx]
		delete(afterFuncs, ctx)
		afterMu.Unlock()
		for _, af := range fs {
			if !af.stopped && !af.started {
				af.started = true
				f := af.f
				GoNamed("afterfunc", func() {
					HBAcquire(ctx.Done())
					f()
				})
			}
		}
	}
}

type afterFunc struct {
	f                func()
	stopped, started bool
}

var (
	afterMu    sync.Mutex
	afterFuncs = map[context.Context][]*afterFunc{}
)

// AfterFunc is context.AfterFunc under the scheduler: f runs in a new thread once ctx is cancelled. Supported for
// contexts obtained from (the rewritten) context.WithCancel directly; for any other context the real function is used
// (its goroutine is not under the scheduler's control).
func AfterFunc(ctx context.Context, f func()) (stop func() bool) {
	if cur == nil {
		return context.AfterFunc(ctx, f)
	}
	if ctx.Err() != nil {
		af := &afterFunc{f: f, started: true}
		GoNamed("afterfunc", f)
		return func() bool { return false && af.started }
	}
	af := &afterFunc{f: f}
	afterMu.Lock()
	afterFuncs[ctx] = append(afterFuncs[ctx], af)
	afterMu.Unlock()
	return func() bool {
		afterMu.Lock()
		defer afterMu.Unlock()
		if af.started || af.stopped {
			return false
		}
		af.stopped = true
		return true
	}
}

// Sleep is time.Sleep under the scheduler.
func Sleep(d time.Duration) {
	t := Pre("sleep")
	time.Sleep(d)
	Post(t, "sleep")
}

func pcString(pc uintptr) string {
	if pc == 0 {
		return "?"
	}
	fs := runtime.CallersFrames([]uintptr{pc})
	f, _ := fs.Next()
	file := f.File
	if i := strings.LastIndexByte(file, '/'); i >= 0 {
		file = file[i+1:]
	}
	fn := f.Function
	if i := strings.LastIndexByte(fn, '/'); i >= 0 {
		fn = fn[i+1:]
	}
	return fmt.Sprintf("%s:%d(%s)", file, f.Line, fn)
}

func (t *Thread) where() string {
	w := pcString(t.site)
	if t.siteS != "" {
		w = t.siteS + " @ " + w
	}
	return w
}

// Options configure one execution.
type Options struct {
	Prefix   []int
	Expect   []Decision
	MaxSteps int
	Delay    bool          // delay-bounded cost model: every non-default thread choice costs 1
	Rotate   bool          // round-robin canonical schedule
	Reverse  bool          // "keep running, then descending ids" canonical schedule
	Horizon  time.Duration // virtual-time horizon (default 1h)
}

// Run executes setup (which spawns threads with Go/GoNamed) and schedules the threads to completion inside a
// synctest bubble, following opts.Prefix and then default choices. finish, if non-nil, runs on the root after
// the scheduling loop has ended (solo mode) and before the bubble is torn down.
func Run(t *testing.T, opts Options, setup func(s *Sched), finish func(s *Sched, tr *Trace)) (tr *Trace) {
	s := &Sched{byGid: map[uint64]*Thread{}, prefix: opts.Prefix, expect: opts.Expect,
		maxSteps: opts.MaxSteps, delay: opts.Delay, rotate: opts.Rotate, reverse: opts.Reverse}
	if s.maxSteps == 0 {
		s.maxSteps = 200000
	}
	horizon := opts.Horizon
	if horizon == 0 {
		horizon = time.Hour
	}
	defer func() {
		cur = nil
		if r := recover(); r != nil {
			msg := fmt.Sprint(r)
			if strings.Contains(msg, "blocked goroutines remain") || strings.Contains(msg, "deadlock") {
				// a deadlocked execution was abandoned: natively blocked goroutines are leaked
				s.trace.Aborted = true
				tr = &s.trace
				return
			}
			panic(r)
		}
	}()
	synctest.Test(t, func(t *testing.T) {
		s.wake = make(chan struct{}, 1) // must be created inside the bubble (blocking on it has to be durable)
		s.hbInit()
		cur = s
		s.start = time.Now()
		s.solo = true
		setup(s)
		s.solo = false
		s.loop(horizon)
		s.solo = true
		s.running = nil
		s.collectPanics()
		s.trace.Races = s.Races()
		s.trace.Accesses = s.HBAccesses()
		if finish != nil {
			finish(s, &s.trace)
		}
		s.trace.VirtualNS = int64(time.Since(s.start))
		s.teardown()
	})
	return &s.trace
}

func (s *Sched) loop(horizon time.Duration) {
	for {
		synctest.Wait()
		if s.trace.EngineErr != "" {
			return
		}
		s.trace.Steps++
		if s.trace.Steps > s.maxSteps {
			if s.spinCount > s.maxSteps/2 && s.spinThread != nil {
				// one thread has been the only one able to make steps for more than half of the budget and never blocked: it
				// spins (a wait loop that never blocks), which is a verdict about the code, not about the harness
				s.trace.Livelock = fmt.Sprintf("thread %s spins (last seen at %s): %d consecutive steps without blocking while every other thread is blocked or finished", s.spinThread.Name, s.spinSite, s.spinCount)
				for _, t := range s.threads {
					if t.state != stDone {
						s.trace.Stuck = append(s.trace.Stuck, t.Name+" @ "+t.where())
					}
				}
				return
			}
			s.trace.EngineErr = fmt.Sprintf("step budget %d exceeded (livelock or unbounded execution)", s.maxSteps)
			return
		}
		var enabled []*Thread
		allDone := true
		anyNative := false
		s.mu.Lock()
		threads := append([]*Thread(nil), s.threads...)
		s.mu.Unlock()
		for _, t := range threads {
			switch t.state {
			case stDone:
				continue
			case stParked:
				allDone = false
				if t.ready == nil || t.ready() {
					enabled = append(enabled, t)
				}
			case stNative:
				allDone = false
				anyNative = true
				t.blocked = true
			case stRunning:
				allDone = false
				// durably blocked outside any instrumented operation
				buf := make([]byte, 1<<16)
				buf = buf[:runtime.Stack(buf, true)]
				s.trace.EngineErr = fmt.Sprintf("thread %s is blocked at an un-instrumented operation (last point %s)\n%s", t.Name, t.where(), firstStackOf(string(buf), t.gid))
				return
			}
		}
		if allDone {
			if s.quiescent() {
				continue
			}
			return
		}
		if len(enabled) == 0 {
			if s.quiescent() {
				continue
			}
			if anyNative {
				// let virtual time pass: the clock advances to the earliest timer of a blocked thread
				select {
				case <-s.wake:
				default:
				}
				select {
				case <-s.wake:
					continue
				case <-time.After(horizon):
				}
			}
			s.trace.Deadlock = s.describeStuck(threads)
			for _, t := range threads {
				if t.state != stDone {
					s.trace.Stuck = append(s.trace.Stuck, t.Name+" @ "+t.where())
				}
			}
			return
		}
		if s.rotate {
			// canonical order: round robin, starting after the thread that ran last
			last := -1
			if s.running != nil {
				last = s.running.ID
			}
			n := len(threads) + 1
			key := func(t *Thread) int { return (t.ID - last - 1 + n) % n }
			sort.SliceStable(enabled, func(a, b int) bool { return key(enabled[a]) < key(enabled[b]) })
		} else {
			// canonical order: the running thread first if still enabled, then ascending ids
			sort.SliceStable(enabled, func(a, b int) bool {
				ra, rb := enabled[a] == s.running, enabled[b] == s.running
				if ra != rb {
					return ra
				}
				if s.reverse {
					return enabled[a].ID > enabled[b].ID
				}
				return enabled[a].ID < enabled[b].ID
			})
		}
		ch := 0
		if len(enabled) > 1 {
			cost := make([]int, len(enabled))
			if enabled[0] == s.running || s.delay || s.rotate {
				for i := 1; i < len(cost); i++ {
					cost[i] = 1
				}
			}
			site := enabled[0].Name
			ch = s.decide('t', len(enabled), cost, site)
		}
		t := enabled[ch]
		if t == s.spinThread && len(enabled) == 1 {
			s.spinCount++
			s.spinSite = t.where()
		} else {
			s.spinThread, s.spinSite, s.spinCount = t, t.where(), 1
		}
		s.running = t
		t.state = stRunning
		t.resume <- struct{}{}
	}
}

func (s *Sched) quiescent() bool {
	if s.OnQuiescent == nil {
		return false
	}
	s.solo = true
	defer func() { s.solo = false }()
	return s.OnQuiescent()
}

func firstStackOf(all string, gid uint64) string {
	key := fmt.Sprintf("goroutine %d [", gid)
	i := strings.Index(all, key)
	if i < 0 {
		return ""
	}
	rest := all[i:]
	if j := strings.Index(rest, "\n\n"); j >= 0 {
		rest = rest[:j]
	}
	if len(rest) > 3000 {
		rest = rest[:3000]
	}
	return rest
}

func (s *Sched) describeStuck(threads []*Thread) string {
	var b strings.Builder
	for _, t := range threads {
		if t.state == stDone {
			continue
		}
		switch t.state {
		case stParked:
			fmt.Fprintf(&b, "%s waits for %s at %s; ", t.Name, t.waitFor, pcString(t.site))
		case stNative:
			fmt.Fprintf(&b, "%s blocked in %s; ", t.Name, t.where())
		}
	}
	for _, l := range s.Locks {
		if d := l.Describe(); d != "" {
			fmt.Fprintf(&b, "[%s] ", d)
		}
	}
	return b.String()
}

// Threads returns the registered threads.
func (s *Sched) Threads() []*Thread {
	s.mu.Lock()
	defer s.mu.Unlock()
	return append([]*Thread(nil), s.threads...)
}

// Done reports whether the thread has finished.
func (t *Thread) Done() bool { return t.state == stDone }

// Where describes where an unfinished thread is.
func (t *Thread) Where() string { return t.where() }

// WaitingFor returns what a parked thread waits for ("" if it is simply enabled).
func (t *Thread) WaitingFor() string { return t.waitFor }

// collectPanics records the panics recovered in the threads (before the harness evaluates its oracle).
func (s *Sched) collectPanics() {
	s.trace.Panics = nil
	for _, t := range s.Threads() {
		if t.Panic != nil {
			s.trace.Panics = append(s.trace.Panics, fmt.Sprintf("%s: %v\n%s", t.Name, t.Panic, trimStack(t.PanicStack)))
		}
	}
}

func (s *Sched) teardown() {
	// release every parked thread with Goexit so that nothing is leaked
	s.aborted = true
	for _, t := range s.Threads() {
		if t.state == stParked {
			t.resume <- struct{}{}
		}
	}
}

func trimStack(st string) string {
	lines := strings.Split(st, "\n")
	var out []string
	for _, l := range lines {
		if strings.Contains(l, "zzverif/vsched") || strings.Contains(l, "runtime/panic.go") || strings.Contains(l, "runtime/debug") {
			continue
		}
		out = append(out, l)
		if len(out) > 24 {
			break
		}
	}
	return strings.Join(out, "\n")
}

// RegisterLock lets a vsync object be listed in deadlock / leak reports.
func RegisterLock(l LockInfo) {
	s := cur
	if s == nil || s.aborted {
		return
	}
	s.mu.Lock()
	s.Locks = append(s.Locks, l)
	s.mu.Unlock()
}

// HeldLocks describes every registered lock that is still held.
func (s *Sched) HeldLocks() []string {
	var out []string
	for _, l := range s.Locks {
		if d := l.Describe(); d != "" {
			out = append(out, d)
		}
	}
	return out
}

// CurrentName returns the name of the calling thread ("root" outside any thread).
func CurrentName() string {
	_, t := Self()
	if t == nil {
		return "root"
	}
	return t.Name
}

// ---- free mode (race pass): plain goroutines, real time ----

var freeWG *sync.WaitGroup

// GoFree starts f as a plain goroutine tracked by RunFree.
func goFree(f func()) {
	wg := freeWG
	wg.Add(1)
	go func() {
		defer wg.Done()
		f()
	}()
}

// RunFree runs setup (which spawns goroutines through Go/GoNamed) without any scheduler and waits for them
// (up to timeout); it returns false if they did not finish in time.
func RunFree(timeout time.Duration, setup func(), finish func(finished bool)) bool {
	freeMode = true
	defer func() { freeMode = false }()
	wg := &sync.WaitGroup{}
	freeWG = wg
	setup()
	done := make(chan struct{})
	go func() { wg.Wait(); close(done) }()
	ok := false
	select {
	case <-done:
		ok = true
	case <-time.After(timeout):
	}
	if finish != nil {
		finish(ok)
	}
	return ok
}

var freeMode bool

// SelectPref decides which communication of a rewritten select gets first priority. possible[i] is false for
// cases known not to be ready (an un-closed Done channel). It returns the index of the first-priority case and
// whether the alternatives may be declared moot when the first-priority case turns out not to be ready.
func SelectPref(site string, possible []bool) (int, bool) {
	var idx []int
	for i, p := range possible {
		if p {
			idx = append(idx, i)
		}
	}
	switch len(idx) {
	case 0:
		return 0, false
	case 1:
		return idx[0], false
	}
	s, t := Self()
	if s == nil || (t != nil && t.atomic > 0) {
		return idx[0], false
	}
	before := len(s.trace.Decisions)
	c := Choice(site, len(idx))
	return idx[c], len(idx) == 2 && len(s.trace.Decisions) > before
}

// ---- panic recording for goroutines started by instrumented code outside a controlled execution ----

var (
	recordFreePanics bool
	freePanicMu      sync.Mutex
	freePanics       []string
)

// RecordFreePanics makes goroutines started through Go (outside a controlled execution) recover and record panics
// instead of crashing the process; TakeFreePanics returns and clears what was recorded.
func RecordFreePanics(on bool) { recordFreePanics = on }

func TakeFreePanics() []string {
	freePanicMu.Lock()
	defer freePanicMu.Unlock()
	p := freePanics
	freePanics = nil
	return p
}
