//go:build verif

// Package vsync replaces "sync" in instrumented copies of the library: fully cooperative Mutex, RWMutex,
// Cond and WaitGroup that turn every acquire / release / wait into a scheduling point of vsched and know
// their owners and waiters (so that deadlocks and leaked locks can be reported). Outside a controlled
// execution they fall back to the real primitives.
package vsync

import (
	"fmt"
	"runtime"
	"sync"
	"sync/atomic"

	"github.com/bluenviron/gohlslib/v2/internal/zzverif/vsched"
)

type (
	Once   = sync.Once
	Map    = sync.Map
	Pool   = sync.Pool
	Locker = sync.Locker
)

// Mutex is a cooperative sync.Mutex.
type Mutex struct {
	real      sync.Mutex
	locked    bool
	owner     string
	reg       bool
	realOwner atomic.Int64 // outside controlled executions: id of the goroutine that holds real (0: nobody)
}

// gid returns the id of the calling goroutine (parsed from the header line of its stack trace).
func gid() int64 {
	var buf [64]byte
	b := buf[:runtime.Stack(buf[:], false)]
	// "goroutine 123 [running]:"
	var id int64
	for _, c := range b[len("goroutine "):] {
		if c < '0' || c > '9' {
			break
		}
		id = id*10 + int64(c-'0')
	}
	return id
}

func (m *Mutex) Describe() string {
	if m.locked {
		return fmt.Sprintf("mutex %p held by %s", m, m.owner)
	}
	return ""
}

// Held reports whether the mutex is held (controlled executions only).
func (m *Mutex) Held() bool { return m.locked }

func (m *Mutex) Lock() {
	if !vsched.Active() {
		if m.reg { // used under the scheduler: this is teardown (Goexit running deferred calls)
			return
		}
		if !m.real.TryLock() {
			// sequential harnesses run outside the scheduler, where nothing detects a deadlock: a goroutine that locks a
			// mutex it already holds would hang the worker for ever. That one case is certain and is reported as what it is.
			if g := gid(); g != 0 && m.realOwner.Load() == g {
				panic("verif: self-deadlock: this goroutine locks a sync.Mutex that it already holds (the call would block forever)")
			}
			m.real.Lock()
		}
		m.realOwner.Store(gid())
		return
	}
	if !m.reg {
		m.reg = true
		vsched.RegisterLock(m)
	}
	vsched.ParkUntil(func() bool { return !m.locked }, fmt.Sprintf("mutex %p (held by %s)", m, m.owner))
	m.locked = true
	m.owner = vsched.CurrentName()
	vsched.HBAcquire(m)
}

func (m *Mutex) TryLock() bool {
	if !vsched.Active() {
		if m.reg {
			return true
		}
		if m.real.TryLock() {
			m.realOwner.Store(gid())
			return true
		}
		return false
	}
	vsched.Yield("TryLock")
	if m.locked {
		return false
	}
	m.locked = true
	m.owner = vsched.CurrentName()
	vsched.HBAcquire(m)
	return true
}

func (m *Mutex) unlockNoYield() {
	if !m.locked {
		panic("sync: unlock of unlocked mutex")
	}
	vsched.HBRelease(m)
	m.locked = false
	m.owner = ""
}

func (m *Mutex) Unlock() {
	if !vsched.Active() {
		if m.reg { // used under the scheduler: this is teardown (Goexit running deferred calls)
			m.locked = false
			return
		}
		m.realOwner.Store(0)
		m.real.Unlock()
		return
	}
	if !m.reg {
		m.reg = true
		vsched.RegisterLock(m)
	}
	m.unlockNoYield()
	vsched.Yield("Unlock")
}

// RWMutex is a cooperative sync.RWMutex (no writer preference).
type RWMutex struct {
	real    sync.RWMutex
	writer  bool
	readers int
	owner   string
	reg     bool
}

func (m *RWMutex) Describe() string {
	if m.writer {
		return fmt.Sprintf("rwmutex %p write-held by %s", m, m.owner)
	}
	if m.readers > 0 {
		return fmt.Sprintf("rwmutex %p read-held by %d reader(s), last %s", m, m.readers, m.owner)
	}
	return ""
}

func (m *RWMutex) register() {
	if !m.reg {
		m.reg = true
		vsched.RegisterLock(m)
	}
}

func (m *RWMutex) Lock() {
	if !vsched.Active() {
		if m.reg {
			return
		}
		m.real.Lock()
		return
	}
	m.register()
	vsched.ParkUntil(func() bool { return !m.writer && m.readers == 0 }, fmt.Sprintf("rwmutex %p (write)", m))
	m.writer = true
	m.owner = vsched.CurrentName()
	vsched.HBAcquire(m)
	vsched.HBAcquire(&m.readers)
}

func (m *RWMutex) Unlock() {
	if !vsched.Active() {
		if m.reg {
			m.writer = false
			return
		}
		m.real.Unlock()
		return
	}
	if !m.writer {
		panic("sync: Unlock of unlocked RWMutex")
	}
	vsched.HBRelease(m)
	m.writer = false
	m.owner = ""
	vsched.Yield("Unlock")
}

func (m *RWMutex) RLock() {
	if !vsched.Active() {
		if m.reg {
			return
		}
		m.real.RLock()
		return
	}
	m.register()
	vsched.ParkUntil(func() bool { return !m.writer }, fmt.Sprintf("rwmutex %p (read, write-held by %s)", m, m.owner))
	m.readers++
	m.owner = vsched.CurrentName()
	vsched.HBAcquire(m)
}

func (m *RWMutex) RUnlock() {
	if !vsched.Active() {
		if m.reg {
			if m.readers > 0 {
				m.readers--
			}
			return
		}
		m.real.RUnlock()
		return
	}
	if m.readers <= 0 {
		panic("sync: RUnlock of unlocked RWMutex")
	}
	vsched.HBRelease(&m.readers)
	m.readers--
	vsched.Yield("RUnlock")
}

func (m *RWMutex) RLocker() Locker { return (*rlocker)(m) }

type rlocker RWMutex

func (r *rlocker) Lock()   { (*RWMutex)(r).RLock() }
func (r *rlocker) Unlock() { (*RWMutex)(r).RUnlock() }

// Cond is a cooperative sync.Cond.
type Cond struct {
	L       Locker
	real    *sync.Cond
	coop    bool
	waiters []*waiter
	inWait  []*waiter // threads inside Wait: parked, or signalled and not yet back from re-acquiring L
}

type waiter struct {
	signaled bool
	name     string
}

func NewCond(l Locker) *Cond {
	return &Cond{L: l}
}

func (c *Cond) realCond() *sync.Cond {
	if c.real == nil {
		c.real = sync.NewCond(c.L)
	}
	return c.real
}

// InWait returns the names of the threads that are inside Wait (controlled executions only): those still waiting for
// a signal and those already signalled that have not yet returned from Wait.
func (c *Cond) InWait() []string {
	var out []string
	for _, w := range c.inWait {
		out = append(out, w.name)
	}
	return out
}

// Waiters returns the names of the threads currently waiting (controlled executions only).
func (c *Cond) Waiters() []string {
	var out []string
	for _, w := range c.waiters {
		out = append(out, w.name)
	}
	return out
}

func (c *Cond) Wait() {
	if !vsched.Active() {
		if c.coop {
			return
		}
		c.realCond().Wait()
		return
	}
	c.coop = true
	w := &waiter{name: vsched.CurrentName()}
	c.waiters = append(c.waiters, w)
	c.inWait = append(c.inWait, w)
	defer func() {
		for i, x := range c.inWait {
			if x == w {
				c.inWait = append(c.inWait[:i:i], c.inWait[i+1:]...)
				break
			}
		}
	}()
	switch l := c.L.(type) {
	case *Mutex:
		l.unlockNoYield()
	default:
		c.L.Unlock()
	}
	vsched.ParkUntil(func() bool { return w.signaled }, fmt.Sprintf("cond %p", c))
	c.L.Lock()
}

func (c *Cond) Broadcast() {
	if !vsched.Active() {
		if c.real != nil {
			c.real.Broadcast()
		}
		return
	}
	vsched.Yield("Broadcast")
	for _, w := range c.waiters {
		w.signaled = true
	}
	c.waiters = nil
}

func (c *Cond) Signal() {
	if !vsched.Active() {
		if c.real != nil {
			c.real.Signal()
		}
		return
	}
	vsched.Yield("Signal")
	if len(c.waiters) > 0 {
		c.waiters[0].signaled = true
		c.waiters = c.waiters[1:]
	}
}

// WaitGroup is a cooperative sync.WaitGroup.
type WaitGroup struct {
	real sync.WaitGroup
	n    int
	used bool
}

func (wg *WaitGroup) Add(delta int) {
	if !vsched.Active() && !wg.used {
		wg.real.Add(delta)
		return
	}
	wg.used = true
	wg.n += delta
	if wg.n < 0 {
		panic("sync: negative WaitGroup counter")
	}
	if delta < 0 {
		vsched.HBRelease(wg)
		vsched.Yield("WaitGroup.Done")
	}
}

func (wg *WaitGroup) Done() { wg.Add(-1) }

func (wg *WaitGroup) Wait() {
	if !vsched.Active() {
		if wg.used {
			return
		}
		wg.real.Wait()
		return
	}
	vsched.ParkUntil(func() bool { return wg.n == 0 }, fmt.Sprintf("waitgroup %p (counter %d)", wg, wg.n))
	vsched.HBAcquire(wg)
}

func (wg *WaitGroup) Go(f func()) {
	wg.Add(1)
	vsched.Go(func() {
		defer wg.Done()
		f()
	})
}
