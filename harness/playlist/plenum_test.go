//go:build verif

package playlist

// Engine E3 "plenum": exhaustive enumeration of playlist values (field-presence lattices x boundary values) and of
// syntactic variants / edit mutations of texts. C14: round trip; C15: decoder totality and encoder grammar.

import (
	"encoding/json"
	"fmt"
	"os"
	"path/filepath"
	"reflect"
	"regexp"
	"sort"
	"strconv"
	"strings"
	"testing"
	"time"

	"github.com/bluenviron/gohlslib/v2/internal/zzverif/m3u"
	"github.com/bluenviron/gohlslib/v2/internal/zzverif/vh"
)

func TestVerif(t *testing.T) {
	vh.Main(t, map[string]vh.Prop{
		"C14": {List: c14List, Run: c14Run},
		"C15": {List: c15List, Run: c15Run},
	})
}

// ---------- value construction ----------

func u64p(v uint64) *uint64               { return &v }
func intp(v int) *int                     { return &v }
func boolp(v bool) *bool                  { return &v }
func strp(v string) *string               { return &v }
func durp(v time.Duration) *time.Duration { return &v }
func f64p(v float64) *float64             { return &v }

var valDurations = []time.Duration{10 * time.Microsecond, time.Second, 1000010 * time.Microsecond, 3599999990 * time.Microsecond, 6006 * time.Millisecond}
var valTimes = []time.Time{
	time.Date(2024, 2, 29, 23, 59, 59, 0, time.UTC),
	time.Date(2010, 1, 1, 1, 1, 1, 1_000_000, time.FixedZone("", 5*3600+30*60)),
	time.Date(1999, 12, 31, 12, 0, 0, 999_000_000, time.FixedZone("", -8*3600)),
}
var valInts = []int{0, 1, 2147483647}

type byteRange struct{ l, s *uint64 }

var valRanges = []byteRange{{nil, nil}, {u64p(100), nil}, {u64p(18446744073709551615), u64p(0)}, {u64p(1), u64p(4294967296)}}

// valKey: nil, NONE, a base key, and keys that differ from the base key in exactly one field.
func valKey(i int) *MediaKey {
	base := MediaKey{Method: MediaKeyMethodAES128, URI: "https://k/1", IV: "0x00000000000000000000000000000008", KeyFormat: "identity", KeyFormatVersions: "1/2"}
	switch i % 9 {
	case 0:
		return nil
	case 1:
		return &MediaKey{Method: MediaKeyMethodNone}
	case 2:
		return &base
	case 3:
		k := base
		k.IV = "0x00000000000000000000000000000009"
		return &k
	case 4:
		k := base
		k.URI = "https://k/2"
		return &k
	case 5:
		k := base
		k.KeyFormat = "com.apple.streamingkeydelivery"
		return &k
	case 6:
		k := base
		k.KeyFormatVersions = "1"
		return &k
	case 7:
		k := base
		k.Method = MediaKeyMethodSampleAES
		return &k
	}
	return &MediaKey{Method: MediaKeyMethodAES128, URI: "https://k/1"}
}

// mediaF1 builds a Media value from a presence mask over the optional top-level fields and a value-set index.
func mediaF1(mask int, vs int) *Media {
	d := valDurations[vs%len(valDurations)]
	m := &Media{Version: 3 + vs%8, TargetDuration: 1 + valInts[vs%3]%1000, MediaSequence: valInts[(vs+1)%3]}
	bit := func(i int) bool { return mask&(1<<i) != 0 }
	if bit(0) {
		m.IndependentSegments = true
	}
	if bit(1) {
		off := d
		if vs%2 == 1 {
			off = -d
		}
		m.Start = &MediaStart{TimeOffset: off}
	}
	if bit(2) {
		m.AllowCache = boolp(vs%2 == 0)
	}
	if bit(3) {
		m.ServerControl = &MediaServerControl{CanBlockReload: true, PartHoldBack: durp(d * 3), CanSkipUntil: durp(d * 36)}
	}
	if bit(4) {
		m.PartInf = &MediaPartInf{PartTarget: d}
		if m.ServerControl == nil {
			m.ServerControl = &MediaServerControl{CanBlockReload: true, PartHoldBack: durp(d * 3)}
		}
	}
	if bit(5) {
		m.DiscontinuitySequence = intp(valInts[(vs+2)%3])
	}
	if bit(6) {
		t := MediaPlaylistType([]string{MediaPlaylistTypeVOD, MediaPlaylistTypeEvent}[vs%2])
		m.PlaylistType = &t
	}
	if bit(7) {
		r := valRanges[vs%len(valRanges)]
		m.Map = &MediaMap{URI: "init" + strconv.Itoa(vs) + ".mp4", ByteRangeLength: r.l, ByteRangeStart: r.s}
		if r.l == nil {
			m.Map.ByteRangeStart = nil
		}
	}
	if bit(8) {
		m.Skip = &MediaSkip{SkippedSegments: valInts[vs%3]}
	}
	m.Segments = []*MediaSegment{{Duration: d, URI: "seg0.ts"}, {Duration: time.Second, URI: "https://h/p/seg1.ts?x=1&y=2", Title: "t"}}
	if bit(9) {
		m.Parts = []*MediaPart{{Duration: d, URI: "part9.mp4", Independent: true}, {Duration: time.Second, URI: "part10.mp4"}}
		if m.PartInf == nil {
			m.PartInf = &MediaPartInf{PartTarget: 2 * time.Second}
			if m.ServerControl == nil {
				m.ServerControl = &MediaServerControl{CanBlockReload: true, PartHoldBack: durp(6 * time.Second)}
			} else if m.ServerControl.PartHoldBack == nil {
				m.ServerControl.PartHoldBack = durp(6 * time.Second)
			}
		}
	}
	if bit(10) {
		r := valRanges[(vs+1)%len(valRanges)]
		m.PreloadHint = &MediaPreloadHint{URI: "part11.mp4", ByteRangeLength: r.l}
		if r.s != nil {
			m.PreloadHint.ByteRangeStart = *r.s
		}
	}
	if bit(11) {
		m.Endlist = true
	}
	return m
}

// segment flag lattice
func segmentF(mask int, vs int) *MediaSegment {
	d := valDurations[vs%len(valDurations)]
	s := &MediaSegment{Duration: d, URI: "s" + strconv.Itoa(mask) + ".mp4"}
	bit := func(i int) bool { return mask&(1<<i) != 0 }
	if bit(0) {
		s.Discontinuity = true
	}
	if bit(1) {
		s.Gap = true
	}
	if bit(2) {
		t := valTimes[vs%len(valTimes)]
		s.DateTime = &t
	}
	if bit(3) {
		s.Bitrate = intp(valInts[vs%3])
	}
	if bit(4) {
		s.Title = []string{"title ", "a, b,c ", "t=\"x\" #", "täitl "}[vs%4] + strconv.Itoa(vs) // free text up to the end of the line: commas, quotes, hashes, non-ASCII
	}
	if bit(5) {
		r := valRanges[1+vs%3]
		s.ByteRangeLength, s.ByteRangeStart = r.l, r.s
	}
	if bit(6) {
		r := valRanges[(vs+1)%len(valRanges)]
		p := &MediaPart{Duration: d, URI: "p" + strconv.Itoa(mask) + ".mp4", Independent: vs%2 == 0, Gap: vs%3 == 0, ByteRangeLength: r.l, ByteRangeStart: r.s}
		if r.l == nil {
			p.ByteRangeStart = nil
		}
		s.Parts = []*MediaPart{p, {Duration: time.Second, URI: "q.mp4"}}
		if r.l != nil && r.s != nil && vs%2 == 1 {
			// a second part of the same resource whose range has no offset (it continues the first one): the offset stays
			// implicit through a round trip; then a third one with an explicit offset again
			s.Parts = []*MediaPart{p, {Duration: time.Second, URI: p.URI, ByteRangeLength: r.l}, {Duration: time.Second, URI: p.URI, ByteRangeLength: r.l, ByteRangeStart: r.s}}
		}
	}
	return s
}

func multiF1(mask int, vs int) *Multivariant {
	m := &Multivariant{Version: 3 + vs%8}
	bit := func(i int) bool { return mask&(1<<i) != 0 }
	if bit(0) {
		m.IndependentSegments = true
	}
	if bit(1) {
		off := valDurations[vs%len(valDurations)]
		if vs%2 == 0 {
			off = -off
		}
		m.Start = &MultivariantStart{TimeOffset: off}
	}
	v := &MultivariantVariant{Bandwidth: []int{1, 2, 2147483647}[vs%3], Codecs: []string{"avc1.64001f", "mp4a.40.2"}[:1+vs%2], URI: "v" + strconv.Itoa(vs) + ".m3u8"}
	if bit(2) {
		v.AverageBandwidth = intp(valInts[(vs+1)%3])
	}
	if bit(3) {
		v.Resolution = []string{"1920x1080", "1x1", "7680x4320"}[vs%3]
	}
	if bit(4) {
		v.FrameRate = f64p([]float64{30, 29.97, 23.976, 0.5}[vs%4])
	}
	need := map[string]bool{}
	if bit(5) {
		v.Video = "vid"
		need["VIDEO"] = true
	}
	if bit(6) {
		v.Audio = "aud"
		need["AUDIO"] = true
	}
	if bit(7) {
		v.Subtitles = "subs"
		need["SUBTITLES"] = true
	}
	if bit(8) {
		if vs%3 == 2 {
			v.ClosedCaptions = "NONE" // the enumerated value: no closed captions in any variant (RFC 8216 4.3.4.2)
		} else {
			v.ClosedCaptions = "cc"
			need["CLOSED-CAPTIONS"] = true
		}
	}
	m.Variants = []*MultivariantVariant{v}
	if bit(9) {
		m.Variants = append(m.Variants, &MultivariantVariant{Bandwidth: 5, Codecs: []string{"hvc1.1.6.L93.B0"}, URI: "https://h/second.m3u8?a=b"})
	}
	// renditions of every referenced group, with every attribute subset the type allows (rotating with vs)
	i := 0
	for _, typ := range []string{"AUDIO", "VIDEO", "SUBTITLES", "CLOSED-CAPTIONS"} {
		if !need[typ] {
			continue
		}
		for k := 0; k < 2; k++ {
			r := &MultivariantRendition{Type: MultivariantRenditionType(typ), Name: "n" + strconv.Itoa(k)}
			if vs%4 == 3 {
				// what a quoted-string carries verbatim: a backslash, a tab, non-ASCII letters and spaces, separators
				r.Name = []string{"Fran\u00e7ais \\ commentaire", "tab\there", "a b\u00a0c, d=e;#", "\u65e5\u672c\u8a9e\u3000\u89e3\u8aac"}[(k+i)%4]
			}
			if vs%4 == 2 {
				// white space at the ends of a quoted-string is part of the value
				r.Name = []string{"English ", " lead", "\ttabs\t", "Espa\u00f1ol\u00a0"}[(k+i)%4]
			}
			switch typ {
			case "AUDIO":
				r.GroupID = "aud"
			case "VIDEO":
				r.GroupID = "vid"
			case "SUBTITLES":
				r.GroupID = "subs"
			default:
				r.GroupID = "cc"
			}
			sub := (vs + i) % 16
			if sub&1 != 0 {
				r.Language = "en-US"
			}
			if sub&2 != 0 || k == 0 {
				r.Autoselect = true
			}
			if k == 0 && sub&4 != 0 {
				r.Default = true
			}
			if typ == "SUBTITLES" && sub&8 != 0 {
				r.Forced = true
			}
			if typ == "AUDIO" && sub&8 != 0 {
				r.Channels = strp("6")
			}
			switch typ {
			case "SUBTITLES":
				r.URI = strp("subs" + strconv.Itoa(k) + ".m3u8")
			case "CLOSED-CAPTIONS":
				r.InStreamID = strp("CC" + strconv.Itoa(k+1))
			default:
				if sub&2 != 0 {
					r.URI = strp(strings.ToLower(typ) + strconv.Itoa(k) + ".m3u8")
				}
			}
			m.Renditions = append(m.Renditions, r)
			i++
		}
	}
	return m
}

// ---------- comparison ----------

var (
	tDuration = reflect.TypeOf(time.Duration(0))
	tTime     = reflect.TypeOf(time.Time{})
)

// diff returns "" if a and b are equal field by field (durations to 10 us, times to 1 ms).
func diff(path string, a, b reflect.Value) string {
	if a.Type() != b.Type() {
		return path + ": type"
	}
	switch a.Type() {
	case tDuration:
		d := a.Int() - b.Int()
		if d < 0 {
			d = -d
		}
		if d >= int64(10*time.Microsecond) {
			return fmt.Sprintf("%s: %v != %v", path, time.Duration(a.Int()), time.Duration(b.Int()))
		}
		return ""
	case tTime:
		ta, tb := a.Interface().(time.Time), b.Interface().(time.Time)
		d := ta.Sub(tb)
		if d < 0 {
			d = -d
		}
		if d >= time.Millisecond {
			return fmt.Sprintf("%s: %v != %v", path, ta, tb)
		}
		return ""
	}
	switch a.Kind() {
	case reflect.Ptr:
		if a.IsNil() != b.IsNil() {
			return fmt.Sprintf("%s: nil=%v vs nil=%v", path, a.IsNil(), b.IsNil())
		}
		if a.IsNil() {
			return ""
		}
		return diff(path, a.Elem(), b.Elem())
	case reflect.Struct:
		for i := 0; i < a.NumField(); i++ {
			if d := diff(path+"."+a.Type().Field(i).Name, a.Field(i), b.Field(i)); d != "" {
				return d
			}
		}
		return ""
	case reflect.Slice:
		if a.Len() != b.Len() {
			return fmt.Sprintf("%s: len %d != %d", path, a.Len(), b.Len())
		}
		for i := 0; i < a.Len(); i++ {
			if d := diff(fmt.Sprintf("%s[%d]", path, i), a.Index(i), b.Index(i)); d != "" {
				return d
			}
		}
		return ""
	case reflect.Float64:
		if d := a.Float() - b.Float(); d > 0.0005 || d < -0.0005 {
			return fmt.Sprintf("%s: %v != %v", path, a.Float(), b.Float())
		}
		return ""
	default:
		if !reflect.DeepEqual(a.Interface(), b.Interface()) {
			return fmt.Sprintf("%s: %v != %v", path, a.Interface(), b.Interface())
		}
		return ""
	}
}

func valueDiff(a, b any) string { return diff("", reflect.ValueOf(a), reflect.ValueOf(b)) }

// ---------- syntactic variants of a text ----------

// permuteAttrs returns variants of one tag line with its attribute list permuted (all permutations for <= 4
// attributes, rotations + reversal + adjacent swaps otherwise).
func splitAttrs(s string) []string {
	var out []string
	cur := ""
	inq := false
	for _, c := range s {
		if c == '"' {
			inq = !inq
		}
		if c == ',' && !inq {
			out = append(out, cur)
			cur = ""
			continue
		}
		cur += string(c)
	}
	return append(out, cur)
}

func permutations(n int) [][]int {
	if n > 4 {
		var out [][]int
		for r := 1; r < n; r++ {
			p := make([]int, n)
			for i := range p {
				p[i] = (i + r) % n
			}
			out = append(out, p)
		}
		rev := make([]int, n)
		for i := range rev {
			rev[i] = n - 1 - i
		}
		out = append(out, rev)
		for i := 0; i+1 < n; i++ {
			p := make([]int, n)
			for k := range p {
				p[k] = k
			}
			p[i], p[i+1] = p[i+1], p[i]
			out = append(out, p)
		}
		return out
	}
	var out [][]int
	var rec func(cur []int, used int)
	rec = func(cur []int, used int) {
		if len(cur) == n {
			out = append(out, append([]int{}, cur...))
			return
		}
		for i := 0; i < n; i++ {
			if used&(1<<i) == 0 {
				rec(append(cur, i), used|1<<i)
			}
		}
	}
	rec(nil, 0)
	return out[1:] // without the identity
}

var attrTags = []string{"#EXT-X-STREAM-INF:", "#EXT-X-MEDIA:", "#EXT-X-SERVER-CONTROL:", "#EXT-X-PART:", "#EXT-X-MAP:", "#EXT-X-KEY:", "#EXT-X-PRELOAD-HINT:", "#EXT-X-START:"}

func textVariants(text string, full bool) []string {
	lines := strings.Split(strings.TrimSuffix(text, "\n"), "\n")
	join := func(ls []string) string { return strings.Join(ls, "\n") + "\n" }
	var out []string
	out = append(out, strings.ReplaceAll(text, "\n", "\r\n"), strings.TrimSuffix(text, "\n"))
	// an unknown tag / comment / blank line inserted at every line position after the header
	for i := 1; i <= len(lines); i++ {
		if i < len(lines) && strings.HasPrefix(lines[i-1], "#EXT-X-STREAM-INF:") {
			continue // the URI must follow immediately
		}
		for _, ins := range []string{"#EXT-X-UNKNOWN-TAG:FOO=1,BAR=\"x,y\"", "# a comment", ""} {
			if !full && i%3 != 1 && ins != "" {
				continue
			}
			nl := append(append(append([]string{}, lines[:i]...), ins), lines[i:]...)
			out = append(out, join(nl))
			// the same with CRLF line ends (a blank line is then a lone CR before the LF)
			out = append(out, strings.ReplaceAll(join(nl), "\n", "\r\n"))
		}
	}
	// EXT-X-ENDLIST may appear anywhere in a media playlist (RFC 8216 4.3.3.4): right after the header and after every
	// URI line
	for ei, l := range lines {
		if l != "#EXT-X-ENDLIST" {
			continue
		}
		rest := append(append([]string{}, lines[:ei]...), lines[ei+1:]...)
		for i := 1; i <= len(rest); i++ {
			prev := rest[i-1]
			if i != 1 && (strings.HasPrefix(prev, "#") || prev == "") {
				continue // only after #EXTM3U and after URI lines (never between a segment's tags and its URI)
			}
			nl := append(append(append([]string{}, rest[:i]...), "#EXT-X-ENDLIST"), rest[i:]...)
			out = append(out, join(nl))
		}
	}
	// attribute permutations and an unknown attribute at every position
	for li, l := range lines {
		for _, tag := range attrTags {
			if !strings.HasPrefix(l, tag) {
				continue
			}
			attrs := splitAttrs(l[len(tag):])
			if len(attrs) >= 2 {
				for _, p := range permutations(len(attrs)) {
					na := make([]string, len(attrs))
					for i, j := range p {
						na[i] = attrs[j]
					}
					nl := append([]string{}, lines...)
					nl[li] = tag + strings.Join(na, ",")
					out = append(out, join(nl))
				}
			}
			for pos := 0; pos <= len(attrs); pos++ {
				na := append(append(append([]string{}, attrs[:pos]...), "X-UNKNOWN=\"a=b,c\""), attrs[pos:]...)
				nl := append([]string{}, lines...)
				nl[li] = tag + strings.Join(na, ",")
				out = append(out, join(nl))
			}
		}
	}
	return out
}

// ---------- independent reader agreement ----------

func nsOf(d time.Duration) int64 { return int64(d) }

func near(a, b int64) bool {
	d := a - b
	if d < 0 {
		d = -d
	}
	return d < 10_000
}

func agreeMedia(m *Media, im *m3u.Media) string {
	if im == nil {
		return "independent reader: not a media playlist"
	}
	if im.Version == nil || *im.Version != m.Version {
		return "version"
	}
	if im.TargetDuration != m.TargetDuration || im.MediaSequence != m.MediaSequence || im.Endlist != m.Endlist || im.IndependentSegments != m.IndependentSegments {
		return "header fields"
	}
	if (m.Start == nil) != (im.Start == nil) || (m.Start != nil && !near(im.Start.TimeOffsetNS, nsOf(m.Start.TimeOffset))) {
		return "EXT-X-START"
	}
	if (m.DiscontinuitySequence == nil) != (im.DiscontinuitySequence == nil) || (m.DiscontinuitySequence != nil && *m.DiscontinuitySequence != *im.DiscontinuitySequence) {
		return "EXT-X-DISCONTINUITY-SEQUENCE"
	}
	if (m.PlaylistType == nil) != (im.PlaylistType == "") || (m.PlaylistType != nil && string(*m.PlaylistType) != im.PlaylistType) {
		return "EXT-X-PLAYLIST-TYPE"
	}
	if (m.AllowCache == nil) != (im.AllowCache == nil) || (m.AllowCache != nil && *m.AllowCache != *im.AllowCache) {
		return "EXT-X-ALLOW-CACHE"
	}
	if (m.ServerControl == nil) != (im.ServerControl == nil) {
		return "EXT-X-SERVER-CONTROL presence"
	}
	if m.ServerControl != nil {
		sc, isc := m.ServerControl, im.ServerControl
		if sc.CanBlockReload != isc.CanBlockReload || (sc.PartHoldBack == nil) != (isc.PartHoldBackNS == nil) || (sc.CanSkipUntil == nil) != (isc.CanSkipUntilNS == nil) {
			return "EXT-X-SERVER-CONTROL attributes"
		}
		if sc.PartHoldBack != nil && !near(nsOf(*sc.PartHoldBack), *isc.PartHoldBackNS) {
			return "PART-HOLD-BACK"
		}
		if sc.CanSkipUntil != nil && !near(nsOf(*sc.CanSkipUntil), *isc.CanSkipUntilNS) {
			return "CAN-SKIP-UNTIL"
		}
	}
	if (m.PartInf == nil) != (im.PartTargetNS == nil) || (m.PartInf != nil && !near(nsOf(m.PartInf.PartTarget), *im.PartTargetNS)) {
		return "EXT-X-PART-INF"
	}
	if (m.Skip == nil) != (im.Skip == nil) || (m.Skip != nil && m.Skip.SkippedSegments != *im.Skip) {
		return "EXT-X-SKIP"
	}
	if (m.Map != nil) != im.HasMap || (m.Map != nil && m.Map.URI != im.MapURI) {
		return "EXT-X-MAP"
	}
	if len(m.Segments) != len(im.Segments) {
		return "segment count"
	}
	cmpPart := func(p *MediaPart, ip m3u.Part) bool {
		return p.URI == ip.URI && near(nsOf(p.Duration), ip.DurationNS) && p.Independent == ip.Independent && p.Gap == ip.Gap
	}
	for i, s := range m.Segments {
		is := im.Segments[i]
		if s.URI != is.URI || !near(nsOf(s.Duration), is.DurationNS) || s.Gap != is.Gap || s.Discontinuity != is.Discontinuity || strings.TrimSpace(is.Title) != s.Title {
			return fmt.Sprintf("segment %d", i)
		}
		if (s.DateTime == nil) != (is.DateTime == nil) || (s.DateTime != nil && s.DateTime.Sub(*is.DateTime).Abs() >= time.Millisecond) {
			return fmt.Sprintf("segment %d date-time", i)
		}
		if (s.Bitrate == nil) != (is.Bitrate == nil) || (s.Bitrate != nil && *s.Bitrate != *is.Bitrate) {
			return fmt.Sprintf("segment %d bitrate", i)
		}
		if (s.ByteRangeLength == nil) != (is.ByteRange == "") {
			return fmt.Sprintf("segment %d byte range", i)
		}
		if len(s.Parts) != len(is.Parts) {
			return fmt.Sprintf("segment %d parts", i)
		}
		for j := range s.Parts {
			if !cmpPart(s.Parts[j], is.Parts[j]) {
				return fmt.Sprintf("segment %d part %d", i, j)
			}
		}
		sk, isk := s.Key, is.Key
		if sk != nil && sk.Method == MediaKeyMethodNone {
			sk = nil
		}
		if (sk == nil) != (isk == nil) || (sk != nil && (string(sk.Method) != isk.Method || sk.URI != isk.URI || sk.IV != isk.IV || sk.KeyFormat != isk.KeyFormat || sk.KeyFormatVersions != isk.KeyFormatVersions)) {
			return fmt.Sprintf("segment %d key", i)
		}
	}
	if len(m.Parts) != len(im.Parts) {
		return "trailing parts"
	}
	for j := range m.Parts {
		if !cmpPart(m.Parts[j], im.Parts[j]) {
			return fmt.Sprintf("trailing part %d", j)
		}
	}
	if (m.PreloadHint == nil) != (len(im.PreloadHints) == 0) || (m.PreloadHint != nil && m.PreloadHint.URI != im.PreloadHints[0].URI) {
		return "EXT-X-PRELOAD-HINT"
	}
	return ""
}

func agreeMulti(m *Multivariant, im *m3u.Multi) string {
	if im == nil {
		return "independent reader: not a multivariant playlist"
	}
	if im.Version == nil || *im.Version != m.Version || im.IndependentSegments != m.IndependentSegments {
		return "header"
	}
	if (m.Start == nil) != (im.Start == nil) || (m.Start != nil && !near(im.Start.TimeOffsetNS, nsOf(m.Start.TimeOffset))) {
		return "EXT-X-START"
	}
	if len(m.Variants) != len(im.Variants) || len(m.Renditions) != len(im.Renditions) {
		return "counts"
	}
	for i, v := range m.Variants {
		iv := im.Variants[i]
		if v.URI != iv.URI || v.Bandwidth != iv.Bandwidth || strings.Join(v.Codecs, ",") != strings.Join(iv.Codecs, ",") || v.Resolution != iv.Resolution ||
			v.Video != iv.Video || v.Audio != iv.Audio || v.Subtitles != iv.Subtitles || v.ClosedCaptions != iv.ClosedCaptions {
			return fmt.Sprintf("variant %d", i)
		}
		if (v.AverageBandwidth == nil) != (iv.AverageBandwidth == nil) || (v.AverageBandwidth != nil && *v.AverageBandwidth != *iv.AverageBandwidth) {
			return fmt.Sprintf("variant %d average bandwidth", i)
		}
		if (v.FrameRate == nil) != (iv.FrameRate == "") {
			return fmt.Sprintf("variant %d frame rate", i)
		}
		if v.FrameRate != nil {
			f, _ := strconv.ParseFloat(iv.FrameRate, 64)
			if d := f - *v.FrameRate; d > 0.0006 || d < -0.0006 {
				return fmt.Sprintf("variant %d frame rate value", i)
			}
		}
	}
	for i, r := range m.Renditions {
		ir := im.Renditions[i]
		b := func(p *bool) bool { return p != nil && *p }
		if string(r.Type) != ir.Type || r.GroupID != ir.GroupID || r.Name != ir.Name || r.Language != ir.Language || r.Default != b(ir.Default) || r.Autoselect != b(ir.Autoselect) || r.Forced != b(ir.Forced) {
			return fmt.Sprintf("rendition %d", i)
		}
		if (r.URI == nil) != (ir.URI == nil) || (r.URI != nil && *r.URI != *ir.URI) {
			return fmt.Sprintf("rendition %d URI", i)
		}
		if (r.Channels == nil) != (ir.Channels == "") || (r.InStreamID == nil) != (ir.InstreamID == "") {
			return fmt.Sprintf("rendition %d channels / instream-id", i)
		}
	}
	return ""
}

// ---------- C14 ----------

type plCase struct {
	Family string `json:"family"`
	Mask   int    `json:"mask"`
	VS     int    `json:"vs"`
	Extra  int    `json:"extra,omitempty"`
}

func (pc plCase) build() Playlist {
	switch pc.Family {
	case "media-f1":
		return mediaF1(pc.Mask, pc.VS)
	case "multi-f1":
		return multiF1(pc.Mask, pc.VS)
	case "segments":
		// segment lists of length 1..3 over the segment flag lattice, keys changing between segments
		m := &Media{Version: 9, TargetDuration: 4000, MediaSequence: pc.VS, Map: &MediaMap{URI: "i.mp4"},
			ServerControl: &MediaServerControl{CanBlockReload: true, PartHoldBack: durp(3 * time.Second)}, PartInf: &MediaPartInf{PartTarget: time.Second}}
		n := 1 + pc.Extra%3
		for i := 0; i < n; i++ {
			s := segmentF((pc.Mask+i*37)%128, pc.VS+i)
			s.Key = valKey(pc.VS + i*(1+pc.Extra/3))
			if pc.Extra/3 == 7 {
				// consecutive segments with the same optional fields and the same values (bit rate, key, byte range, ...):
				// what is written once for a run of segments must still come back on each of them
				s = segmentF(pc.Mask, pc.VS)
				s.Key = valKey(pc.VS)
				if s.DateTime != nil {
					t := s.DateTime.Add(time.Duration(i) * s.Duration)
					s.DateTime = &t
				}
			}
			// URIs as they come: plain, percent-encoded (path and signed query), a bare per cent sign, text that looks like
			// formatting directives
			s.URI = fmt.Sprintf([]string{"s%d_%d.mp4", "my%%20video/s%d_%d.mp4?sig=a%%2Bb%%3D", "100%%.s%d_%d.mp4", "%%s%%d%%v%%!_s%d_%d.ts"}[(pc.VS+i)%4], pc.Mask, i)
			// quoted strings carry white space at their ends verbatim (part URIs; rendition names have their own family)
			for pi, p := range s.Parts {
				if (pc.VS+i+pi)%3 == 1 {
					p.URI = []string{" lead_" + p.URI, p.URI + " ", "\t" + p.URI + "\u00a0"}[(pc.VS+pi)%3]
				}
			}
			if m.Map != nil && pc.VS%5 == 2 {
				m.Map = &MediaMap{URI: " i.mp4 "}
			}
			m.Segments = append(m.Segments, s)
		}
		// documented requirement: once a key is in force, "no key" is expressed as METHOD=NONE
		inForce := false
		for _, s := range m.Segments {
			if s.Key != nil && s.Key.Method != MediaKeyMethodNone {
				inForce = true
			} else if inForce && s.Key == nil {
				s.Key = &MediaKey{Method: MediaKeyMethodNone}
			}
		}
		return m
	case "long-lines":
		return longLineCase(pc.Mask, pc.VS)
	case "durations":
		return durationCase(pc.Mask, pc.VS)
	case "server-control":
		m := mediaF1(0, pc.VS)
		sc := &MediaServerControl{}
		if pc.Mask&1 != 0 {
			sc.CanBlockReload = true
		}
		if pc.Mask&2 != 0 {
			sc.PartHoldBack = durp(valDurations[pc.VS%len(valDurations)])
		}
		if pc.Mask&4 != 0 {
			sc.CanSkipUntil = durp(valDurations[(pc.VS+1)%len(valDurations)])
		}
		m.ServerControl = sc
		return m
	}
	return nil
}

// durations on and off the 10 us grid of the text form, around every rounding boundary (a carry into the next second,
// minute-sized values, values that round to zero); decoded values are compared with a tolerance of one grid step
var gridDurations = []time.Duration{
	0, 4 * time.Microsecond, 5 * time.Microsecond, 14999 * time.Nanosecond, 10 * time.Microsecond,
	time.Second - 2*time.Microsecond, time.Second - 5*time.Microsecond, time.Second - 5001*time.Nanosecond, time.Second + 4999*time.Nanosecond,
	2*time.Second - 3*time.Microsecond, 9*time.Second + 999996*time.Microsecond, 59*time.Second + 999995*time.Microsecond,
	3599*time.Second + 999996*time.Microsecond, 33366667 * time.Nanosecond, 6006 * time.Millisecond, 100 * time.Hour,
}

const durationFields = 7

func durationCase(field int, vi int) Playlist {
	d := gridDurations[vi%len(gridDurations)]
	m := &Media{Version: 9, TargetDuration: 4000, MediaSequence: 1, Map: &MediaMap{URI: "i.mp4"},
		ServerControl: &MediaServerControl{CanBlockReload: true, PartHoldBack: durp(3 * time.Second)}, PartInf: &MediaPartInf{PartTarget: time.Second},
		Segments: []*MediaSegment{{Duration: time.Second, URI: "s1.mp4", Parts: []*MediaPart{{Duration: time.Second, URI: "p1.mp4"}}}}}
	if field <= 2 && d < 5*time.Microsecond {
		d += time.Second // a segment / part / PART-TARGET needs a duration: the decoder takes 0.00000 for a missing one (documented check)
	}
	if field == 6 && d < 5*time.Microsecond {
		d += time.Second // (a negative offset that rounds to zero is written as -0.00000: not a different value)
	}
	switch field {
	case 0:
		m.Segments[0].Duration = d
	case 1:
		m.Segments[0].Parts[0].Duration = d
	case 2:
		m.PartInf.PartTarget = d
	case 3:
		m.ServerControl.PartHoldBack = durp(d)
	case 4:
		m.ServerControl.CanSkipUntil = durp(d)
	case 5:
		m.Start = &MediaStart{TimeOffset: d}
	case 6:
		m.Start = &MediaStart{TimeOffset: -d}
	}
	return m
}

// line lengths around the buffer sizes of the usual line readers (bufio.Reader 4 KiB, bufio.Scanner 64 KiB) and one
// far beyond them
var longLens = []int{4095, 4096, 4097, 65535, 65536, 65537, 100001}

const longLinePositions = 10

// longLineCase puts one string of the given length (an inline data: URI, a long title, a long codec list) at one
// position of a playlist: before and after the line that decides the playlist kind, in the first and in a later
// segment, in a rendition and in a variant.
func longLineCase(pos int, li int) Playlist {
	long := func(prefix string) string {
		n := longLens[li%len(longLens)]
		b := make([]byte, 0, n)
		b = append(b, prefix...)
		for i := 0; len(b) < n; i++ {
			b = append(b, "ABCDEFGHIJKLMNOPQRSTUVWXYZabcdefghijklmnopqrstuvwxyz0123456789+/"[(i*7+li)%64])
		}
		return string(b)
	}
	if pos < 6 {
		m := &Media{Version: 7, TargetDuration: 4, MediaSequence: 3, Map: &MediaMap{URI: "init.mp4"},
			Segments: []*MediaSegment{{Duration: 4 * time.Second, URI: "s3.mp4"}, {Duration: 3 * time.Second, URI: "s4.mp4"}}}
		switch pos {
		case 0:
			m.Map.URI = long("data:video/mp4;base64,")
		case 1:
			m.Segments[0].Key = &MediaKey{Method: MediaKeyMethodAES128, URI: long("data:text/plain;base64,")}
			m.Segments[1].Key = m.Segments[0].Key // a key stays in force
		case 2:
			m.Segments[0].URI = long("https://h/") + ".mp4"
		case 3:
			m.Segments[0].Title = long("t ")
		case 4:
			m.Segments[1].URI = long("https://h/") + ".mp4"
		case 5:
			m.Segments[1].Key = &MediaKey{Method: MediaKeyMethodAES128, URI: long("data:text/plain;base64,")}
		}
		return m
	}
	mv := &Multivariant{Version: 7, IndependentSegments: true,
		Variants: []*MultivariantVariant{{Bandwidth: 1000, Codecs: []string{"avc1.42c028", "mp4a.40.2"}, URI: "v1.m3u8", Audio: "aud"},
			{Bandwidth: 2000, Codecs: []string{"avc1.42c028", "mp4a.40.2"}, URI: "v2.m3u8", Audio: "aud"}},
		Renditions: []*MultivariantRendition{{Type: MultivariantRenditionTypeAudio, GroupID: "aud", Name: "a", URI: strp("a.m3u8")}}}
	switch pos {
	case 6:
		mv.Renditions[0].URI = strp(long("data:application/vnd.apple.mpegurl;base64,"))
	case 7:
		mv.Renditions[0].Name = long("n ")
	case 8:
		mv.Variants[0].URI = long("https://h/") + ".m3u8"
	case 9:
		mv.Variants[1].URI = long("https://h/") + ".m3u8"
	}
	return mv
}

func c14Cases(tier string) map[string][]plCase {
	out := map[string][]plCase{}
	for f := 0; f < durationFields; f++ {
		for vi := range gridDurations {
			out["durations"] = append(out["durations"], plCase{Family: "durations", Mask: f, VS: vi})
		}
	}
	for pos := 0; pos < longLinePositions; pos++ {
		for li := range longLens {
			out["long-lines"] = append(out["long-lines"], plCase{Family: "long-lines", Mask: pos, VS: li})
		}
	}
	nvs := 3
	if tier == "thorough" {
		nvs = 5
	}
	for mask := 0; mask < 1<<12; mask++ {
		for vs := 0; vs < nvs; vs++ {
			out["media-f1"] = append(out["media-f1"], plCase{Family: "media-f1", Mask: mask, VS: vs})
		}
	}
	for mask := 0; mask < 1<<10; mask++ {
		for vs := 0; vs < nvs+1; vs++ {
			out["multi-f1"] = append(out["multi-f1"], plCase{Family: "multi-f1", Mask: mask, VS: vs})
		}
	}
	for mask := 0; mask < 128; mask++ {
		for vs := 0; vs < 9; vs++ {
			for extra := 0; extra < 24; extra++ {
				out["segments"] = append(out["segments"], plCase{Family: "segments", Mask: mask, VS: vs, Extra: extra})
			}
		}
	}
	// every subset of EXT-X-SERVER-CONTROL attributes except the empty one (a tag needs an attribute)
	for mask := 1; mask < 8; mask++ {
		for vs := 0; vs < 5; vs++ {
			out["server-control"] = append(out["server-control"], plCase{Family: "server-control", Mask: mask, VS: vs})
		}
	}
	return out
}

const c14Shards = 16

func c14List(tier string) []vh.Scenario {
	var out []vh.Scenario
	cs := c14Cases(tier)
	var fams []string
	for f := range cs {
		fams = append(fams, f)
	}
	sort.Strings(fams)
	for _, f := range fams {
		n := c14Shards
		if len(cs[f]) < 2000 {
			n = 1
		}
		for i := 0; i < n; i++ {
			out = append(out, vh.Scenario{Name: fmt.Sprintf("%s shard=%d/%d", f, i, n), Weight: len(cs[f]) / n})
		}
	}
	return out
}

var seenSig = map[string]bool{}

// checkCase runs every C14 / C15(b) oracle on one value; prop selects which violations are reported.
func checkCase(c *vh.Ctx, prop string, pc plCase, fullVariants bool) (nvariants int) {
	add := func(p, sig, format string, a ...any) {
		if p == prop {
			c.Count("violations/"+p+"/"+sig, 1)
			if seenSig[p+"/"+sig] {
				return // one replayable instance per class and worker is enough
			}
			seenSig[p+"/"+sig] = true
			c.Violation(p+"/"+sig, fmt.Sprintf(format, a...)+fmt.Sprintf("\ncase %+v", pc), pc)
		}
	}
	pl := pc.build()
	text, err := pl.Marshal()
	if err != nil {
		add("C14", "marshal-error", "%v", err)
		return
	}
	// encoder output is grammatical (C15 b)
	im, imv, gerrs := m3u.Parse(text, m3u.Options{StrictUnknown: true})
	if len(gerrs) > 0 {
		add("C15", "encoder-grammar/"+grammarClass(gerrs[0]), "Marshal output violates the grammar: %s\n%s", strings.Join(gerrs, "; "), text)
	}
	decode := func(b []byte) (Playlist, error) {
		var p2 Playlist
		if _, ok := pl.(*Media); ok {
			p2 = &Media{}
		} else {
			p2 = &Multivariant{}
		}
		return p2, p2.Unmarshal(b)
	}
	back, err := decode(text)
	if err != nil {
		add("C14", "unmarshal-of-marshal-fails", "Unmarshal(Marshal(p)) fails: %v\n%s", err, text)
		return
	}
	if d := valueDiff(pl, back); d != "" {
		add("C14", "round-trip/"+fieldClass(d), "Unmarshal(Marshal(p)) differs from p at %s\n%s", d, text)
	}
	text2, _ := back.Marshal()
	if string(text2) != string(text) {
		add("C14", "marshal-not-fixpoint", "Marshal(Unmarshal(Marshal(p))) differs from Marshal(p)\n--- first\n%s--- second\n%s", text, text2)
	}
	// playlist.Unmarshal picks the right kind
	auto, err := Unmarshal(text)
	if err != nil || reflect.TypeOf(auto) != reflect.TypeOf(pl) {
		add("C14", "wrong-kind", "playlist.Unmarshal returned %T, %v for a %T", auto, err, pl)
	}
	// the independent reader agrees on every field
	if len(gerrs) == 0 {
		var d string
		switch p := pl.(type) {
		case *Media:
			d = agreeMedia(p, im)
		case *Multivariant:
			d = agreeMulti(p, imv)
		}
		if d != "" {
			add("C14", "independent-reader-disagrees/"+strings.Fields(d)[0], "the independent reader decodes Marshal(p) differently: %s\n%s", d, text)
		}
	}
	// every syntactic variant decodes to the same value
	for _, v := range textVariants(string(text), fullVariants) {
		nvariants++
		vb, err := decode([]byte(v))
		if err != nil {
			add("C14", "variant-rejected", "a syntactic variant of Marshal(p) is rejected: %v\n%s", err, v)
			break
		}
		if d := valueDiff(back, vb); d != "" {
			add("C14", "variant-decodes-differently", "a syntactic variant decodes differently at %s\n%s", d, v)
			break
		}
		if a2, err := Unmarshal([]byte(v)); err != nil || reflect.TypeOf(a2) != reflect.TypeOf(pl) {
			add("C14", "wrong-kind", "playlist.Unmarshal returned %T, %v for a variant of a %T\n%s", a2, err, pl, v)
			break
		}
	}
	return
}

func fieldClass(d string) string {
	d = strings.TrimPrefix(d, ".")
	if i := strings.IndexAny(d, ":["); i > 0 {
		d = d[:i]
	}
	return d
}

var grammarAttrRe = regexp.MustCompile(`attribute ([A-Z0-9-]+) has value .* of the wrong lexical type`)

func grammarClass(e string) string {
	if m := grammarAttrRe.FindStringSubmatch(e); m != nil {
		tag := "?"
		for _, k := range []string{"EXT-X-SERVER-CONTROL", "EXT-X-MAP", "EXT-X-PART", "EXT-X-MEDIA", "EXT-X-STREAM-INF", "EXT-X-KEY", "EXT-X-PRELOAD-HINT", "EXT-X-START"} {
			if strings.Contains(e, k) {
				tag = k
				break
			}
		}
		return tag + "/" + m[1] + "-lexical-type"
	}
	for _, k := range []string{"EXT-X-SERVER-CONTROL", "EXT-X-MAP", "EXT-X-PART", "EXT-X-MEDIA", "EXT-X-STREAM-INF", "EXT-X-KEY", "EXT-X-PRELOAD-HINT", "EXT-X-START", "EXTINF", "URI"} {
		if strings.Contains(e, k) {
			return k
		}
	}
	return "other"
}

func c14Run(c *vh.Ctx) { plRun(c, "C14") }

func plRun(c *vh.Ctx, prop string) {
	if c.Replay != nil {
		var pc plCase
		if err := json.Unmarshal(c.Replay, &pc); err == nil && pc.Family != "" {
			c.Exec()
			checkCase(c, prop, pc, true)
			return
		}
		if prop == "C15" {
			c15Replay(c)
		}
		return
	}
	var fam string
	var shard, shards int
	fmt.Sscanf(strings.ReplaceAll(c.Scenario, "shard=", ""), "%s %d/%d", &fam, &shard, &shards)
	cases := c14Cases(c.Tier)[fam]
	for i, pc := range cases {
		if i%shards != shard {
			continue
		}
		n := checkCase(c, prop, pc, c.Tier == "thorough" || i%8 == 0)
		c.Exec()
		c.AddSteps(int64(n))
		b, _ := pc.build().Marshal()
		c.Outcome(string(b))
		if c.WantSample() && i%997 == 0 {
			c.Sample(map[string]any{"case": pc, "text": string(b), "variants_checked": n})
		}
		if c.NViolations() > 6 {
			c.Cap(c.Scenario + ": stopped after violations")
			return
		}
		if i%256 == 0 && c.Expired() {
			c.Cap(fmt.Sprintf("%s: deadline reached after %d of %d values", c.Scenario, i, len(cases)))
			return
		}
	}
}

// ---------- C15 ----------

func corpusTexts() []string {
	var out []string
	for _, ca := range casesMedia {
		out = append(out, ca.input)
	}
	for _, ca := range casesMultivariant {
		out = append(out, ca.input)
	}
	// in-code seeds for state the decoder carries from one segment to the next: byte ranges without offset (each
	// continues the previous one of the same resource) at the head of the playlist, after a segment without a range
	// and after another resource; keys and maps that change between segments
	out = append(out,
		"#EXTM3U\n#EXT-X-VERSION:4\n#EXT-X-TARGETDURATION:2\n#EXTINF:2,\n#EXT-X-BYTERANGE:10\na.ts\n#EXTINF:2,\n#EXT-X-BYTERANGE:10\na.ts\n#EXTINF:2,\n#EXT-X-BYTERANGE:10\na.ts\n#EXT-X-ENDLIST\n",
		"#EXTM3U\n#EXT-X-VERSION:4\n#EXT-X-TARGETDURATION:2\n#EXTINF:2,\nplain.ts\n#EXTINF:2,\n#EXT-X-BYTERANGE:10\na.ts\n#EXTINF:2,\n#EXT-X-BYTERANGE:10\na.ts\n#EXTINF:2,\n#EXT-X-BYTERANGE:7@3\nb.ts\n#EXTINF:2,\n#EXT-X-BYTERANGE:10\na.ts\n#EXTINF:2,\n#EXT-X-BYTERANGE:10\na.ts\n",
		"#EXTM3U\n#EXT-X-VERSION:7\n#EXT-X-TARGETDURATION:2\n#EXT-X-MAP:URI=\"i.mp4\",BYTERANGE=\"10@0\"\n#EXT-X-KEY:METHOD=AES-128,URI=\"k1\"\n#EXTINF:2,\n#EXT-X-BYTERANGE:10@10\na.mp4\n#EXT-X-KEY:METHOD=NONE\n#EXTINF:2,\n#EXT-X-BYTERANGE:10\na.mp4\n#EXT-X-MAP:URI=\"i2.mp4\"\n#EXT-X-KEY:METHOD=AES-128,URI=\"k2\",IV=0x00000000000000000000000000000001\n#EXTINF:2,\n#EXT-X-BYTERANGE:10\na.mp4\n",
	)
	// EXT-X-KEY initialisation vectors of every shape: 1..32 digits, too many digits, odd counts, upper-case prefix, no prefix,
	// not hexadecimal
	for _, iv := range []string{"0x1", "0x" + strings.Repeat("a", 31), "0x" + strings.Repeat("0", 32), "0X" + strings.Repeat("F", 32), "0x" + strings.Repeat("1", 33),
		"0x" + strings.Repeat("2", 34), "0X" + strings.Repeat("3", 40), "0x" + strings.Repeat("4", 64), "0x" + strings.Repeat("5", 1000), strings.Repeat("6", 32), "0x", "0xzz", "0x" + strings.Repeat("g", 34)} {
		out = append(out, "#EXTM3U\n#EXT-X-VERSION:7\n#EXT-X-TARGETDURATION:2\n#EXT-X-KEY:METHOD=AES-128,URI=\"k\",IV="+iv+"\n#EXTINF:2,\na.ts\n#EXT-X-ENDLIST\n")
	}
	// decimal-integer tags around every power of two a fixed-width parser may stop at
	for _, n := range []string{"2147483647", "2147483648", "4294967295", "4294967296", "9223372036854775807", "9223372036854775808", "18446744073709551615", "18446744073709551616", "99999999999999999999999999"} {
		for _, tag := range []string{"#EXT-X-MEDIA-SEQUENCE:", "#EXT-X-DISCONTINUITY-SEQUENCE:", "#EXT-X-TARGETDURATION:", "#EXT-X-VERSION:"} {
			hdr := "#EXTM3U\n#EXT-X-VERSION:3\n#EXT-X-TARGETDURATION:2\n"
			if tag == "#EXT-X-TARGETDURATION:" {
				hdr = "#EXTM3U\n#EXT-X-VERSION:3\n"
			}
			if tag == "#EXT-X-VERSION:" {
				hdr = "#EXTM3U\n#EXT-X-TARGETDURATION:2\n"
			}
			out = append(out, hdr+tag+n+"\n#EXTINF:2,\na.ts\n#EXT-X-ENDLIST\n")
		}
	}
	dirs, _ := filepath.Glob("testdata/fuzz/*")
	sort.Strings(dirs)
	for _, d := range dirs {
		files, _ := filepath.Glob(filepath.Join(d, "*"))
		sort.Strings(files)
		for _, f := range files {
			b, err := os.ReadFile(f)
			if err != nil {
				continue
			}
			for _, l := range strings.Split(string(b), "\n") {
				l = strings.TrimSpace(l)
				for _, pre := range []string{"string(", "[]byte("} {
					if strings.HasPrefix(l, pre) && strings.HasSuffix(l, ")") {
						if s, err := strconv.Unquote(l[len(pre) : len(l)-1]); err == nil {
							out = append(out, s)
						}
					}
				}
			}
		}
	}
	return out
}

var c15Alphabet = []byte{'\n', ',', '=', '"', '#', ':', '0', '-', '.', 'x', '@', '\r', ' ', '\t', 0x00, 0xff}

func c15List(tier string) []vh.Scenario {
	out := []vh.Scenario{}
	for _, s := range c14List(tier) {
		out = append(out, vh.Scenario{Name: "grammar " + s.Name, Weight: s.Weight})
	}
	n := len(corpusTexts())
	for i := 0; i < n; i++ {
		out = append(out, vh.Scenario{Name: fmt.Sprintf("decoder corpus=%d", i), Weight: 3000})
	}
	for i := 0; i < 8; i++ {
		out = append(out, vh.Scenario{Name: fmt.Sprintf("decoder generated shard=%d/8", i), Weight: 20000})
	}
	return out
}

// decodeOracle: Unmarshal must not panic and, when it succeeds, the result must have the structure callers rely on.
func decodeOracle(text []byte) (sig, msg string, ok bool) {
	defer func() {
		if r := recover(); r != nil {
			sig, msg = "decoder-panic", fmt.Sprintf("Unmarshal panics: %v", r)
		}
	}()
	check := func(pl Playlist) (string, string) {
		switch p := pl.(type) {
		case *Media:
			if p.TargetDuration == 0 {
				return "decoded-invalid/targetduration", "TARGETDURATION is zero"
			}
			if len(p.Segments) == 0 {
				return "decoded-invalid/no-segments", "no segments"
			}
			if p.MediaSequence < 0 || p.DiscontinuitySequence != nil && *p.DiscontinuitySequence < 0 || p.TargetDuration < 0 || p.Version < 0 {
				return "decoded-invalid/negative-number", fmt.Sprintf("a decimal-integer tag was decoded into a negative number (media sequence %d, target duration %d, version %d)", p.MediaSequence, p.TargetDuration, p.Version)
			}
			for i, s := range p.Segments {
				if s.URI == "" {
					return "decoded-invalid/segment-uri", fmt.Sprintf("segment %d has an empty URI", i)
				}
				if s.Duration == 0 {
					return "decoded-invalid/segment-duration", fmt.Sprintf("segment %d (%s) has zero duration", i, s.URI)
				}
				for j, pt := range s.Parts {
					if pt.URI == "" || pt.Duration == 0 {
						return "decoded-invalid/part", fmt.Sprintf("part %d of segment %d has an empty URI or zero duration", j, i)
					}
				}
			}
			for j, pt := range p.Parts {
				if pt.URI == "" || pt.Duration == 0 {
					return "decoded-invalid/part", fmt.Sprintf("trailing part %d has an empty URI or zero duration", j)
				}
			}
			if p.PartInf != nil && p.PartInf.PartTarget == 0 {
				return "decoded-invalid/part-target", "PART-TARGET is zero"
			}
			if p.Map != nil && p.Map.URI == "" {
				return "decoded-invalid/map", "EXT-X-MAP without URI"
			}
			if p.PreloadHint != nil && p.PreloadHint.URI == "" {
				return "decoded-invalid/preload-hint", "preload hint without URI"
			}
		case *Multivariant:
			if len(p.Variants) == 0 {
				return "decoded-invalid/no-variants", "no variants"
			}
			for i, v := range p.Variants {
				if v.URI == "" {
					return "decoded-invalid/variant-uri", fmt.Sprintf("variant %d has an empty URI", i)
				}
			}
			for i, r := range p.Renditions {
				switch r.Type {
				case MultivariantRenditionTypeAudio, MultivariantRenditionTypeVideo, MultivariantRenditionTypeSubtitles, MultivariantRenditionTypeClosedCaptions:
				default:
					return "decoded-invalid/rendition-type", fmt.Sprintf("rendition %d has type %q", i, r.Type)
				}
				if r.GroupID == "" {
					return "decoded-invalid/rendition-group", fmt.Sprintf("rendition %d has no GROUP-ID", i)
				}
			}
		}
		if _, err := pl.Marshal(); err != nil {
			return "decoded-invalid/marshal", "Marshal of the decoded playlist fails: " + err.Error()
		}
		return "", ""
	}
	for _, f := range []func() (Playlist, error){
		func() (Playlist, error) { return Unmarshal(text) },
		func() (Playlist, error) { m := &Media{}; return m, m.Unmarshal(text) },
		func() (Playlist, error) { m := &Multivariant{}; return m, m.Unmarshal(text) },
	} {
		pl, err := f()
		if err != nil {
			continue
		}
		ok = true
		if s, m := check(pl); s != "" {
			return s, m, true
		}
	}
	return "", "", ok
}

type c15Replay1 struct {
	Text string `json:"text"`
}

func c15Replay(c *vh.Ctx) {
	var rp c15Replay1
	if json.Unmarshal(c.Replay, &rp) != nil {
		return
	}
	c.Exec()
	if sig, msg, _ := decodeOracle([]byte(rp.Text)); sig != "" {
		c.Violation("C15/"+sig, msg+"\ninput: "+strconv.Quote(rp.Text), rp)
	}
}

// mutations of a text: every single-byte substitution from the alphabet, every deletion, every insertion of a
// structural byte, line deletions / duplications / swaps, truncation at every byte.
func mutateAll(text string, f func(string) bool) {
	b := []byte(text)
	for i := 0; i <= len(b); i++ {
		if !f(string(b[:i])) { // truncation
			return
		}
	}
	for i := 0; i < len(b); i++ {
		if !f(string(append(append([]byte{}, b[:i]...), b[i+1:]...))) {
			return
		}
		for _, a := range c15Alphabet {
			if a == b[i] {
				continue
			}
			nb := append([]byte{}, b...)
			nb[i] = a
			if !f(string(nb)) {
				return
			}
		}
		for _, a := range []byte{'\n', ',', '"', '='} {
			nb := append(append(append([]byte{}, b[:i]...), a), b[i:]...)
			if !f(string(nb)) {
				return
			}
		}
	}
	lines := strings.Split(text, "\n")
	for i := range lines {
		del := append(append([]string{}, lines[:i]...), lines[i+1:]...)
		dup := append(append(append([]string{}, lines[:i+1]...), lines[i]), lines[i+1:]...)
		if !f(strings.Join(del, "\n")) || !f(strings.Join(dup, "\n")) {
			return
		}
		// the line replaced by white space only
		for _, ws := range []string{" ", "\t ", "\r"} {
			rp := append([]string{}, lines...)
			rp[i] = ws
			if !f(strings.Join(rp, "\n")) {
				return
			}
		}
		if i+1 < len(lines) {
			sw := append([]string{}, lines...)
			sw[i], sw[i+1] = sw[i+1], sw[i]
			if !f(strings.Join(sw, "\n")) {
				return
			}
		}
	}
}

// small grammar: every sentence of up to n tag lines drawn from a menu
var c15Menu = []string{
	"#EXT-X-VERSION:3", "#EXT-X-TARGETDURATION:2", "#EXT-X-TARGETDURATION:0", "#EXTINF:2,", "#EXTINF:0,", "#EXTINF:,", "seg.ts", "",
	"#EXT-X-PART:DURATION=1,URI=\"p.mp4\"", "#EXT-X-PART:DURATION=0,URI=\"p.mp4\"", "#EXT-X-PART:URI=\"\"", "#EXT-X-PART-INF:PART-TARGET=0",
	"#EXT-X-MAP:URI=\"\"", "#EXT-X-PRELOAD-HINT:TYPE=PART,URI=\"\"", "#EXT-X-STREAM-INF:BANDWIDTH=1,CODECS=\"a\"", "#EXT-X-STREAM-INF:BANDWIDTH=1",
	"#EXT-X-MEDIA:TYPE=AUDIO,GROUP-ID=\"\"", "#EXT-X-MEDIA:TYPE=X,GROUP-ID=\"g\"", "#EXT-X-MEDIA:GROUP-ID=\"g\",NAME=\"n\"", "#EXT-X-KEY:METHOD=AES-128", "#EXT-X-BYTERANGE:1@", "#EXT-X-ENDLIST", "\t ",
	"#EXT-X-PRELOAD-HINT:TYPE=MAP,URI=\"i.mp4\"", "#EXT-X-PRELOAD-HINT:TYPE=PART,URI=\"p.mp4\"",
	"#EXTINF:0.4,", // a duration that is not zero but rounds to zero seconds
	"#EXT-X-SKIP:SKIPPED-SEGMENTS=3",
	"#EXT-X-PART:DURATION=1,GAP=YES", "#EXT-X-PART:DURATION=1,URI=\"p.mp4\",GAP=YES", // parts that are not available: with and without the URI they need all the same
}

func c15Run(c *vh.Ctx) {
	if c.Replay != nil {
		plRun(c, "C15")
		return
	}
	switch {
	case strings.HasPrefix(c.Scenario, "grammar "):
		c.Scenario = strings.TrimPrefix(c.Scenario, "grammar ")
		plRun(c, "C15")
	case strings.HasPrefix(c.Scenario, "decoder corpus="):
		var idx int
		fmt.Sscanf(c.Scenario, "decoder corpus=%d", &idx)
		texts := corpusTexts()
		if idx >= len(texts) {
			return
		}
		n, okN := int64(0), int64(0)
		mutateAll(texts[idx], func(s string) bool {
			n++
			sig, msg, ok := decodeOracle([]byte(s))
			if ok {
				okN++
			}
			if sig != "" {
				c.Violation("C15/"+sig, msg+"\ninput: "+strconv.Quote(s), c15Replay1{Text: s})
				return c.NViolations() < 4
			}
			return true
		})
		c.AddExec(n)
		c.Count("decoder_inputs_accepted", okN)
		c.Outcome(fmt.Sprintf("corpus %d: %d mutants, %d accepted", idx, n, okN))
		if c.WantSample() {
			c.Sample(map[string]any{"corpus_text": texts[idx], "mutants": n, "accepted_by_decoder": okN})
		}
	case strings.HasPrefix(c.Scenario, "decoder generated"):
		var shard, shards int
		fmt.Sscanf(c.Scenario, "decoder generated shard=%d/%d", &shard, &shards)
		depth := 4
		if c.Tier == "thorough" {
			depth = 5
		}
		M := len(c15Menu)
		idx := make([]int, depth)
		var n, okN int64
		k := 0
		for {
			if k%shards == shard {
				lines := []string{"#EXTM3U"}
				for _, x := range idx {
					lines = append(lines, c15Menu[x])
				}
				s := strings.Join(lines, "\n")
				for _, txt := range []string{s, s + "\n"} {
					n++
					sig, msg, ok := decodeOracle([]byte(txt))
					if ok {
						okN++
						c.Outcome(txt)
					}
					if sig != "" {
						c.Violation("C15/"+sig, msg+"\ninput: "+strconv.Quote(txt), c15Replay1{Text: txt})
					}
				}
			}
			k++
			pos := depth - 1
			for pos >= 0 {
				idx[pos]++
				if idx[pos] < M {
					break
				}
				idx[pos] = 0
				pos--
			}
			if pos < 0 || c.NViolations() > 4 {
				break
			}
			if k%4096 == 0 && c.Expired() {
				c.Cap(c.Scenario + ": deadline reached")
				break
			}
		}
		c.AddExec(n)
		c.Count("decoder_inputs_accepted", okN)
	}
}
