//go:build verif

package gohlslib

// C06, schedule half: blocking playlist reload and preload hints against a concurrently running writer (engine E2).

import (
	"bytes"
	"fmt"
	"net/url"
	"strconv"
	"strings"

	"github.com/bluenviron/gohlslib/v2/internal/zzverif/m3u"
	"github.com/bluenviron/gohlslib/v2/internal/zzverif/vh"
	"github.com/bluenviron/gohlslib/v2/internal/zzverif/vsched"
)

// c01HintScens: the part a reader is given through the preload-hint URI while the writer publishes it is the complete
// fragment (the units the parent segment holds for it), never what the storage happened to contain at that moment. Hidden
// spec C01-hint, run by C01's command: the C06 scenarios in which every requester asks for the hinted part.
func c01HintScens(tier string) []msScen {
	var out []msScen
	for _, sc := range c06Scens(tier) {
		all := true
		for _, r := range sc.Reqs {
			for _, k := range r {
				if k != "PH" && k != "PH+1" {
					all = false
				}
			}
		}
		if all {
			sc.Prop = "C01"
			out = append(out, sc)
		}
	}
	return out
}

func init() {
	verifProps["C01-hint"] = vh.Prop{
		List: func(tier string) []vh.Scenario { return msListScenarios(c01HintScens(tier)) },
		Run:  func(c *vh.Ctx) { runMuxSched(c, c01HintScens(c.Tier), c06Check) },
	}
	verifProps["C06"] = vh.Prop{
		List: func(tier string) []vh.Scenario {
			return append(msListScenarios(c06Scens(tier)), c06SeqList(tier)...)
		},
		Run: func(c *vh.Ctx) {
			if strings.Contains(c.Scenario, "C06seq") || c06IsSeqReplay(c) {
				c06SeqRun(c)
				return
			}
			runMuxSched(c, c06Scens(c.Tier), c06Check)
		},
	}
}

func c06Scens(tier string) []msScen {
	var out []msScen
	bound := 2
	if tier == "thorough" {
		bound = 3
	}
	blocking := []string{"BR", "BR+1", "BRSEG", "BRNEXT", "BRNEXT0", "BRPAST", "PH"}
	other := []string{"PL", "BRPUB", "BRFAR", "BROLD", "PH+1"}
	add := func(cfg muxCfg, warm, writes int, reqs [][]string, b int) {
		out = append(out, msScen{Prop: "C06", Cfg: cfg, Warm: warm, Writes: writes, Reqs: reqs, Bound: b, Shards: 1})
	}
	for _, warm := range []int{6, 7, 8} { // part about to be published / just published / segment about to be completed
		for _, writes := range []int{1, 2, 3, 5} {
			if tier != "thorough" && writes == 5 && warm != 6 {
				continue
			}
			for _, k := range append(append([]string{}, blocking...), other...) {
				b := bound + 1
				if tier == "thorough" && writes <= 2 {
					b = -1
				}
				add(cfgLL, warm, writes, [][]string{{k}}, b)
			}
			if writes == 5 {
				continue
			}
			// two concurrent requesters: a missed or stolen wake-up first shows here
			for i, k1 := range blocking {
				for _, k2 := range blocking[i:] {
					if tier != "thorough" && (writes == 3 && warm != 6) {
						continue
					}
					add(cfgLL, warm, writes, [][]string{{k1}, {k2}}, bound)
				}
			}
		}
	}
	// a client that is slow to take the preload-hint response (it stops until the writer has finished): the other
	// requests are answered all the same, and the writer is not held up
	for _, warm := range []int{6, 7} {
		for _, writes := range []int{2, 3} {
			for _, k := range []string{"BR", "PH", "PL", "BRPUB"} {
				add(cfgLL, warm, writes, [][]string{{"PH!stall"}, {k}}, bound)
			}
		}
	}
	// video + audio rendition: the rendition's own playlist and parts
	for _, writes := range []int{1, 3} {
		for _, k := range []string{"BRA", "BR", "PH"} {
			add(cfgLLAV, 6, writes, [][]string{{k}}, bound)
			add(cfgLLAV, 6, writes, [][]string{{k}, {"BRA"}}, bound)
		}
	}
	return out
}

type brTarget struct {
	isBR bool
	msn  int
	part int // -1: none
}

func parseBR(rawurl string) brTarget {
	i := strings.IndexByte(rawurl, '?')
	if i < 0 {
		return brTarget{}
	}
	q, err := url.ParseQuery(rawurl[i+1:])
	if err != nil || q.Get("_HLS_msn") == "" {
		return brTarget{}
	}
	t := brTarget{isBR: true, part: -1}
	t.msn, _ = strconv.Atoi(q.Get("_HLS_msn"))
	if p := q.Get("_HLS_part"); p != "" {
		t.part, _ = strconv.Atoi(p)
	}
	return t
}

// plContains reports whether the playlist contains complete segment M or (P >= 0) part P of segment M, with the
// roll-over rule (a part index past the end of a complete segment M is part 0 of segment M+1).
func plContains(mp *m3u.Media, M, P int) bool {
	skip := 0
	if mp.Skip != nil {
		skip = *mp.Skip
	}
	idx := M - mp.MediaSequence - skip
	nseg := len(mp.Segments)
	if idx < -skip {
		return false
	}
	if idx < 0 {
		return true // inside the skipped range: complete and listed (skipped)
	}
	if idx < nseg {
		if P < 0 {
			return true
		}
		seg := mp.Segments[idx]
		if len(seg.Parts) == 0 || P < len(seg.Parts) {
			return true
		}
		// roll-over to part 0 of M+1
		if idx+1 < nseg {
			return true
		}
		return len(mp.Parts) >= 1
	}
	if idx == nseg && P >= 0 {
		return P < len(mp.Parts)
	}
	return false
}

func urisOf(mp *m3u.Media) []string {
	var out []string
	if mp.HasMap {
		out = append(out, mp.MapURI)
	}
	for _, s := range mp.Segments {
		out = append(out, s.URI)
		for _, p := range s.Parts {
			out = append(out, p.URI)
		}
	}
	for _, p := range mp.Parts {
		out = append(out, p.URI)
	}
	for _, h := range mp.PreloadHints {
		out = append(out, h.URI)
	}
	return out
}

func c06Check(st *msState, s *vsched.Sched, tr *vsched.Trace) (string, []vsched.Viol) {
	var viols []vsched.Viol
	add := func(sig, msg string) { viols = append(viols, vsched.Viol{Sig: sig, Msg: msg}) }
	if tr.Livelock != "" {
		add("livelock", tr.Livelock)
	}
	for _, p := range tr.Panics {
		add("panic", p)
	}
	if st.writeErr != nil {
		add("write-error", st.writeErr.Error())
	}
	for _, t := range s.Threads() {
		if t.Name == "writer" && !t.Done() {
			add("writer-stuck", "writer blocked: "+t.WaitingFor()+" at "+t.Where())
		}
	}
	// final state, observed sequentially
	fin := map[string]*m3u.Media{}
	finalPL := func(path string) *m3u.Media {
		if i := strings.IndexByte(path, '?'); i >= 0 {
			path = path[:i]
		}
		if mp, ok := fin[path]; ok {
			return mp
		}
		var mp *m3u.Media
		func() {
			defer func() { recover() }()
			r := muxGet(st.mi.m, path)
			if r.Status == 200 {
				mp, _, _ = m3u.Parse(r.Body.Bytes(), m3u.Options{StrictUnknown: true})
			}
		}()
		fin[path] = mp
		return mp
	}
	var ob strings.Builder
	for _, l := range st.logs {
		t := parseBR(l.URL)
		isPH := l.Sym == "PH" || l.Sym == "PH+1"
		if !l.Finished {
			fmt.Fprintf(&ob, "%s:wait ", l.Sym)
			// liveness: still waiting although the target is published
			switch {
			case t.isBR:
				if mp := finalPL(l.URL); mp != nil && plContains(mp, t.msn, t.part) {
					add("blocked-although-published/"+l.Sym, fmt.Sprintf("request %s (%s) is still blocked at the end although the final playlist contains its target (msn=%d part=%d); final playlist:\n%s",
						l.Sym, l.URL, t.msn, t.part, canon(describePL(mp))))
				}
			case isPH:
				// the hinted part is published once a playlist lists it
				ls := st.leadingStream()
				if mp := finalPL(mediaPlaylistPath(ls.id)); mp != nil {
					for _, u := range urisOf(mp) {
						hinted := len(mp.PreloadHints) > 0 && mp.PreloadHints[0].URI == u
						if u == l.URL && !hinted {
							add("blocked-although-published/"+l.Sym, fmt.Sprintf("preload-hint request %s is still blocked although the part is listed as published", canon(l.URL)))
						}
					}
				}
			default:
				add("blocked/"+l.Sym, fmt.Sprintf("request %s (%s) never completes", l.Sym, canon(l.URL)))
			}
			continue
		}
		fmt.Fprintf(&ob, "%s:%d@%d ", l.Sym, l.Status, l.Done)
		switch {
		case t.isBR && l.Status == 200:
			mp, _, errs := m3u.Parse(l.Body, m3u.Options{StrictUnknown: true})
			if mp == nil || len(errs) > 0 {
				add("bad-playlist", fmt.Sprintf("response to %s is not a grammatical media playlist: %v", l.URL, errs))
				break
			}
			if !plContains(mp, t.msn, t.part) {
				add("answered-too-early/"+l.Sym, fmt.Sprintf("request %s (%s) was answered with a playlist that does not contain its target (msn=%d part=%d):\n%s",
					l.Sym, l.URL, t.msn, t.part, canon(describePL(mp))))
			}
			for _, u := range urisOf(mp) {
				if strings.Contains(u, "_HLS_") {
					add("hls-directive-in-uri", "listed URI carries an _HLS_ directive: "+canon(u))
				}
			}
		case t.isBR && l.Status == 400:
			// legitimate only if unsatisfiable in some muxer state between issue and completion
			legit := false
			for p := l.Issued; p <= l.Done+1 && p < len(st.snaps); p++ {
				sn := st.snaps[p]
				if t.msn > sn.open+1 || t.msn <= sn.first {
					legit = true
				}
			}
			if !legit {
				add("rejected-satisfiable/"+l.Sym, fmt.Sprintf("request %s (%s) was rejected with 400 although first listed < msn <= open+1 in every state it could observe (states %v)", l.Sym, l.URL, st.snaps[l.Issued:min(l.Done+2, len(st.snaps))]))
			}
		case t.isBR:
			add("unexpected-status/"+l.Sym, fmt.Sprintf("request %s (%s) ended with status %d while the muxer is open", l.Sym, l.URL, l.Status))
		case isPH && l.Status == 200:
			// body must be exactly the part as served by its own URI afterwards
			var direct []byte
			func() {
				defer func() { recover() }()
				r := muxGet(st.mi.m, l.URL)
				if r.Status == 200 {
					direct = r.Body.Bytes()
				}
			}()
			if direct == nil || !bytes.Equal(direct, l.Body) {
				add("preload-hint-bytes", fmt.Sprintf("preload-hint response for %s (%d bytes) differs from the part served by its own URI (%d bytes)", canon(l.URL), len(l.Body), len(direct)))
			}
			if l.CT != "video/mp4" {
				add("preload-hint-content-type", "content type "+l.CT)
			}
		case l.Sym == "PL" && l.Status != 200:
			add("unexpected-status/PL", fmt.Sprintf("plain playlist request ended with status %d", l.Status))
		}
	}
	st.cleanup()
	return ob.String(), viols
}

func describePL(mp *m3u.Media) string {
	var b strings.Builder
	fmt.Fprintf(&b, "MEDIA-SEQUENCE %d", mp.MediaSequence)
	if mp.Skip != nil {
		fmt.Fprintf(&b, " SKIP %d", *mp.Skip)
	}
	for i, s := range mp.Segments {
		fmt.Fprintf(&b, "\n  [%d] %s parts=%d gap=%v", mp.MediaSequence+i, s.URI, len(s.Parts), s.Gap)
	}
	fmt.Fprintf(&b, "\n  open: parts=%d", len(mp.Parts))
	for _, h := range mp.PreloadHints {
		fmt.Fprintf(&b, " hint=%s", h.URI)
	}
	return b.String()
}

func min(a, b int) int {
	if a < b {
		return a
	}
	return b
}
