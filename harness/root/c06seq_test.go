//go:build verif

package gohlslib

import "github.com/bluenviron/gohlslib/v2/internal/zzverif/vh"

// sequential half of C06 (filled in with engine E1)
func c06SeqList(tier string) []vh.Scenario { return nil }
func c06SeqRun(c *vh.Ctx)                  {}
func c06IsSeqReplay(c *vh.Ctx) bool        { return false }
