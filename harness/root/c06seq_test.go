//go:build verif

package gohlslib

// C06, sequential half: at every node of the Low-Latency write trees the harness probes a grid of (msn, part)
// values, malformed directives and delta updates. Every execution runs inside a testing/synctest bubble so that
// "this request blocks" is observed deterministically (synctest.Wait returns once the handler is durably blocked
// in cond.Wait) instead of by a wall-clock timeout.

import (
	"bytes"
	"fmt"
	"sort"
	"strconv"
	"strings"
	"testing"
	"testing/synctest"

	"github.com/bluenviron/gohlslib/v2/internal/zzverif/m3u"
	"github.com/bluenviron/gohlslib/v2/internal/zzverif/vh"
	"github.com/bluenviron/mediacommon/v2/pkg/formats/fmp4"
)

func c06SeqScens(tier string) []e1Scen {
	var out []e1Scen
	depth := 4
	if tier == "thorough" {
		depth = 6
	}
	// (SegmentCount above the minimum: the initial gap segments and the first segment number are kept in two places)
	cfgs := []muxCfg{mcfg("ll", false, 7, "h264"), mcfg("ll", true, 7, "h264", "aac44"), mcfg("ll", false, 8, "h264"), mcfg("ll", false, 10, "h264")}
	for ci, cfg := range cfgs {
		var alpha []sym
		lead := cfg.leading()
		for _, d := range []string{"q", "S"} {
			for _, k := range []string{"R", "n"} {
				alpha = append(alpha, sym{T: lead, D: d, K: k})
			}
		}
		alpha = append(alpha, sym{T: lead, D: "f", K: "n"})
		if len(cfg.Tracks) > 1 {
			alpha = append(alpha, sym{T: 1, D: "c", N: 10})
		}
		sc := e1Scen{Prop: "C06", Cfg: cfg, Alpha: alpha, Depth: depth + 1, Mode: "tree", Name: "C06seq-tree"}
		if ci >= 2 {
			// the larger windows: one level less from the initial state, and after a preamble that fills the window
			sc.Depth = depth
			out = append(out, e1Shard(sc, 2)...)
			sc2 := sc
			sc2.Pre, sc2.Depth, sc2.Name = cfg.SegCount+1, depth-1, "C06seq-tree-after-preamble"
			out = append(out, e1Shard(sc2, 2)...)
			continue
		}
		out = append(out, e1Shard(sc, 4)...)
		sc2 := sc
		sc2.Pre, sc2.Depth, sc2.Name = 8, depth, "C06seq-tree-after-preamble"
		out = append(out, e1Shard(sc2, 4)...)
	}
	return out
}

func c06SeqList(tier string) []vh.Scenario { return e1List(c06SeqScens(tier)) }

func c06IsSeqReplay(c *vh.Ctx) bool {
	return c.Replay != nil && strings.Contains(string(c.Replay), `"C06seq`)
}

func c06SeqRun(c *vh.Ctx) {
	e1Run(c, c06SeqScens(c.Tier))
}

func init() {
	e1Hooks["C06"] = func(r *e1run) { r.stepHook = c06Probe }
	e1Bubble["C06"] = true
}

// e1Bubble lists the properties whose E1 executions run inside a synctest bubble.
var e1Bubble = map[string]bool{}

// inBubble runs f inside a synctest bubble.
// bubbleLeftovers counts bubbles that ended with requests still blocked inside the muxer after Close (C07's subject,
// not that of the properties that run their probes here): the goroutines are abandoned, the run goes on.
var bubbleLeftovers int

func inBubble(t *testing.T, f func()) {
	defer func() {
		if p := recover(); p != nil {
			if msg := fmt.Sprint(p); strings.Contains(msg, "blocked goroutines remain") || strings.Contains(msg, "deadlock") {
				bubbleLeftovers++
				return
			}
			panic(p)
		}
	}()
	synctest.Test(t, func(t *testing.T) { f() })
}

// probe issues a request and reports whether the handler blocks.
func (r *e1run) probe(path string) (*respRec, bool) {
	done := false
	var rr *respRec
	go func() {
		rr = r.safeGet(path)
		done = true
	}()
	synctest.Wait()
	if !done {
		return nil, true
	}
	return rr, false
}

func c06Probe(r *e1run) {
	k := len(r.steps) - 1
	st := r.steps[k]
	if !st.avail {
		return
	}
	li := 0
	for i, s := range r.mi.m.streams {
		if s.isLeading {
			li = i
		}
	}
	// probe the leading stream and, if any, one rendition
	streams := []int{li}
	if len(r.mi.m.streams) > 1 {
		streams = append(streams, (li+1)%len(r.mi.m.streams))
	}
	// preload hints: the URI a playlist hinted returns, once its part is published, exactly that part - one fragment
	// whose sequence number is the part number - and the same bytes at every later GET for as long as something answers
	// (from memory while the segment is open, from the finalised file afterwards)
	if r.c06Hints == nil {
		r.c06Hints = map[string][]byte{}
	}
	for _, si := range streams {
		s := r.mi.m.streams[si]
		var hinted []string
		for u := range r.c06Hints {
			hinted = append(hinted, u)
		}
		sort.Strings(hinted)
		for _, u := range hinted {
			nm := partNumRe.FindStringSubmatch(stripQuery(u))
			if nm == nil || !strings.Contains(u, "_"+s.id+"_") {
				continue
			}
			n, _ := strconv.Atoi(nm[1])
			if uint64(n) >= s.nextPartID {
				continue // not published yet: a GET would block
			}
			rr := r.safeGet(u)
			if rr.Status != 200 {
				continue // expired with its segment
			}
			var parts fmp4.Parts
			if err := parts.Unmarshal(rr.Body.Bytes()); err != nil || len(parts) != 1 || int(parts[0].SequenceNumber) != n {
				r.add("C06", "hint-not-exactly-the-part", "GET %s (a hinted part, published) returned %d bytes that are not exactly one fragment with sequence number %d: %d fragment(s), %v (write %d)", canon(u), rr.Body.Len(), n, len(parts), err, st.write)
				continue
			}
			if old := r.c06Hints[u]; old != nil && !bytes.Equal(old, rr.Body.Bytes()) {
				r.add("C06", "hint-bytes-changed", "GET %s returned %d bytes at an earlier GET and %d different bytes now (write %d)", canon(u), len(old), rr.Body.Len(), st.write)
			}
			if r.c06Hints[u] == nil {
				r.c06Hints[u] = append([]byte{}, rr.Body.Bytes()...)
			}
		}
		if pl := st.streams[si].mp; pl != nil {
			for _, h := range pl.PreloadHints {
				if _, ok := r.c06Hints[h.URI]; !ok {
					r.c06Hints[h.URI] = nil
				}
			}
		}
	}
	for _, si := range streams {
		pl := st.streams[si].mp
		if pl == nil {
			continue
		}
		path := mediaPlaylistPath(r.mi.m.streams[si].id)
		first := pl.MediaSequence
		open := first + len(pl.Segments)
		published := len(pl.Parts)
		msns := []int{first - 1, first, first + 1, open - 2, open - 1, open, open + 1, open + 2, open + 5}
		seenM := map[int]bool{}
		for _, M := range msns {
			if M < 0 || seenM[M] {
				continue
			}
			seenM[M] = true
			parts := []int{-1, 0, published - 1, published, published + 1, 99}
			if idx := M - first; idx >= 0 && idx < len(pl.Segments) && len(pl.Segments[idx].Parts) > 0 {
				parts = append(parts, len(pl.Segments[idx].Parts)-1, len(pl.Segments[idx].Parts))
			}
			seenP := map[int]bool{}
			for _, P := range parts {
				if P < -1 || seenP[P] {
					continue
				}
				seenP[P] = true
				q := fmt.Sprintf("_HLS_msn=%d", M)
				if P >= 0 {
					q += fmt.Sprintf("&_HLS_part=%d", P)
				}
				r.probeOne(path, q, pl, M, P, first, open, st.write)
				r.nProbes++
			}
		}
		// malformed directives: immediate 400
		for _, q := range []string{"_HLS_msn=x", "_HLS_part=1", "_HLS_msn=-1", "_HLS_msn=99999999999999999999999", fmt.Sprintf("_HLS_msn=%d&_HLS_part=x", open), fmt.Sprintf("_HLS_msn=%d&_HLS_part=-1", open),
			// numbers in forms other than plain decimal digits are not numbers of the protocol (a sign, a fraction, a radix prefix, white space)
			fmt.Sprintf("_HLS_msn=%%2B%d", open), fmt.Sprintf("_HLS_msn=%d&_HLS_part=%%2B0", open), fmt.Sprintf("_HLS_msn=%d.0", open), fmt.Sprintf("_HLS_msn=0x%x", open),
			// a part without a sequence number stays unanswerable when other directives or parameters come with it
			"_HLS_part=0&_HLS_skip=YES", "_HLS_part=1&_HLS_skip=v2", "_HLS_skip=YES&_HLS_part=7&key=value", "_HLS_part=0&_HLS_skip=NO", "_HLS_part=0&user=x",
			fmt.Sprintf("_HLS_msn=%%20%d", open), fmt.Sprintf("_HLS_msn=%d&_HLS_part=-0", open), fmt.Sprintf("_HLS_msn=%d&_HLS_part=1e0", open-1), fmt.Sprintf("_HLS_msn=%d&_HLS_part=-18446744073709551615", open-1)} {
			rr, blocked := r.probe(path + "?" + q)
			r.nProbes++
			if blocked || rr.Status != 400 {
				status := 0
				if rr != nil {
					status = rr.Status
				}
				r.add("C06", "malformed-not-rejected", "request %s?%s (unparsable / part without msn) was not answered with an immediate 400 (blocked=%v status=%d) after write %d", path, q, blocked, status, st.write)
			}
		}
		// delta updates against the full playlist of the same instant
		for _, skip := range []string{"YES", "v2"} {
			for _, extra := range []string{"", "&token=a%20b&x=1", "&a=%zz"} {
				rr, blocked := r.probe(path + "?_HLS_skip=" + skip + extra)
				r.nProbes++
				if blocked || rr.Status != 200 {
					r.add("C06", "delta-not-served", "delta update request _HLS_skip=%s was not answered with 200 (blocked=%v) after write %d", skip, blocked, st.write)
					continue
				}
				full, _ := r.probe(path + "?" + strings.TrimPrefix(extra, "&"))
				if full == nil || full.Status != 200 {
					continue
				}
				r.compareDelta(string(full.Body.Bytes()), string(rr.Body.Bytes()), skip+extra, st.write)
			}
		}
	}
}

func (r *e1run) probeOne(path, q string, pl *m3u.Media, M, P, first, open, write int) {
	contained := plContains(pl, M, P)
	unsat := M > open+1 || M <= first
	rr, blocked := r.probe(path + "?" + q)
	desc := func() string { return canon(describePL(pl)) }
	switch {
	case blocked:
		if contained {
			r.add("C06", "blocks-although-published", "request %s?%s blocks although the current playlist already contains its target (write %d); current playlist:\n%s\nops %s", path, q, write, desc(), r.opsString())
		} else if M > open+1 {
			r.add("C06", "blocks-instead-of-400", "request %s?%s blocks although msn is more than two past the last complete segment (write %d)", path, q, write)
		}
		// otherwise blocking is the correct answer: the request is released when the muxer is closed
	case rr.Status == 200:
		mp, _, errs := m3u.Parse(rr.Body.Bytes(), m3u.Options{StrictUnknown: true})
		if mp == nil || len(errs) > 0 {
			r.add("C15", "muxer-playlist-grammar", "response to %s?%s: %v", path, q, errs)
			return
		}
		if !plContains(mp, M, P) {
			r.add("C06", "answered-without-target", "request %s?%s was answered with a playlist that does not contain its target (write %d):\n%s\nops %s", path, q, write, canon(describePL(mp)), r.opsString())
		}
		for _, u := range urisOf(mp) {
			if strings.Contains(u, "_HLS_") {
				r.add("C06", "hls-directive-in-uri", "listed URI carries an _HLS_ directive: %s", canon(u))
			}
		}
	case rr.Status == 400:
		if !unsat {
			r.add("C06", "rejected-satisfiable", "request %s?%s was rejected with 400 although first listed (%d) < msn <= open+1 (%d) (write %d); current playlist:\n%s", path, q, first, open+1, write, desc())
		}
	default:
		r.add("C06", "unexpected-status", "request %s?%s ended with status %d (write %d)", path, q, rr.Status, write)
	}
}

// compareDelta: the delta update is the full playlist with its first SKIPPED-SEGMENTS segments and the EXT-X-MAP
// replaced by one EXT-X-SKIP tag.
func (r *e1run) compareDelta(full, delta, what string, write int) {
	dm, _, derrs := m3u.Parse([]byte(delta), m3u.Options{StrictUnknown: true})
	fm, _, _ := m3u.Parse([]byte(full), m3u.Options{StrictUnknown: true})
	if dm == nil || fm == nil {
		return
	}
	if len(derrs) > 0 {
		r.add("C15", "muxer-playlist-grammar", "delta update (%s): %v\n%s", what, derrs, canon(delta))
	}
	if dm.Skip == nil {
		r.add("C06", "delta-without-skip", "response to _HLS_skip=%s carries no EXT-X-SKIP tag (write %d)", what, write)
		return
	}
	k := *dm.Skip
	if k < 0 || k > len(fm.Segments) {
		r.add("C06", "delta-skip-count", "SKIPPED-SEGMENTS=%d but the full playlist lists %d segments", k, len(fm.Segments))
		return
	}
	// expected text: full playlist minus EXT-X-MAP minus the lines of the first k segments, plus the SKIP tag
	var want []string
	seg := 0
	var pending []string
	for _, l := range strings.Split(strings.TrimRight(full, "\n"), "\n") {
		switch {
		case strings.HasPrefix(l, "#EXT-X-MAP:"):
			continue
		case strings.HasPrefix(l, "#EXTINF:") || strings.HasPrefix(l, "#EXT-X-GAP") || strings.HasPrefix(l, "#EXT-X-PROGRAM-DATE-TIME:") ||
			(strings.HasPrefix(l, "#EXT-X-PART:") && seg < len(fm.Segments)):
			pending = append(pending, l)
		case l != "" && !strings.HasPrefix(l, "#"):
			pending = append(pending, l)
			if seg >= k {
				want = append(want, pending...)
			}
			pending = nil
			seg++
		default:
			want = append(want, pending...)
			pending = nil
			want = append(want, l)
		}
	}
	want = append(want, pending...)
	var got []string
	for _, l := range strings.Split(strings.TrimRight(delta, "\n"), "\n") {
		if strings.HasPrefix(l, "#EXT-X-SKIP:") {
			continue
		}
		got = append(got, l)
	}
	if strings.Join(got, "\n") != strings.Join(want, "\n") {
		r.add("C06", "delta-differs-from-full", "the delta update (_HLS_skip=%s, SKIPPED-SEGMENTS=%d) is not the full playlist of the same instant with the skipped segments and the EXT-X-MAP removed (write %d)\n--- delta\n%s\n--- full\n%s", what, k, write, canon(delta), canon(full))
	}
	// _HLS_ directives are never copied into the listed URIs (whatever else the query string holds)
	if strings.Contains(what, "&") {
		for _, u := range urisOf(dm) {
			if strings.Contains(u, "_HLS_") {
				r.add("C06", "hls-directive-in-uri", "listed URI carries an _HLS_ directive: %s", canon(u))
			}
		}
	}
}
