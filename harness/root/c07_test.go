//go:build verif

package gohlslib

// C07: Close unblocks every request and releases all storage (engine E2).

import (
	"fmt"
	"os"
	"strings"
	"testing/synctest"

	"github.com/bluenviron/gohlslib/v2/internal/zzverif/vh"
	"github.com/bluenviron/gohlslib/v2/internal/zzverif/vsched"
)

func init() {
	verifProps["C07"] = vh.Prop{
		List: func(tier string) []vh.Scenario {
			return append(msListScenarios(c07Scens(tier)), e1List(c07FaultScens(tier))...)
		},
		Run: func(c *vh.Ctx) {
			if strings.HasPrefix(c.Scenario, "C07/") {
				e1Run(c, c07FaultScens(c.Tier)) // sequential: Close after a Write that failed inside a rotation
				return
			}
			runMuxSched(c, c07Scens(c.Tier), c07Check)
		},
	}
	e1Bubble["C07"] = true
	e1Hooks["C07"] = func(r *e1run) { r.finalHook = c07CloseAfterFault }
}

// c07FaultScens: another point of the muxer's life at which Close may be called - after a Write that failed in the middle
// of a segment rotation (the file of the next segment could not be created), at every rotation index.
func c07FaultScens(tier string) []e1Scen {
	var out []e1Scen
	nrot := 6
	if tier == "thorough" {
		nrot = 14
	}
	for _, variant := range []string{"mpegts", "fmp4", "ll"} {
		for _, tracks := range [][]string{{"h264"}, {"h264", "aac44"}} {
			cfg := mcfg(variant, true, 3, tracks...)
			if variant == "ll" {
				cfg.SegCount = 7
			}
			word := []sym{{T: 0, D: "q", K: "R"}, {T: 0, D: "q", K: "n"}, {T: 0, D: "q", K: "n"}, {T: 0, D: "q", K: "n"}}
			for fa := 1; fa <= nrot; fa++ {
				// the word stops right after the failed write: Close follows
				out = append(out, e1Scen{Prop: "C07", Cfg: cfg, Alpha: word, Mode: "fault", Len: 4*fa + 1, FaultAt: fa, Name: fmt.Sprintf("close-after-rotation-fault-%d", fa)})
				// ... or after two more writes
				out = append(out, e1Scen{Prop: "C07", Cfg: cfg, Alpha: word, Mode: "fault", Len: 4*fa + 3, FaultAt: fa, Name: fmt.Sprintf("close-after-rotation-fault-%d+2", fa)})
			}
		}
	}
	// ... and after the very first Write failed half-way: the first segment file of the first stream was created, that of
	// the second (or third) stream could not be
	for _, variant := range []string{"fmp4", "ll"} {
		for _, tracks := range [][]string{{"h264", "aac44"}, {"aac44", "h264"}, {"h264", "aac44", "opus"}} {
			cfg := mcfg(variant, true, 3, tracks...)
			if variant == "ll" {
				cfg.SegCount = 7
			}
			word := []sym{{T: cfg.leading(), D: "q", K: "R"}, {T: cfg.leading(), D: "q", K: "n"}, {T: cfg.leading(), D: "q", K: "n"}, {T: cfg.leading(), D: "q", K: "n"}}
			for blocked := 1; blocked < len(tracks); blocked++ {
				out = append(out, e1Scen{Prop: "C07", Cfg: cfg, Alpha: word, Mode: "firstfault", Len: 4, FaultAt: blocked, Name: fmt.Sprintf("close-after-first-segment-fault-stream%d", blocked)})
			}
		}
	}
	// ... and after a Write that failed because an init segment could not be built from the parameter sets it carried (the
	// segment completed by that rotation has been finalised already)
	for _, variant := range []string{"fmp4", "ll"} {
		for _, tracks := range [][]string{{"h264"}, {"h265"}, {"av1"}, {"av1", "aac44"}, {"aac44", "h265"}} {
			cfg := mcfg(variant, true, 3, tracks...)
			if variant == "ll" {
				cfg.SegCount = 7
			}
			word := []sym{{T: cfg.leading(), D: "q", K: "R"}, {T: cfg.leading(), D: "q", K: "n"}, {T: cfg.leading(), D: "q", K: "n"}, {T: cfg.leading(), D: "q", K: "n"}}
			for _, fa := range []int{2, 3, 5} {
				out = append(out, e1Scen{Prop: "C07", Cfg: cfg, Alpha: word, Mode: "paramfault", Len: 4 * (fa + 3), FaultAt: fa, Name: fmt.Sprintf("close-after-bad-parameter-sets-%d", fa)})
			}
		}
	}
	// ... and (MPEG-TS) after a Write that failed because the finished segment could not be flushed to a full device, or with
	// an open segment that cannot be flushed any more when Close is called
	for _, tracks := range [][]string{{"h264"}, {"h264", "aac44"}} {
		cfg := mcfg("mpegts", true, 3, tracks...)
		word := []sym{{T: 0, D: "q", K: "R"}, {T: 0, D: "q", K: "n"}, {T: 0, D: "q", K: "n"}, {T: 0, D: "q", K: "n"}}
		for _, fa := range []int{1, 2, 4} {
			out = append(out, e1Scen{Prop: "C07", Cfg: cfg, Alpha: word, Mode: "flushfault", Len: 4*fa + 1, FaultAt: fa, Name: fmt.Sprintf("close-after-flush-fault-%d", fa)})
			out = append(out, e1Scen{Prop: "C07", Cfg: cfg, Alpha: word, Mode: "flushfault", Len: 4*fa + 3, FaultAt: fa, Name: fmt.Sprintf("close-after-flush-fault-%d+2", fa)})
		}
		for _, n := range []int{1, 2, 6, 11} {
			out = append(out, e1Scen{Prop: "C07", Cfg: cfg, Alpha: word, Mode: "flushfault", Len: n, FaultAt: 0, Name: fmt.Sprintf("close-with-unflushable-segment-after-%d", n)})
		}
	}
	// ... and after a Write that failed in the middle of a part rotation (Low-Latency: the open part could not be written
	// to storage), at several part indices, RAM and Directory storage
	for _, disk := range []bool{false, true} {
		for _, tracks := range [][]string{{"h264"}, {"h264", "aac44"}} {
			cfg := mcfg("ll", disk, 7, tracks...)
			word := []sym{{T: 0, D: "q", K: "R"}, {T: 0, D: "q", K: "n"}, {T: 0, D: "q", K: "n"}, {T: 0, D: "q", K: "n"}}
			for _, fa := range []int{1, 2, 5, 9, 14} {
				out = append(out, e1Scen{Prop: "C07", Cfg: cfg, Alpha: word, Mode: "partfault", Len: fa + 3, FaultAt: fa, Name: fmt.Sprintf("close-after-part-fault-%d", fa)})
			}
		}
	}
	return out
}

// c07CloseAfterFault is the final step of a fault word: a request blocks inside the muxer (Low-Latency), Close is called,
// and the clauses of C07 are checked sequentially.
func c07CloseAfterFault(r *e1run) {
	m := r.mi.m
	add := func(sig, format string, a ...any) {
		r.add("C07", sig, format+"; ops %s", append(a, r.opsString())...)
	}
	if !m.mutex.TryLock() {
		// nobody is inside the muxer (the failed Write has returned): any request and Close itself would block forever
		r.closed = true
		add("lock-leak", "the muxer mutex is held after the failed Write returned: requests and Close would block forever")
		return
	}
	m.mutex.Unlock()
	// a blocking reload far enough ahead to wait (only when the leading stream can serve playlists at all)
	var pending *respRec
	pendingDone := false
	havePending := false
	if r.cfg.Variant == "ll" && m.leadingStream.hasContent() && m.leadingStream.nextSegment != nil {
		path := fmt.Sprintf("%s?_HLS_msn=%d", mediaPlaylistPath(m.leadingStream.id), m.leadingStream.nextSegmentID+1)
		havePending = true
		go func() {
			pending = r.safeGet(path)
			pendingDone = true
		}()
		synctest.Wait()
		if pendingDone {
			havePending = false // answered at once: nothing was pending
		}
	}
	func() {
		defer func() {
			if p := recover(); p != nil {
				add("close-panics", "Close panics after a Write that failed in a rotation: %v", p)
			}
		}()
		r.closed = true
		m.Close()
	}()
	if !m.mutex.TryLock() {
		add("lock-leak", "the muxer mutex is still held after Close returned")
		return
	}
	m.mutex.Unlock()
	if havePending {
		synctest.Wait()
		if !pendingDone {
			add("request-stuck-after-close/BR", "a blocking reload that was pending when Close was called never completes")
		} else if pending.Status == 200 {
			add("waiter-got-200-after-close/BR", "a blocking reload that was pending when Close was called completed with 200")
		}
	}
	for _, path := range []string{"index.m3u8", mediaPlaylistPath(m.leadingStream.id)} {
		rr, blocked := r.probe(path)
		if blocked {
			add("request-after-close-blocks", "request %s issued after Close blocks", path)
		} else if rr.Status == 200 {
			add("request-after-close-200", "request %s issued after Close is answered with 200", path)
		}
	}
	if ents, err := os.ReadDir(r.mi.dir); err == nil && len(ents) > 0 {
		var names []string
		for _, e := range ents {
			names = append(names, e.Name())
		}
		add("files-left", "files left in Directory after Close: %s", canon(strings.Join(names, " ")))
	}
}

var cfgLL = muxCfg{Variant: "ll", Tracks: []trackSpec{{Kind: "h264"}}, SegCount: 7, SegMinMS: 1000, PartMS: 500}
var cfgLLDisk = muxCfg{Variant: "ll", Tracks: []trackSpec{{Kind: "h264"}}, SegCount: 7, SegMinMS: 1000, PartMS: 500, Disk: true}
var cfgLLAV = muxCfg{Variant: "ll", Tracks: []trackSpec{{Kind: "h264"}, {Kind: "aac44", Name: "eng", Lang: "en"}}, SegCount: 7, SegMinMS: 1000, PartMS: 500}
var cfgFMP4 = muxCfg{Variant: "fmp4", Tracks: []trackSpec{{Kind: "h264"}}, SegCount: 3, SegMinMS: 1000}
var cfgFMP4Disk = muxCfg{Variant: "fmp4", Tracks: []trackSpec{{Kind: "h264"}, {Kind: "aac44"}}, SegCount: 3, SegMinMS: 1000, Disk: true}
var cfgTS = muxCfg{Variant: "mpegts", Tracks: []trackSpec{{Kind: "h264"}, {Kind: "aac44"}}, SegCount: 3, SegMinMS: 1000}
var cfgTSDisk = muxCfg{Variant: "mpegts", Tracks: []trackSpec{{Kind: "h264"}}, SegCount: 3, SegMinMS: 1000, Disk: true}

// multisets of size <= n over kinds
func multisets(kinds []string, n int) [][]string {
	out := [][]string{{}}
	var rec func(start int, cur []string)
	rec = func(start int, cur []string) {
		if len(cur) == n {
			return
		}
		for i := start; i < len(kinds); i++ {
			nx := append(append([]string{}, cur...), kinds[i])
			out = append(out, nx)
			rec(i, nx)
		}
	}
	rec(0, nil)
	return out
}

func c07Scens(tier string) []msScen {
	var out []msScen
	bound, nreq := 2, 2
	if tier == "thorough" {
		nreq = 3 // up to three pending requests, all scenarios the quick tier thins out, deeper bounds for 0-1 requests
	}
	type base struct {
		cfg   muxCfg
		warms []int
		kinds func(warm int) []string
	}
	llKinds := func(warm int) []string {
		if warm < 5 {
			return []string{"IDX", "PL"} // before the playlist is available only these can wait
		}
		return []string{"IDX", "PL", "BR", "BRNEXT", "PH"}
	}
	llavKinds := func(warm int) []string {
		if warm < 5 {
			return []string{"IDX", "PLA"}
		}
		return []string{"PLA", "BR", "BRA", "PH"}
	}
	plainKinds := func(warm int) []string { return []string{"IDX", "PL"} }
	// the audio track listed before the video track: the first stream is then a rendition, not the leading stream
	cfgLLAudioFirst := muxCfg{Variant: "ll", Tracks: []trackSpec{{Kind: "aac44", Name: "eng", Lang: "en"}, {Kind: "h264"}}, SegCount: 7, SegMinMS: 1000, PartMS: 500}
	cfgFMP4AudioFirstDisk := muxCfg{Variant: "fmp4", Tracks: []trackSpec{{Kind: "aac44"}, {Kind: "h264"}}, SegCount: 3, SegMinMS: 1000, Disk: true}
	audioFirstKinds := func(warm int) []string { return []string{"PL0", "PL"} }
	bases := []base{
		{cfgLL, []int{0, 2, 6, 7, 37}, llKinds},
		{cfgLLDisk, []int{0, 6, 37}, llKinds},
		{cfgLLAV, []int{0, 6}, llavKinds},
		{cfgFMP4, []int{0, 2, 5, 10, 18}, plainKinds},
		{cfgFMP4Disk, []int{2, 10, 18}, plainKinds},
		{cfgTS, []int{0, 2, 5}, plainKinds},
		{cfgTSDisk, []int{0, 2, 10, 22}, plainKinds},
		{cfgLLAudioFirst, []int{0, 6}, audioFirstKinds},
		{cfgFMP4AudioFirstDisk, []int{2, 10}, audioFirstKinds},
	}
	for _, b := range bases {
		for _, warm := range b.warms {
			for _, writes := range []int{0, 1, 3} {
				// (warm 2, 3 writes on the plain variants: the first content appears during the concurrent phase, right before Close)
				if tier != "thorough" && writes == 3 && warm != 6 && !(warm == 2 && b.cfg.Variant != "ll" && !b.cfg.Disk) {
					continue
				}
				for _, ms := range multisets(b.kinds(warm), nreq) {
					if tier != "thorough" && len(ms) == 2 && (writes == 3 || (writes == 1 && warm != 6 && warm != 0) ||
						warm == 7 || warm == 37 || (b.cfg.Disk && b.cfg.Variant == "ll" && writes == 1)) {
						continue
					}
					if tier == "thorough" && len(ms) == 3 && !(writes == 1 && (warm == 6 || warm == 0 || warm == 2)) {
						continue // three pending requests only at the points where content or a part appears
					}
					var reqs [][]string
					for _, k := range ms {
						reqs = append(reqs, []string{k})
					}
					bd := bound
					if len(reqs) <= 1 {
						bd = bound + 1
						if tier == "thorough" {
							bd = bound + 2
						}
						if len(reqs) == 0 {
							bd = -1
						}
					}
					out = append(out, msScen{Prop: "C07", Cfg: b.cfg, Warm: warm, Writes: writes, Close: true, Reqs: reqs, Bound: bd, Shards: 1})
				}
			}
		}
	}
	// a client that stops taking a response body while the writer carries on and closes: Close still returns, the other
	// requests are released, and the stalled download completes once the client takes the rest
	type stalled struct {
		cfg   muxCfg
		warms []int
		reqs  [][][]string
	}
	for _, sb := range []stalled{
		{cfgLL, []int{6, 9}, [][][]string{{{"PH!stall"}}, {{"PH!stall"}, {"BR"}}, {{"PART!stall"}, {"PH"}}, {{"SEG!stall"}, {"PL"}}, {{"PL!stall"}, {"BR"}},
			// blocking reloads whose answer the client is slow to take: one that is satisfied at once, one that has to wait
			{{"BRPUB!stall"}, {"BR"}}, {{"BR!stall"}, {"PH"}}, {{"BRPUB!stall"}, {"PL"}}}},
		{cfgLLDisk, []int{9}, [][][]string{{{"PH!stall"}}, {{"PART!stall"}, {"BR"}}, {{"SEG!stall"}}}},
		{cfgFMP4Disk, []int{10}, [][][]string{{{"SEG!stall"}}, {{"INIT!stall"}, {"PL"}}}},
		{cfgTSDisk, []int{10}, [][][]string{{{"SEG!stall"}, {"PL"}}}},
	} {
		for _, warm := range sb.warms {
			for _, writes := range []int{1, 3} {
				if tier != "thorough" && writes == 3 && warm != sb.warms[0] {
					continue
				}
				for _, reqs := range sb.reqs {
					out = append(out, msScen{Prop: "C07", Cfg: sb.cfg, Warm: warm, Writes: writes, Close: true, Reqs: reqs, Bound: bound, Shards: 1})
				}
			}
		}
	}
	return out
}

// (the part and the segment are asked for twice: a request that fails must not leave anything locked for the next one)
var c07Epilogue = []string{"IDX", "PL", "PL0", "BR", "PH", "SEG", "PART", "INIT", "UNK", "PART", "SEG"}

func c07Check(st *msState, s *vsched.Sched, tr *vsched.Trace) (string, []vsched.Viol) {
	var viols []vsched.Viol
	add := func(sig, msg string) { viols = append(viols, vsched.Viol{Sig: sig, Msg: msg}) }
	if tr.Livelock != "" {
		add("livelock", tr.Livelock)
	}
	for _, p := range tr.Panics {
		add("panic", p)
	}
	if st.writeErr != nil {
		add("write-error", st.writeErr.Error())
	}
	stuckThreads := map[string]string{}
	for _, t := range s.Threads() {
		if !t.Done() {
			stuckThreads[t.Name] = t.WaitingFor() + " at " + t.Where()
		}
	}
	// 1. every thread finishes: a request blocked in the muxer after Close returned is a violation
	for _, l := range st.logs {
		if !l.Finished {
			if d, ok := stuckThreads[l.Thread]; ok {
				add(fmt.Sprintf("request-stuck-after-close/%s/%s", l.Sym, stuckClass(d)),
					fmt.Sprintf("request %s (%s) never completes although Close has returned=%v: waits for %s\n%s", l.Sym, canon(l.URL), st.closed, d, tr.Deadlock))
			}
		}
	}
	if d, ok := stuckThreads["writer"]; ok {
		add("close-stuck/"+stuckClass(d), "writer blocked (in Close="+fmt.Sprint(st.closeStart)+"): "+d)
	}
	// 2. a request that was waiting inside the muxer when Close started must not end with 200
	for _, l := range st.logs {
		if l.WaitingAtClose && l.Finished && l.Status == 200 {
			add("waiter-got-200-after-close/"+l.Sym, fmt.Sprintf("request %s was blocked when Close was called and completed with 200", l.Sym))
		}
	}
	// 3. no lock left held
	if len(viols) == 0 {
		for _, h := range s.HeldLocks() {
			add("lock-leak", "lock still held at the end of the execution: "+h)
		}
	}
	// 4. later requests return promptly (sequential epilogue; blocking is impossible without another thread)
	if len(viols) == 0 {
		st.msEpilogue(c07Epilogue)
		if st.epiPanic != "" {
			last := st.epilogue[len(st.epilogue)-1]
			add("request-after-close-blocks/"+last.Sym, fmt.Sprintf("request %s (%s) issued after Close would block forever: %s", last.Sym, canon(last.URL), st.epiPanic))
		}
		for _, h := range s.HeldLocks() {
			add("lock-leak", "lock still held after the epilogue requests: "+h)
		}
	}
	// 5. storage released
	st.cleanup()
	if len(st.filesLeft) > 0 {
		add("files-left", fmt.Sprintf("files left in Directory after Close: %s", canon(strings.Join(st.filesLeft, " "))))
	}
	var ob strings.Builder
	for _, l := range st.logs {
		fmt.Fprintf(&ob, "%s:%d@%d ", l.Sym, l.Status, l.Done)
	}
	for _, l := range st.epilogue {
		fmt.Fprintf(&ob, "e%s:%d ", l.Sym, l.Status)
	}
	return ob.String(), viols
}
