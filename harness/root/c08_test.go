//go:build verif

package gohlslib

// C08: one writer + concurrent HTTP readers: no panic, consistent snapshots, monotone views (engine E2);
// the data-race clause is covered by the free-running -race pass over the same scenario bodies.

import (
	"bytes"
	"fmt"
	"net/url"
	"os"
	"strconv"
	"strings"

	"github.com/bluenviron/gohlslib/v2/internal/zzverif/m3u"
	"github.com/bluenviron/gohlslib/v2/internal/zzverif/vh"
	"github.com/bluenviron/gohlslib/v2/internal/zzverif/vsched"
	"github.com/bluenviron/mediacommon/v2/pkg/formats/fmp4"
	"github.com/bluenviron/mediacommon/v2/pkg/formats/fmp4/seekablebuffer"
)

func init() {
	verifProps["C08"] = vh.Prop{
		List: func(tier string) []vh.Scenario { return msListScenarios(c08Scens(tier)) },
		Run: func(c *vh.Ctx) {
			respSlowClient = true // other threads may run between a handler's WriteHeader and its Write
			runMuxSched(c, c08Scens(c.Tier), c08Check)
		},
	}
}

var c08Scripts = [][]string{
	{"PL", "FOLLOWSEG"}, {"PL", "FOLLOWPART"}, {"PL", "FOLLOWOLD"}, {"PL", "FOLLOWINIT"}, {"IDX", "PL"}, {"BR", "FOLLOWHINT"},
	{"DELTA", "PL"}, {"PART", "SEG"}, {"INIT", "OLD"}, {"PH", "PL"}, {"UNK", "IDX"}, {"PLA", "FOLLOWSEG"}, {"PL", "PL"}, {"PLQ", "PL"},
}

func c08Scens(tier string) []msScen {
	var out []msScen
	bound := 2 // thorough: more bases / warm-up points / reader pairs at the same bound, one more deviation for single readers
	type base struct {
		cfg   muxCfg
		warms []int
	}
	cfgLLp := cfgLL
	cfgLLDiskp := cfgLLDisk
	bases := []base{
		{cfgLLp, []int{6, 9, 29}},     // part about to be published; segment about to complete; window about to slide (gaps leaving)
		{cfgLLDiskp, []int{6, 9, 29}}, // idem with files being finalised and removed
		{cfgLLAV, []int{9}},
		{cfgFMP4Disk, []int{9, 13}},
		{cfgTSDisk, []int{5, 13}},
		{cfgFMP4, []int{9}},
	}
	if tier != "thorough" {
		bases = []base{
			{cfgLLp, []int{6, 9}},
			{cfgLLDiskp, []int{6, 9}},
			{cfgLLAV, []int{9}},
			{cfgFMP4Disk, []int{17}}, // the next rotation slides the window and removes a file
			{cfgTSDisk, []int{17}},
		}
	}
	// init regeneration under way: the writer switches the parameter set on a GOP boundary and completes the first
	// segment encoded with the new set (frame 12) while a reader has an init request in flight
	for _, cfg := range []muxCfg{cfgFMP4, cfgFMP4Disk, cfgLLp} {
		for _, rs := range [][]string{{"INIT", "OLD"}, {"PL", "FOLLOWINIT"}, {"INIT", "INIT"}} {
			out = append(out, msScen{Prop: "C08", Cfg: cfg, Warm: 8, Writes: 5, Params: 1, Reqs: [][]string{rs}, Bound: bound, Shards: 1})
		}
	}
	// readers that arrive before the stream has content: they wait, and wake-ups that bring no content yet (a part
	// rotation inside the first segment, the first of the two segments the fMP4 variant needs) must not answer them
	for _, eb := range []base{{cfgLLp, []int{0, 1}}, {cfgLLDiskp, []int{1}}, {cfgFMP4, []int{0, 3, 5}}, {cfgTSDisk, []int{0, 2}}} {
		for _, warm := range eb.warms {
			for _, rs := range [][]string{{"PL", "PL"}, {"IDX", "PL"}, {"PL", "FOLLOWSEG"}} {
				out = append(out, msScen{Prop: "C08", Cfg: eb.cfg, Warm: warm, Writes: 5, Reqs: [][]string{rs}, Bound: bound, Shards: 1})
			}
			if tier == "thorough" {
				out = append(out, msScen{Prop: "C08", Cfg: eb.cfg, Warm: warm, Writes: 5, Reqs: [][]string{{"PL", "PL"}, {"IDX", "PL"}}, Bound: bound, Shards: 1})
			}
		}
	}
	// the audio track listed before the video track (the rendition is then the first stream of the muxer): readers of the
	// rendition's playlist before there is content, around the first rotations and around a rotation that makes the target
	// duration grow
	cfgLLAF := muxCfg{Variant: "ll", Tracks: []trackSpec{{Kind: "aac44", Name: "eng", Lang: "en"}, {Kind: "h264"}}, SegCount: 7, SegMinMS: 1000, PartMS: 500}
	cfgFMP4AF := muxCfg{Variant: "fmp4", Tracks: []trackSpec{{Kind: "aac44"}, {Kind: "h264"}}, SegCount: 3, SegMinMS: 1000}
	for _, eb := range []base{{cfgLLAF, []int{0, 1, 5}}, {cfgFMP4AF, []int{0, 5}}} {
		for _, warm := range eb.warms {
			for _, rs := range [][]string{{"PLA", "PLA"}, {"PL", "PLA"}, {"PLA", "PL"}} {
				out = append(out, msScen{Prop: "C08", Cfg: eb.cfg, Warm: warm, Writes: 5, Reqs: [][]string{rs}, Bound: bound, Shards: 1})
			}
		}
		out = append(out, msScen{Prop: "C08", Cfg: eb.cfg, Warm: 9, Writes: 5, LongSeg: 1, Reqs: [][]string{{"PLA", "PLA"}}, Bound: bound, Shards: 1})
		out = append(out, msScen{Prop: "C08", Cfg: eb.cfg, Warm: 9, Writes: 5, LongSeg: 1, Reqs: [][]string{{"PLA"}, {"PL"}}, Bound: bound, Shards: 1})
	}
	// a segment of zero duration in the window (two key frames at the same instant, the second with new parameter sets):
	// requests are pure readers - what a playlist request gets does not depend on which requests were served before it
	for _, cfg := range []muxCfg{cfgFMP4, cfgFMP4Disk, cfgLLp, cfgTS} {
		warm := 8
		if cfg.Variant == "ll" {
			warm = 8 // (frames of 250 ms: a key frame every 4)
		}
		for _, rs := range [][][]string{{{"PL", "IDX", "PL"}}, {{"IDX", "PL"}, {"PL"}}, {{"IDX"}, {"IDX", "PL"}}} {
			out = append(out, msScen{Prop: "C08", Cfg: cfg, Warm: warm, Writes: 6, Zero: 1, Reqs: rs, Bound: bound, Shards: 1})
		}
	}
	for _, b := range bases {
		ll := b.cfg.Variant == "ll"
		for _, warm := range b.warms {
			for _, wr := range []struct{ writes, params, long int }{{2, 0, 0}, {4, 0, 0}, {3, 2, 0}, {5, 0, 1}} {
				if tier != "thorough" && wr.writes == 4 && warm != b.warms[len(b.warms)-1] {
					continue
				}
				var scripts [][]string
				for _, s := range c08Scripts {
					usable := true
					for _, sym := range s {
						if !ll && (sym == "BR" || sym == "PH" || sym == "DELTA" || sym == "PART" || sym == "FOLLOWPART" || sym == "FOLLOWHINT") {
							usable = false
						}
						if b.cfg.Variant == "mpegts" && (sym == "INIT" || sym == "FOLLOWINIT") {
							usable = false
						}
						if sym == "PLA" && len(b.cfg.Tracks) < 2 {
							usable = false
						}
					}
					if usable {
						scripts = append(scripts, s)
					}
				}
				for i, s1 := range scripts {
					b1 := bound
					if tier == "thorough" && wr.writes <= 3 {
						b1 = bound + 1 // one more deviation for a single reader against the short writer scripts
					}
					out = append(out, msScen{Prop: "C08", Cfg: b.cfg, Warm: warm, Writes: wr.writes, Params: wr.params, LongSeg: wr.long, Close: wr.writes == 4, Reqs: [][]string{s1}, Bound: b1, Shards: 1})
					// two readers
					for j, s2 := range scripts {
						if j < i {
							continue
						}
						if tier != "thorough" && !((i*7+j)%23 == 0 && wr.writes == 3) {
							continue
						}
						if tier == "thorough" && !((i*7+j)%9 == 0 && (wr.writes == 3 || wr.writes == 5)) {
							continue
						}
						out = append(out, msScen{Prop: "C08", Cfg: b.cfg, Warm: warm, Writes: wr.writes, Params: wr.params, LongSeg: wr.long, Reqs: [][]string{s1, s2}, Bound: bound, Shards: 1})
					}
				}
			}
		}
	}
	return out
}

// c08PlaylistInvariants checks the single-playlist invariants (those of C03-C05 that need no knowledge of the written stream).
func c08PlaylistInvariants(cfg muxCfg, body []byte) []string {
	var out []string
	mp, _, errs := m3u.Parse(body, m3u.Options{StrictUnknown: true})
	if mp == nil {
		return []string{"not a media playlist"}
	}
	for _, e := range errs {
		out = append(out, "grammar: "+e)
	}
	if len(mp.Segments) == 0 {
		out = append(out, "no segment listed")
	}
	if len(mp.Segments) > cfg.SegCount {
		out = append(out, fmt.Sprintf("%d segments listed, SegmentCount is %d", len(mp.Segments), cfg.SegCount))
	}
	skip := 0
	if mp.Skip != nil {
		skip = *mp.Skip
	}
	var partNums []int
	var pt int64 = -1
	if mp.PartTargetNS != nil {
		pt = *mp.PartTargetNS
	}
	partCheck := func(p m3u.Part) {
		if nm := partNumRe.FindStringSubmatch(stripQuery(p.URI)); nm != nil {
			n, _ := strconv.Atoi(nm[1])
			partNums = append(partNums, n)
		}
		if pt >= 0 && p.DurationNS > pt+5_000 {
			out = append(out, fmt.Sprintf("part %s lasts %d ns, PART-TARGET is %d ns", canon(p.URI), p.DurationNS, pt))
		}
	}
	for i, sg := range mp.Segments {
		msn := mp.MediaSequence + skip + i
		if roundHalfUp(sg.DurationNS) > mp.TargetDuration {
			out = append(out, fmt.Sprintf("segment %d has EXTINF %s but EXT-X-TARGETDURATION is %d", msn, sg.DurationText, mp.TargetDuration))
		}
		if !sg.Gap {
			if nm := segNumRe.FindStringSubmatch(stripQuery(sg.URI)); nm == nil || nm[1] != strconv.Itoa(msn) {
				out = append(out, fmt.Sprintf("segment %s listed at media sequence number %d", canon(sg.URI), msn))
			}
		}
		if len(sg.Parts) > 0 && len(mp.Segments)-i > 2 {
			out = append(out, fmt.Sprintf("segment %d (position %d of %d) lists parts", msn, i, len(mp.Segments)))
		}
		var sum int64
		for _, p := range sg.Parts {
			partCheck(p)
			sum += p.DurationNS
		}
		if len(sg.Parts) > 0 && abs64(sum-sg.DurationNS) > int64(len(sg.Parts)+1)*5_000 {
			out = append(out, fmt.Sprintf("parts of segment %d add up to %d ns, EXTINF is %s", msn, sum, sg.DurationText))
		}
	}
	for _, p := range mp.Parts {
		partCheck(p)
	}
	for i := 1; i < len(partNums); i++ {
		if partNums[i] != partNums[i-1]+1 {
			out = append(out, fmt.Sprintf("part numbers not consecutive: %v", partNums))
			break
		}
	}
	if cfg.Variant == "ll" {
		if len(mp.PreloadHints) != 1 {
			out = append(out, "no preload hint")
		} else if nm := partNumRe.FindStringSubmatch(stripQuery(mp.PreloadHints[0].URI)); nm != nil && len(partNums) > 0 {
			if n, _ := strconv.Atoi(nm[1]); n != partNums[len(partNums)-1]+1 {
				out = append(out, fmt.Sprintf("preload hint names part %d, last listed part is %d", n, partNums[len(partNums)-1]))
			}
		}
		if mp.ServerControl == nil || mp.ServerControl.PartHoldBackNS == nil || pt < 0 || *mp.ServerControl.PartHoldBackNS < 2*pt {
			out = append(out, "PART-HOLD-BACK missing or less than twice PART-TARGET")
		}
	}
	return out
}

func c08Check(st *msState, s *vsched.Sched, tr *vsched.Trace) (string, []vsched.Viol) {
	var viols []vsched.Viol
	add := func(sig, msg string) { viols = append(viols, vsched.Viol{Sig: sig, Msg: msg}) }
	for _, p := range tr.Panics {
		// signature: panic site (first library frame)
		add("panic:"+firstLibFrame(p), p)
	}
	if st.writeErr != nil {
		add("write-error", st.writeErr.Error())
	}
	if tr.Livelock != "" {
		add("livelock", tr.Livelock)
	}
	for _, t := range s.Threads() {
		if !t.Done() {
			// a reader may legitimately still wait (blocking reload / preload hint for something not yet published)
			if t.Name == "writer" {
				add("writer-stuck", "writer blocked: "+t.WaitingFor()+" at "+t.Where())
			}
		}
	}
	// no thread is inside the muxer any more (finished, or parked on a condition variable without the lock): a lock that
	// is still held was left behind by a handler or by the writer
	for _, h := range s.HeldLocks() {
		add("lock-leak", "lock still held at the end of the execution: "+h)
	}
	bodies := map[string][]byte{} // media bytes per URI: immutable within the execution
	var ob strings.Builder
	perThread := map[string][]*msReqLog{}
	for _, l := range st.logs {
		perThread[l.Thread] = append(perThread[l.Thread], l)
		if !l.Finished {
			fmt.Fprintf(&ob, "%s:wait ", l.Sym)
			// (a playlist request legitimately waits as long as the stream has no content)
			waitsForContent := (l.Sym == "PL" || l.Sym == "PLQ" || l.Sym == "PLA" || l.Sym == "IDX" || l.Sym == "DELTA") && !st.leadingStream().hasContent()
			if !(l.Sym == "BR" || l.Sym == "PH" || strings.HasPrefix(l.Sym, "FOLLOWHINT")) && !st.closed && !waitsForContent {
				if _, stuck := findThread(s, l.Thread); stuck {
					add("reader-stuck/"+l.Sym, fmt.Sprintf("request %s (%s) never completes", l.Sym, canon(l.URL)))
				}
			}
			continue
		}
		fmt.Fprintf(&ob, "%s:%d ", l.Sym, l.Status)
		if os.Getenv("VERIF_TRACE") != "" {
			fmt.Fprintf(&ob, "[%s @%d-%d] ", canon(l.URL), l.Issued, l.Done)
		}
		if l.Status != 200 {
			continue
		}
		path := stripQuery(l.URL)
		switch {
		case strings.HasSuffix(path, "index.m3u8"):
			_, mv, errs := m3u.Parse(l.Body, m3u.Options{StrictUnknown: true})
			if mv == nil || len(errs) > 0 || len(mv.Variants) != 1 {
				add("inconsistent-multivariant", fmt.Sprintf("index.m3u8: %v\n%s", errs, canon(string(l.Body))))
			}
		case strings.HasSuffix(path, ".m3u8"):
			// the view is the one this request asked for, whatever other readers ask at the same time: a Playlist Delta
			// Update (EXT-X-SKIP in place of the EXT-X-MAP) exactly when the request carried _HLS_skip
			if st.sc.Cfg.Variant != "mpegts" {
				wantDelta := strings.Contains(l.URL, "_HLS_skip=")
				hasSkip, hasMap := bytes.Contains(l.Body, []byte("#EXT-X-SKIP:")), bytes.Contains(l.Body, []byte("#EXT-X-MAP:"))
				if wantDelta != hasSkip || wantDelta == hasMap {
					add("inconsistent-snapshot/view-of-another-request", fmt.Sprintf("playlist served to %s for %s (%s): delta update requested=%v, EXT-X-SKIP present=%v, EXT-X-MAP present=%v\n%s", l.Thread, l.Sym, canon(l.URL), wantDelta, hasSkip, hasMap, canon(string(l.Body))))
				}
			}
			// ... and the listed URIs carry this request's own query string (minus the _HLS_ directives), nobody else's
			if mp, _, _ := m3u.Parse(l.Body, m3u.Options{}); mp != nil {
				wantQ := ""
				if i := strings.IndexByte(l.URL, '?'); i >= 0 {
					var keep []string
					for _, kv := range strings.Split(l.URL[i+1:], "&") {
						if !strings.HasPrefix(kv, "_HLS_") {
							keep = append(keep, kv)
						}
					}
					wantQ = strings.Join(keep, "&")
				}
				var uris []string
				if mp.HasMap {
					uris = append(uris, mp.MapURI)
				}
				for _, sg := range mp.Segments {
					if !sg.Gap {
						uris = append(uris, sg.URI)
					}
					for _, pt := range sg.Parts {
						uris = append(uris, pt.URI)
					}
				}
				for _, pt := range mp.Parts {
					uris = append(uris, pt.URI)
				}
				for _, ph := range mp.PreloadHints {
					uris = append(uris, ph.URI)
				}
				for _, u := range uris {
					q := ""
					if i := strings.IndexByte(u, '?'); i >= 0 {
						q = u[i+1:]
					}
					qa, _ := url.ParseQuery(q)
					qb, _ := url.ParseQuery(wantQ)
					if qa.Encode() != qb.Encode() { // the same pairs, however they are escaped
						add("inconsistent-snapshot/query-of-another-request", fmt.Sprintf("playlist served to %s for %s (%s) lists %s: query %q, this request's is %q", l.Thread, l.Sym, canon(l.URL), canon(u), q, wantQ))
						break
					}
				}
			}
			if errs := c08PlaylistInvariants(st.sc.Cfg, l.Body); len(errs) > 0 {
				add("inconsistent-snapshot/"+classify(errs[0]), fmt.Sprintf("playlist served to %s for %s is not a consistent snapshot: %s\n%s", l.Thread, l.Sym, strings.Join(errs, "; "), canon(string(l.Body))))
			}
		default:
			key := canon(path)
			if strings.HasSuffix(path, "_init.mp4") && st.sc.Params != 0 {
				// the init segment keeps its URI and legitimately changes once the first segment encoded with the new
				// parameter set is complete (C02): only its integrity is checked below
				key = fmt.Sprintf("%s#%x", key, l.Body)
			}
			// the resource as it is now (all threads have ended): the bytes a download received while the writer was
			// running are the bytes of that resource
			if !st.closed {
				if rr := muxGet(st.mi.m, l.URL); rr.Status == 200 && rr.Body.Len() > 0 && !(strings.HasSuffix(path, "_init.mp4") && st.sc.Params != 0) {
					if _, ok := bodies[key]; !ok {
						bodies[key] = rr.Body.Bytes()
					}
				}
			}
			if old, ok := bodies[key]; ok && !bytes.Equal(old, l.Body) {
				add("media-bytes-changed", fmt.Sprintf("%s returned %d bytes to one request and %d different bytes to another", key, len(old), len(l.Body)))
			}
			bodies[key] = l.Body
			if strings.HasSuffix(path, "_init.mp4") {
				// an init segment is one whole fMP4 header: it decodes, and nothing follows it
				var in fmp4.Init
				if err := in.Unmarshal(bytes.NewReader(l.Body)); err != nil || len(in.Tracks) == 0 {
					add("init-undecodable", fmt.Sprintf("%s (%d bytes) served to %s cannot be decoded: %v", key, len(l.Body), l.Thread, err))
				} else {
					var w seekablebuffer.Buffer
					if err := in.Marshal(&w); err == nil && len(w.Bytes()) != len(l.Body) {
						add("init-torn", fmt.Sprintf("%s served to %s has %d bytes, the header it decodes to has %d: the response mixes two versions of the init segment", key, l.Thread, len(l.Body), len(w.Bytes())))
					}
				}
			}
			if strings.HasSuffix(path, ".mp4") && !strings.Contains(path, "_init") {
				var parts fmp4.Parts
				if err := parts.Unmarshal(l.Body); err != nil || len(parts) == 0 {
					add("media-undecodable", fmt.Sprintf("%s (%d bytes) served to %s cannot be decoded: %v", key, len(l.Body), l.Thread, err))
				}
			}
			if strings.HasSuffix(path, ".ts") && (len(l.Body) == 0 || len(l.Body)%188 != 0) {
				add("media-undecodable", fmt.Sprintf("%s has %d bytes (not a whole number of TS packets)", key, len(l.Body)))
			}
		}
	}
	// per requester: successive playlists of one stream evolve monotonically
	for th, logs := range perThread {
		type seen struct {
			ms   int
			info map[int]string
		}
		by := map[string]*seen{}
		for _, l := range logs {
			if !l.Finished || l.Status != 200 || !strings.HasSuffix(stripQuery(l.URL), "_stream.m3u8") {
				continue
			}
			mp, _, _ := m3u.Parse(l.Body, m3u.Options{})
			if mp == nil {
				continue
			}
			k := stripQuery(l.URL)
			sn := by[k]
			if sn == nil {
				sn = &seen{ms: -1, info: map[int]string{}}
				by[k] = sn
			}
			if mp.MediaSequence < sn.ms {
				add("view-not-monotone", fmt.Sprintf("%s saw EXT-X-MEDIA-SEQUENCE go from %d to %d", th, sn.ms, mp.MediaSequence))
			}
			sn.ms = mp.MediaSequence
			skip := 0
			if mp.Skip != nil {
				skip = *mp.Skip
			}
			for i, sg := range mp.Segments {
				msn := mp.MediaSequence + skip + i
				info := canon(stripQuery(sg.URI)) + "|" + sg.DurationText
				if old, ok := sn.info[msn]; ok && old != info {
					add("view-not-monotone", fmt.Sprintf("%s saw media sequence number %d denote %s and then %s", th, msn, old, info))
				}
				sn.info[msn] = info
			}
		}
	}
	// sequential epilogue: whatever is listed now is fetchable and equal to what the readers got
	if len(viols) == 0 && !st.closed {
		func() {
			defer func() {
				if r := recover(); r != nil {
					add("epilogue-blocks", fmt.Sprint(r))
				}
			}()
			for _, stream := range st.mi.m.streams {
				if !stream.hasContent() {
					continue
				}
				r := muxGet(st.mi.m, mediaPlaylistPath(stream.id))
				if r.Status != 200 {
					add("final-playlist-status", fmt.Sprintf("status %d", r.Status))
					continue
				}
				if errs := c08PlaylistInvariants(st.sc.Cfg, r.Body.Bytes()); len(errs) > 0 {
					add("inconsistent-snapshot/"+classify(errs[0]), "final playlist: "+strings.Join(errs, "; "))
				}
				mp, _, _ := m3u.Parse(r.Body.Bytes(), m3u.Options{})
				if mp == nil {
					continue
				}
				for _, u := range urisOf(mp) {
					isHint := len(mp.PreloadHints) > 0 && mp.PreloadHints[0].URI == u
					if isHint || u == "gap.mp4" {
						continue
					}
					rr := muxGet(st.mi.m, u)
					if rr.Status != 200 {
						add("listed-uri-not-200", fmt.Sprintf("%s is listed in the final playlist but returns status %d", canon(u), rr.Status))
						continue
					}
					if old, ok := bodies[canon(stripQuery(u))]; ok && !bytes.Equal(old, rr.Body.Bytes()) {
						add("media-bytes-changed", fmt.Sprintf("%s returned %d bytes to a concurrent reader and %d different bytes afterwards", canon(u), len(old), rr.Body.Len()))
					}
				}
			}
		}()
	}
	if !st.closed {
		func() {
			defer func() { recover() }()
			st.mi.m.Close()
		}()
	}
	st.cleanup()
	return ob.String(), viols
}

func findThread(s *vsched.Sched, name string) (*vsched.Thread, bool) {
	for _, t := range s.Threads() {
		if t.Name == name {
			return t, !t.Done()
		}
	}
	return nil, false
}

func classify(e string) string {
	switch {
	case strings.Contains(e, "TARGETDURATION"):
		return "targetduration"
	case strings.Contains(e, "PART-TARGET"):
		return "part-target"
	case strings.Contains(e, "grammar"):
		return "grammar"
	case strings.Contains(e, "part numbers"), strings.Contains(e, "preload hint"):
		return "parts"
	case strings.Contains(e, "media sequence"):
		return "msn"
	}
	return "other"
}

// ---- C05, downloads in flight (hidden spec C05-inflight of the driver) ----
//
// C05's sequential exploration completes every download before the next Write. Here a single reader that is slow to
// take its response downloads a listed segment, part or init while the writer publishes parts and completes,
// finalises and removes segments: the bytes received must be those of the listed resource (c08Check: every body is
// compared with the reference bytes of its URI and must decode).
func init() {
	verifProps["C05-inflight"] = vh.Prop{
		List: func(tier string) []vh.Scenario { return msListScenarios(c05InflightScens(tier)) },
		Run: func(c *vh.Ctx) {
			respSlowClient = true
			runMuxSched(c, c05InflightScens(c.Tier), c08Check)
		},
	}
}

func c05InflightScens(tier string) []msScen {
	var out []msScen
	type base struct {
		cfg   muxCfg
		warms []int
	}
	bases := []base{{cfgLLDisk, []int{6, 9}}, {cfgLL, []int{9}}, {cfgFMP4Disk, []int{13, 17}}, {cfgTSDisk, []int{13, 17}}}
	if tier == "thorough" {
		bases = []base{{cfgLLDisk, []int{6, 9, 13, 29}}, {cfgLL, []int{6, 9, 29}}, {cfgLLAV, []int{9}}, {cfgFMP4Disk, []int{9, 13, 17}}, {cfgFMP4, []int{9, 13}}, {cfgTSDisk, []int{5, 13, 17}}}
	}
	for _, b := range bases {
		ll := b.cfg.Variant == "ll"
		scripts := [][]string{{"PL", "FOLLOWSEG"}, {"PL", "FOLLOWOLD"}}
		if ll {
			scripts = append(scripts, []string{"PL", "FOLLOWPART"}, []string{"PART", "SEG"})
		}
		if b.cfg.Variant != "mpegts" {
			scripts = append(scripts, []string{"PL", "FOLLOWINIT"})
		}
		for _, warm := range b.warms {
			for _, writes := range []int{3, 5} {
				for _, s := range scripts {
					bound := 2
					if tier == "thorough" && writes == 3 {
						bound = 3
					}
					out = append(out, msScen{Prop: "C05", Cfg: b.cfg, Warm: warm, Writes: writes, Reqs: [][]string{s}, Bound: bound, Shards: 1})
				}
			}
		}
	}
	// two overlapping downloads of parts of one finalised segment, bodies that take several Writes (> 32 KiB)
	for _, cfg := range []muxCfg{cfgLLDisk, cfgLL} {
		for _, reqs := range [][][]string{{{"PARTA"}, {"PARTB"}}, {{"PARTA"}, {"SEG"}}, {{"PARTB"}, {"PARTA"}}} {
			out = append(out, msScen{Prop: "C05", Cfg: cfg, Warm: 9, Writes: 1, Big: 20000, Reqs: reqs, Bound: 2, Shards: 1})
		}
	}
	return out
}
