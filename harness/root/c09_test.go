//go:build verif

package gohlslib

//verif:instrument

// C09: a Client reading a Muxer reproduces the written stream (engines E5 + E2 in one bubble): a writer paces writes on
// the virtual clock into a real Muxer, a real Client reads it through an in-process transport that serves every
// request in its own scheduler thread.

import (
	"bytes"
	"encoding/json"
	"fmt"
	"github.com/bluenviron/mediacommon/v2/pkg/codecs/h264"
	"net/http"
	"strconv"
	"strings"
	"time"

	"github.com/bluenviron/gohlslib/v2/internal/zzverif/vh"
	"github.com/bluenviron/gohlslib/v2/internal/zzverif/vsched"
	"github.com/bluenviron/gohlslib/v2/pkg/codecs"
)

func init() {
	verifProps["C09"] = vh.Prop{List: c09List, Run: c09Run}
}

type c09Scen struct {
	Cfg      muxCfg `json:"cfg"`
	Entry    string `json:"entry"`     // index | media
	Word     string `json:"word"`      // regular | params | sparse
	AttachMS int    `json:"attach_ms"` // the client starts at this virtual time
	// DelaySeg / DelayMS: the DelaySeg-th request for a media segment (1-based) spends DelayMS on its way to the muxer
	// (the segment may have left the window by then)
	DelaySeg int `json:"delay_seg,omitempty"`
	DelayMS  int `json:"delay_ms,omitempty"`
	Policy   int `json:"policy"`
	Bound    int `json:"bound"`
	Shard    int `json:"shard"`
	Shards   int `json:"shards"`
}

func (s c09Scen) name() string {
	delay := ""
	if s.DelaySeg != 0 {
		delay = fmt.Sprintf(" delay=seg%d+%dms", s.DelaySeg, s.DelayMS)
	}
	return fmt.Sprintf("C09 {%s} entry=%s word=%s attach=%dms%s policy=%d bound=%d shard=%d/%d", s.Cfg, s.Entry, s.Word, s.AttachMS, delay, s.Policy, s.Bound, s.Shard, s.Shards)
}

// muxTransport serves every request by calling Muxer.Handle in its own thread.
type muxTransport struct {
	m    *Muxer
	reqs []string
	// the delaySeg-th segment request is delayed by delay
	delaySeg int
	delay    time.Duration
	nSeg     int
}

func (t *muxTransport) RoundTrip(req *http.Request) (*http.Response, error) {
	t.reqs = append(t.reqs, req.URL.String())
	if strings.Contains(req.URL.Path, "_seg") {
		t.nSeg++
		if t.nSeg == t.delaySeg {
			vsched.Sleep(t.delay)
		}
	}
	rec := &respRec{Hdr: http.Header{}}
	done := make(chan struct{})
	m := t.m
	go func() {
		m.Handle(rec, &http.Request{Method: "GET", URL: req.URL, Header: http.Header{}})
		close(done)
	}()
	select {
	case <-done:
	case <-req.Context().Done():
		// the handler is abandoned exactly as a real transport would abandon the connection
		return nil, req.Context().Err()
	}
	status := rec.Status
	if status == 0 {
		// the muxer wrote nothing (a path it does not know, e.g. a segment that has left the window): net/http then sends
		// an empty 200 response
		status = 200
	}
	return &http.Response{StatusCode: status, Status: strconv.Itoa(status), Header: rec.Hdr, Request: req, Proto: "HTTP/1.1",
		Body: &bytesBody{r: bytes.NewReader(rec.Body.Bytes())}, ContentLength: int64(rec.Body.Len())}, nil
}

type bytesBody struct{ r *bytes.Reader }

func (b *bytesBody) Read(p []byte) (int, error) { return b.r.Read(p) }
func (b *bytesBody) Close() error               { return nil }

type c09Written struct {
	u    wunit
	gop  int // key frames of the leading track written before this unit's write, this one included, minus one
	k    int
	dts  int64
	pts  int64
	data [][]byte
}

type c09State struct {
	sc         c09Scen
	mi         *muxInst
	written    [][]c09Written // per track, every unit handed to the muxer (multi-AU writes expanded)
	c          *Client
	tr         *muxTransport
	tracks     []*Track
	units      [][]delivered
	onTracksN  int
	waitErr    error
	waitGot    bool
	writeErr   error
	start      time.Time
	writerDone bool
	gops       int
	ext        *h264.DTSExtractor
}

// the writer's schedule: (time in ms, unit) in time order
func c09Word(cfg muxCfg, word string) []wunit {
	var out []wunit
	seq := 0
	totalMS := 14000
	lead := cfg.leading()
	type ev struct {
		ms int64
		u  wunit
	}
	var evs []ev
	var bTop, bHole int64
	var bTopPOC, bHolePOC int
	for ti, t := range cfg.Tracks {
		clock := int64(t.clock())
		if t.video() {
			step := int64(250)
			for i := int64(0); i*step < int64(totalMS); i++ {
				ms := i * step
				u := wunit{Track: ti, DTS: ms * clock / 1000}
				switch word {
				case "regular":
					u.RA = i%4 == 0
				case "params":
					u.RA = i%4 == 0 || i == 10
					if i == 10 || i == 24 {
						u.RA, u.Params = true, 2
					}
				case "sparse":
					u.RA = i%7 == 0
				case "params-nonra":
					// the new parameter sets arrive with an ordinary frame (i == 9); the key frames after the first one
					// do not repeat them in-band
					u.RA = i%4 == 0
					if i == 9 {
						u.Params = 2
					}
				}
				if u.RA && u.Params == 0 && (word != "params-nonra" || i == 0) {
					u.Params = 1
				}
				if t.Kind == "h265b" {
					// decode times advance regularly; the presentation time handed to WriteH265 is ahead of them by what the
					// slice kind implies (IDR, then the three kinds of TRAIL slices in turn)
					u.POC = 0
					if !u.RA {
						u.POC = 1 + int(i%3)
					}
					u.DTS = ms*clock/1000 + h265bLag[u.POC]
				}
				if isH264B(t.Kind) {
					// decode order I M b M b ...: an "M" frame is displayed after the "b" frame written right after it
					d := step * clock / 1000
					switch {
					case i == 0:
						bTop, bTopPOC, bHole = 0, 0, noHole
						u.DTS, u.POC = 0, 0
					case u.RA:
						u.DTS, u.POC = bTop+d, 0
						bTop, bTopPOC, bHole = u.DTS, 0, noHole
					case bHole != noHole:
						u.DTS, u.POC = bHole, bHolePOC
						bHole = noHole
					default:
						bHole, bHolePOC = bTop+d, bTopPOC+2
						u.DTS, u.POC = bTop+2*d, bTopPOC+4
						bTop, bTopPOC = u.DTS, u.POC
					}
				}
				evs = append(evs, ev{ms, u})
			}
		} else {
			n := 2
			if cfg.Variant == "mpegts" {
				n = 1
			} else if t.Kind == "opus" && cfg.OpusMix {
				n = 3
			}
			for dts := int64(0); dts*1000/clock < int64(totalMS); dts += cfg.audioSpan(t, n) {
				evs = append(evs, ev{dts * 1000 / clock, wunit{Track: ti, DTS: dts, NAU: n}})
			}
		}
	}
	_ = lead
	// stable sort by time, video before audio at equal times
	for i := 1; i < len(evs); i++ {
		for k := i; k > 0 && evs[k-1].ms > evs[k].ms; k-- {
			evs[k-1], evs[k] = evs[k], evs[k-1]
		}
	}
	for _, e := range evs {
		seq++
		e.u.Seq = seq
		out = append(out, e.u)
	}
	return out
}

func c09Harness(sc c09Scen) vsched.Harness {
	return vsched.Harness{
		Setup: func(s *vsched.Sched) any {
			st := &c09State{sc: sc, start: time.Now()}
			mi, err := newMux(sc.Cfg, "")
			if err != nil {
				panic(err)
			}
			st.mi = mi
			st.written = make([][]c09Written, len(sc.Cfg.Tracks))
			st.tr = &muxTransport{m: mi.m, delaySeg: sc.DelaySeg, delay: time.Duration(sc.DelayMS) * time.Millisecond}
			word := c09Word(sc.Cfg, sc.Word)
			vsched.GoNamed("writer", func() {
				for _, u := range word {
					clock := int64(sc.Cfg.Tracks[u.Track].clock())
					at := time.Duration(u.DTS/clock)*time.Second + time.Duration(u.DTS%clock)*time.Second/time.Duration(clock)
					if d := at - time.Since(st.start); d > 0 {
						vsched.Sleep(d)
					}
					var data [][]byte
					if sc.Cfg.Tracks[u.Track].video() {
						data = mi.videoData(u)
						if u.Params == 2 {
							mi.vparam = 1 - mi.vparam
						}
					} else {
						data = mi.audioData(u)
					}
					if err := mi.write(u); err != nil {
						st.writeErr = err
						return
					}
					if sc.Cfg.Tracks[u.Track].video() {
						dts := u.DTS
						if isH264B(sc.Cfg.Tracks[u.Track].Kind) {
							// the decode time the written PTS / picture order counts imply (every word starts with a key frame)
							if st.ext == nil {
								st.ext = &h264.DTSExtractor{}
								st.ext.Initialize()
							}
							d, err := st.ext.Extract(data, u.DTS)
							if err != nil {
								st.writeErr = fmt.Errorf("harness: the word is not derivable: %w", err)
								return
							}
							dts = d
						}
						if sc.Cfg.Tracks[u.Track].Kind == "h265b" {
							dts = u.DTS - h265bLag[u.POC]
						}
						if u.RA && u.Track == sc.Cfg.leading() {
							st.gops++
						}
						st.written[u.Track] = append(st.written[u.Track], c09Written{u: u, gop: st.gops - 1, dts: dts, pts: u.DTS, data: data})
					} else {
						for k := range data {
							at := u.DTS + sc.Cfg.audioSpan(sc.Cfg.Tracks[u.Track], k)
							st.written[u.Track] = append(st.written[u.Track], c09Written{u: u, gop: st.gops - 1, k: k, dts: at, pts: at, data: [][]byte{data[k]}})
						}
					}
				}
				st.writerDone = true
			})
			entry := "index.m3u8"
			if sc.Entry == "media" {
				entry = mediaPlaylistPath(mi.m.leadingStream.id)
			}
			var c *Client
			c = &Client{
				URI:                       "http://mux.example/live/" + entry,
				HTTPClient:                &http.Client{Transport: st.tr},
				OnDownloadPrimaryPlaylist: func(string) {},
				OnDownloadStreamPlaylist:  func(string) {},
				OnDownloadSegment:         func(string) {},
				OnDownloadPart:            func(string) {},
				OnDecodeError:             func(error) {},
				OnTracks: func(tracks []*Track) error {
					st.onTracksN++
					st.tracks = tracks
					st.units = make([][]delivered, len(tracks))
					for i, tr := range tracks {
						i, tr := i, tr
						rec := func(pts, dts int64, data [][]byte) {
							abs, ok := c.AbsoluteTime(tr)
							cp := make([][]byte, len(data))
							for k := range data {
								cp[k] = bytes.Clone(data[k])
							}
							st.units[i] = append(st.units[i], delivered{PTS: pts, DTS: dts, Data: cp, Abs: abs, AbsOK: ok, At: time.Since(st.start)})
						}
						switch tr.Codec.(type) {
						case *codecs.H264, *codecs.H265:
							c.OnDataH26x(tr, func(pts, dts int64, au [][]byte) { rec(pts, dts, au) })
						case *codecs.AV1:
							c.OnDataAV1(tr, func(pts int64, tu [][]byte) { rec(pts, pts, tu) })
						case *codecs.VP9:
							c.OnDataVP9(tr, func(pts int64, frame []byte) { rec(pts, pts, [][]byte{frame}) })
						case *codecs.MPEG4Audio:
							c.OnDataMPEG4Audio(tr, func(pts int64, aus [][]byte) { rec(pts, pts, aus) })
						case *codecs.Opus:
							c.OnDataOpus(tr, func(pts int64, pk [][]byte) { rec(pts, pts, pk) })
						}
					}
					return nil
				},
			}
			st.c = c
			vsched.GoNamed("user", func() {
				vsched.Sleep(time.Duration(sc.AttachMS) * time.Millisecond)
				if err := c.Start(); err != nil {
					st.waitErr, st.waitGot = err, true
					return
				}
				// let the session run until some time after the writer has stopped, then close
				select {
				case err := <-c.Wait():
					st.waitErr, st.waitGot = err, true
					return
				case <-time.After(19*time.Second - time.Since(st.start)):
				}
				c.Close()
				err := <-c.Wait()
				st.waitErr, st.waitGot = err, true
			})
			return st
		},
		Check: func(s *vsched.Sched, tr *vsched.Trace, sti any) (string, []vsched.Viol) {
			st := sti.(*c09State)
			var viols []vsched.Viol
			add := func(sig, format string, a ...any) {
				viols = append(viols, vsched.Viol{Sig: sig, Msg: fmt.Sprintf(format, a...)})
			}
			if tr.Livelock != "" {
				add("livelock", "%s", tr.Livelock)
			}
			for _, p := range tr.Panics {
				add("panic:"+firstLibFrame(p), "%s", p)
			}
			defer func() {
				func() {
					defer func() { recover() }()
					st.mi.m.Close()
				}()
			}()
			if st.writeErr != nil {
				add("write-error", "%v", st.writeErr)
				return "", viols
			}
			nd := 0
			for _, u := range st.units {
				nd += len(u)
			}
			outcome := fmt.Sprintf("tracks=%d units=%d end=%s", len(st.tracks), nd, c11Class(st.waitErr))
			if !st.waitGot {
				add("wait-never-yields", "Wait() did not yield after Close(); stuck: %s", tr.Deadlock)
				return outcome, viols
			}
			cfg := st.sc.Cfg
			// a request that arrives after its segment has left the window may end the session early with an error: then
			// only what was delivered is judged
			lenient := st.sc.DelaySeg != 0 && st.waitErr != nil
			if lenient && st.onTracksN == 0 {
				return outcome, viols
			}
			if st.onTracksN != 1 {
				add("on-tracks", "OnTracks was called %d times (client ended with %v; requests: %v)", st.onTracksN, st.waitErr, canon(strings.Join(st.tr.reqs, " ")))
				return outcome, viols
			}
			// which muxer tracks does this entry point expose? the multivariant playlist: all; the leading media playlist:
			// the leading stream's tracks
			var want []int
			for i := range cfg.Tracks {
				if st.sc.Entry == "index" || cfg.Variant == "mpegts" || i == cfg.leading() {
					want = append(want, i)
				}
			}
			// the client reports the leading stream first, then the renditions
			if cfg.Variant != "mpegts" && st.sc.Entry == "index" {
				lead := cfg.leading()
				want = []int{lead}
				for i := range cfg.Tracks {
					if i != lead {
						want = append(want, i)
					}
				}
			}
			if len(st.tracks) != len(want) {
				add("tracks", "the client reports %d tracks, the muxer has %d on this entry point", len(st.tracks), len(want))
				return outcome, viols
			}
			leadIdx := -1 // index into st.tracks of the leading track
			for i, ti := range want {
				if ti == cfg.leading() {
					leadIdx = i
				}
			}
			for i, ti := range want {
				t := cfg.Tracks[ti]
				tr := st.tracks[i]
				kind := trackKind(tr)
				wantKind := t.Kind
				if strings.HasPrefix(wantKind, "aac") {
					wantKind = "aac"
				}
				if isH264(wantKind) {
					wantKind = "h264"
				}
				if isH265(wantKind) {
					wantKind = "h265"
				}
				if kind != wantKind {
					add("track-codec", "track %d reported as %s, the muxer track is %s", i, kind, t.Kind)
					return outcome, viols
				}
				wantRate := t.clock()
				if cfg.Variant == "mpegts" {
					wantRate = 90000
				}
				if tr.ClockRate != wantRate {
					add("track-clock-rate", "track %d (%s) reported with clock rate %d, want %d", i, t.Kind, tr.ClockRate, wantRate)
				}
				if cfg.Variant != "mpegts" {
					// the client reads the parameters from the init segment it downloaded: with a parameter change in the
					// word they may be either set, but they must be one of the sets the muxer was given
					okP := false
					for p := 0; p < 2; p++ {
						ref := newTrackCfg(cfg, t)
						ps := cfg.pset(t.Kind, p)
						switch c := ref.Codec.(type) {
						case *codecs.H264:
							c.SPS, c.PPS = ps.sps, ps.pps
						case *codecs.H265:
							c.VPS, c.SPS, c.PPS = ps.vps, ps.sps, ps.pps
						case *codecs.AV1:
							c.SequenceHeader = ps.seqHdr
						case *codecs.VP9:
							c.Width, c.Height, c.Profile, c.BitDepth, c.ChromaSubsampling, c.ColorRange = ps.width, ps.height, uint8(ps.profile), uint8(ps.bitDepth), uint8(ps.chroma), ps.colorRange
						}
						// which set may the client report? "params": set 1 becomes current at 2.5 s (complete segment at ~3.5 s), set 0
						// again at 6 s; "params-nonra": set 1 is announced at 2.25 s, active from the key frame at 3 s, the first
						// segment encoded with it complete at 4 s. A client attached at 5 s or later must have it.
						allowed := p == 0
						switch st.sc.Word {
						case "params":
							allowed = true
							if st.sc.AttachMS >= 5000 && st.sc.AttachMS < 6000 {
								allowed = p == 1
							}
						case "params-nonra":
							allowed = true
							if st.sc.AttachMS >= 5000 {
								allowed = p == 1
							}
						}
						if c09ParamsEqual(tr, ref) && allowed {
							okP = true
						}
					}
					if !okP {
						add("track-parameters", "track %d (%s): codec parameters reported by the client are none of the parameter sets given to the muxer", i, t.Kind)
					}
					isRend := ti != cfg.leading() || (!t.video() && len(cfg.Tracks) > 1)
					if isRend && ti != cfg.leading() {
						name := t.Name
						if name == "" {
							name = fmt.Sprintf("audio%d", ti+1)
						}
						def := t.Default
						anyDef := false
						for _, x := range cfg.Tracks {
							if !x.video() && x.Default {
								anyDef = true
							}
						}
						if !anyDef {
							// the first rendition is the default one
							first := -1
							for k, x := range cfg.Tracks {
								if k != cfg.leading() || (!x.video() && len(cfg.Tracks) > 1) {
									first = k
									break
								}
							}
							def = ti == first
						}
						if tr.Name != name || tr.Language != t.Lang || tr.IsDefault != def {
							add("rendition-attributes", "track %d (%s) reported with name=%q language=%q default=%v, the muxer advertised %q %q %v", i, t.Kind, tr.Name, tr.Language, tr.IsDefault, name, t.Lang, def)
						}
					}
				}
			}
			if len(viols) > 0 {
				return outcome, viols
			}
			// delivered units: byte-identical to written ones, once, in order, gap-free; time relative to the first delivered leading unit
			if lenient && (leadIdx < 0 || len(st.units[leadIdx]) == 0) {
				return outcome, viols
			}
			if leadIdx < 0 || len(st.units[leadIdx]) == 0 {
				add("nothing-delivered", "no unit of the leading track was delivered (client ended with %v after %d requests)", st.waitErr, len(st.tr.reqs))
				return outcome, viols
			}
			find := func(ti int, d delivered) int {
				kind := cfg.Tracks[ti].Kind
				for k, w := range st.written[ti] {
					if c09DataEqual(kind, d.Data, w.data) {
						return k
					}
				}
				return -1
			}
			leadTi := want[leadIdx]
			first := find(leadTi, st.units[leadIdx][0])
			if first < 0 {
				add("unit-invented", "the first delivered unit of the leading track matches no written unit: %x", st.units[leadIdx][0].Data)
				return outcome, viols
			}
			origin := st.written[leadTi][first].dts // in the leading track's clock
			leadClock := int64(cfg.Tracks[leadTi].clock())
			for i, ti := range want {
				t := cfg.Tracks[ti]
				clock := int64(t.clock())
				outClock := clock
				if cfg.Variant == "mpegts" {
					outClock = 90000
				}
				us := st.units[i]
				if len(us) == 0 && lenient {
					continue
				}
				if len(us) == 0 {
					add("track-without-units", "no unit of track %d (%s) was delivered although %d were written", i, t.Kind, len(st.written[ti]))
					continue
				}
				// audio callbacks of MPEG-TS carry several access units at once: expand
				type flat struct {
					d delivered
					k int
				}
				var fl []flat
				for _, d := range us {
					if !t.video() && len(d.Data) > 1 {
						for k := range d.Data {
							x := d
							x.Data = [][]byte{d.Data[k]}
							fl = append(fl, flat{x, k})
						}
					} else {
						fl = append(fl, flat{d, 0})
					}
				}
				k0 := find(ti, fl[0].d)
				if k0 < 0 {
					add("unit-invented", "track %d (%s): delivered unit matches no written unit: %x", i, t.Kind, fl[0].d.Data)
					continue
				}
				for n, f := range fl {
					if k0+n >= len(st.written[ti]) {
						add("unit-invented", "track %d (%s): %d units delivered from written unit %d on, only %d were written", i, t.Kind, len(fl), k0, len(st.written[ti]))
						break
					}
					w := st.written[ti][k0+n]
					if !c09DataEqual(t.Kind, f.d.Data, w.data) {
						add("unit-order-or-gap", "track %d (%s): delivered unit %d is not written unit %d (delivery must be gap-free, in writing order, exactly once): got %x want %x", i, t.Kind, n, k0+n, f.d.Data, w.data)
						break
					}
					// time: written minus the origin, converted to the delivered clock rate
					wantDTS := (w.dts*outClock/clock - origin*outClock/leadClock)
					gd := f.d.DTS
					if !t.video() {
						gd = f.d.PTS
						if f.k > 0 {
							// MPEG-TS: the callback's time stamp is that of the first access unit of the PES
							wantDTS = (st.written[ti][k0+n-f.k].dts*outClock/clock - origin*outClock/leadClock)
						}
					}
					if t.video() {
						// presentation time: same origin (the first delivered leading DTS)
						wantPTS := w.pts*outClock/clock - origin*outClock/leadClock
						if abs64(f.d.PTS-wantPTS) > 1 {
							add("unit-pts", "track %d (%s): unit %d delivered with PTS %d, want %d (written PTS %d, decode time %d, origin %d, in %d Hz)", i, t.Kind, n, f.d.PTS, wantPTS, w.pts, w.dts, origin, outClock)
							break
						}
					}
					if abs64(gd-wantDTS) > 1 {
						add("unit-time", "track %d (%s): unit %d delivered with time %d, want %d (written %d minus the first delivered leading DTS %d, in %d Hz)", i, t.Kind, n, gd, wantDTS, w.dts, origin, outClock)
						break
					}
					if f.d.AbsOK && !(cfg.NTPStepMS != 0 && ti != leadTi) {
						// (with a stepped publisher clock only the leading track is checked: which segment a rendition's unit next
						// to a cut lands in depends on write order and on the muxer's one-sample look-ahead)
						// the NTP time written with the first unit of the unit's segment plus the DTS distance between the two. The
						// harness writes NTP = T0 + presentation time, so this is T0 + DTS(unit) + (PTS - DTS)(first unit of the segment);
						// the last term is 0 unless the segment starts with a reordered-stream key frame (h264b), where every
						// key frame of the leading track written so far is a candidate segment start.
						base := w.dts
						if f.k > 0 {
							base = st.written[ti][k0+n-f.k].dts
						}
						deltas := []int64{0}
						lt := cfg.Tracks[leadTi]
						if isH264B(lt.Kind) || lt.Kind == "h265b" {
							// all streams are cut at the same instant and carry the leading stream's PROGRAM-DATE-TIME: "the first unit
							// of the unit's segment" is the leading-track key frame that opened the aligned segment (the reading C10
							// spells out: "offset from that segment's first leading-track unit")
							deltas = nil
							for _, r := range st.written[leadTi] {
								if r.u.RA {
									deltas = append(deltas, (r.pts-r.dts)*clock/leadClock)
								}
							}
						}
						okAbs := false
						var wantAbs time.Time
						for _, dl := range deltas {
							b := base + dl
							wantAbs = verifT0.Add(time.Duration(b/clock)*time.Second + time.Duration(b%clock)*time.Second/time.Duration(clock))
							if cfg.NTPStepMS != 0 {
								// (regular words: a segment per second of media) the step the publisher's clock had taken when the unit's
								// segment was opened. MPEG-TS: a unit is in the segment that was open when it was written; fMP4 variants:
								// samples are assigned by decode time, and the last sample of a rendition before a cut is flushed after it
								// (it waits for its successor to learn its duration), so it may land on either side
								ks := []int64{int64(w.gop)}
								if cfg.Variant != "mpegts" {
									count := func(at int64) int64 {
										k := int64(-1)
										for _, r := range st.written[leadTi] {
											if r.u.RA && r.dts*clock <= at*leadClock {
												k++
											}
										}
										return k
									}
									ks = []int64{count(w.dts)}
									if ti != leadTi && k0+n+1 < len(st.written[ti]) {
										if k2 := count(st.written[ti][k0+n+1].dts); k2 != ks[0] {
											ks = append(ks, k2)
										}
									}
								}
								base0 := wantAbs
								for _, k := range ks {
									wantAbs = base0.Add(time.Duration(k*k*int64(cfg.NTPStepMS)) * time.Millisecond)
									if d := f.d.Abs.Sub(wantAbs); d <= 2*time.Millisecond && d >= -2*time.Millisecond {
										break
									}
								}
							}
							if d := f.d.Abs.Sub(wantAbs); d <= 2*time.Millisecond && d >= -2*time.Millisecond {
								okAbs = true
								break
							}
						}
						if !okAbs {
							add("absolute-time", "track %d (%s): unit %d has AbsoluteTime %s, the wall-clock time written with the first unit of its segment plus the DTS distance is %s", i, t.Kind, n, f.d.Abs.UTC().Format(time.RFC3339Nano), wantAbs.UTC().Format(time.RFC3339Nano))
							break
						}
					}
				}
			}
			return outcome, viols
		},
	}
}

func c09DataEqual(kind string, got, want [][]byte) bool {
	switch kind {
	case "h264", "h264b", "h264k", "h264bk":
		// (the fMP4 variants carry the written unit as it is; MPEG-TS has delimiters of its own)
		return dataEqual(got, want) || dataEqual(stripAUD(got), stripAUD(want))
	case "av1":
		return dataEqual(av1StripSizes(got), want)
	}
	return dataEqual(got, want)
}

func c09ParamsEqual(got *Track, want *Track) bool {
	switch w := want.Codec.(type) {
	case *codecs.H264:
		g, ok := got.Codec.(*codecs.H264)
		return ok && bytes.Equal(g.SPS, w.SPS) && bytes.Equal(g.PPS, w.PPS)
	case *codecs.H265:
		g, ok := got.Codec.(*codecs.H265)
		return ok && bytes.Equal(g.SPS, w.SPS) && bytes.Equal(g.PPS, w.PPS) && bytes.Equal(g.VPS, w.VPS)
	case *codecs.AV1:
		g, ok := got.Codec.(*codecs.AV1)
		return ok && bytes.Equal(av1StripSizes([][]byte{g.SequenceHeader})[0], w.SequenceHeader)
	case *codecs.VP9:
		g, ok := got.Codec.(*codecs.VP9)
		return ok && g.Width == w.Width && g.Height == w.Height && g.Profile == w.Profile && g.BitDepth == w.BitDepth &&
			g.ChromaSubsampling == w.ChromaSubsampling && g.ColorRange == w.ColorRange
	case *codecs.MPEG4Audio:
		g, ok := got.Codec.(*codecs.MPEG4Audio)
		return ok && g.Config.SampleRate == w.Config.SampleRate && g.Config.ChannelCount == w.Config.ChannelCount && g.Config.Type == w.Config.Type
	case *codecs.Opus:
		g, ok := got.Codec.(*codecs.Opus)
		return ok && g.ChannelCount == w.ChannelCount
	}
	return false
}

func c09Scens(tier string) []c09Scen {
	var out []c09Scen
	cfgs := []muxCfg{
		mcfg("mpegts", false, 3, "h264", "aac44"),
		mcfg("mpegts", false, 3, "h264"),
		mcfg("mpegts", false, 3, "aac44"),
		mcfg("fmp4", false, 3, "h264", "aac44"),
		mcfg("fmp4", false, 3, "h265", "opus"),
		mcfg("fmp4", false, 3, "av1"),
		mcfg("fmp4", false, 3, "vp9", "aac48"),
		mcfg("fmp4", false, 3, "aac44", "aac48"),
		{Variant: "fmp4", Tracks: []trackSpec{{Kind: "aac48", Name: "English", Lang: "en"}, {Kind: "h264"}, {Kind: "opus", Name: "Deutsch", Lang: "de", Default: true}}, SegCount: 3, SegMinMS: 1000, OpusMix: true},
		mcfg("ll", false, 7, "h264", "aac44"),
		mcfg("ll", false, 7, "h264"),
		mcfg("ll", false, 7, "aac48"),
		mcfg("mpegts", false, 3, "h264b", "aac44"),
		mcfg("fmp4", false, 3, "h264b"),
		mcfg("ll", false, 7, "aac44", "h264b"),
		func() muxCfg { c := mcfg("fmp4", false, 3, "vp9"); c.ParamDelta = "width+fullrange"; return c }(),
		mcfg("fmp4", false, 3, "h264", "aacsbr"),    // HE-AAC: the track's clock and timescale are the core rate
		mcfg("mpegts", false, 3, "h264bk", "aac44"), // reordered H264 on a millisecond clock (MPEG-TS rescales)
		mcfg("mpegts", false, 3, "h264k"),
		mcfg("fmp4", false, 3, "h265b", "aac44"), // reordered H265: decode and presentation times differ
		mcfg("ll", false, 7, "h265b"),
		// a publisher whose clock is stepped between segments: every segment is dated on its own
		func() muxCfg { c := mcfg("mpegts", false, 3, "h264", "aac44"); c.NTPStepMS = 7; return c }(),
		func() muxCfg { c := mcfg("fmp4", false, 3, "h264", "aac44"); c.NTPStepMS = 7; return c }(),
		// (not Low-Latency: the date of a part of the open segment is extrapolated from the last complete segment's by design)
	}
	for i := range cfgs {
		if cfgs[i].Variant == "ll" {
			cfgs[i].PartMS = 500
		}
	}
	bound := 0
	if tier == "thorough" {
		bound = 1
	}
	for ci, cfg := range cfgs {
		for _, entry := range []string{"index", "media"} {
			for _, word := range []string{"regular", "params", "sparse", "params-nonra"} {
				if word == "params-nonra" && !(len(cfg.Tracks) == 1 && cfg.Tracks[0].Kind == "h264" && cfg.Variant != "mpegts") {
					continue
				}
				if cfg.NTPStepMS != 0 && word != "regular" {
					continue
				}
				hasVideo := cfg.Tracks[cfg.leading()].video()
				if !hasVideo && word != "regular" {
					continue
				}
				if (isH264B(cfg.Tracks[cfg.leading()].Kind) || cfg.Tracks[cfg.leading()].Kind == "h265b") && word == "params" {
					continue
				}
				segLen := 1000
				if word == "sparse" {
					segLen = 1750
				}
				if isH264B(cfg.Tracks[cfg.leading()].Kind) {
					// I M b M | I ...: a GOP spans 1250 ms of presentation time but the derived decode time of its key frame lags,
					// so a segment holds two GOPs
					segLen = 2500
				}
				if cfg.Variant == "mpegts" && !hasVideo {
					segLen = 2400 // audio-only MPEG-TS needs 100 writes per segment
				}
				for ai, extra := range []int{350, 1600, 2900} {
					attach := 3*segLen + extra
					for _, pol := range []int{0, 1, 2} {
						if tier != "thorough" && ((word != "regular" && pol == 1) || (entry == "media" && ai == 1)) {
							continue
						}
						b := 0
						if tier != "thorough" && pol == 0 && word == "regular" && ai == 0 && entry == "index" && (ci == 0 || ci == 3) {
							b = 1 // every schedule one deviation away from the canonical one
						}
						if tier == "thorough" && pol == 0 && entry == "index" && ai != 1 {
							b = bound // thorough: one deviation from the run-until-blocked schedule for every configuration and word
						}
						shards := 1
						if b > 0 {
							shards = 24
						}
						for sh := 0; sh < shards; sh++ {
							out = append(out, c09Scen{Cfg: cfg, Entry: entry, Word: word, AttachMS: attach, Policy: pol, Bound: b, Shard: sh, Shards: shards})
						}
					}
				}
			}
		}
	}
	// a segment request that is slow on its way: by the time it arrives the segment has left the window (SegmentCount 3..5,
	// delays of 2.5 .. 6.5 s); whatever the client then does, it never delivers a run with a hole
	for _, cfg := range []muxCfg{mcfg("fmp4", false, 3, "h264"), mcfg("fmp4", false, 4, "h264", "aac44"), mcfg("fmp4", false, 5, "h264"), mcfg("mpegts", false, 3, "h264", "aac44"), mcfg("mpegts", false, 4, "h264")} {
		for _, entry := range []string{"index", "media"} {
			for _, seg := range []int{1, 2, 3} {
				for _, ms := range []int{2500, 3500, 4500, 6500} {
					if tier != "thorough" && (entry == "media") != (ms == 3500 || ms == 6500) {
						continue
					}
					out = append(out, c09Scen{Cfg: cfg, Entry: entry, Word: "regular", AttachMS: 3350, DelaySeg: seg, DelayMS: ms, Policy: 0})
				}
			}
		}
	}
	return out
}

func c09List(tier string) []vh.Scenario {
	var out []vh.Scenario
	for _, s := range c09Scens(tier) {
		w := 10 * len(s.Cfg.Tracks)
		if s.Bound > 0 {
			w *= 300 / s.Shards * 10
		}
		out = append(out, vh.Scenario{Name: s.name(), Weight: w})
	}
	return out
}

func c09Run(c *vh.Ctx) {
	if c.Replay != nil {
		var rp schedReplay
		if err := json.Unmarshal(c.Replay, &rp); err != nil {
			c.EngineError("bad replay: %v", err)
			return
		}
		var sc c09Scen
		json.Unmarshal(rp.Scen, &sc)
		ex := &vsched.Explorer{T: c.T, H: c09Harness(sc), Delay: true, Rotate: rp.Policy == 1, Reverse: rp.Policy == 2}
		tr, _, viols := ex.Replay(rp.Choices)
		c.Exec()
		if tr.EngineErr != "" {
			c.EngineError("%s", tr.EngineErr)
			return
		}
		for _, v := range viols {
			c.Violation(v.Sig, v.Msg, rp)
		}
		return
	}
	for _, sc := range c09Scens(c.Tier) {
		if sc.name() == c.Scenario {
			runSchedPolicy(c, sc, c09Harness(sc), sc.Bound, true, sc.Policy, sc.Shard, sc.Shards)
			return
		}
	}
	c.EngineError("unknown scenario %q", c.Scenario)
}
