//go:build verif

package gohlslib

// C10: the client delivers every sample of a well-formed stream with normalised time (engine E5, exhaustive grid of
// synthesised streams served by the scripted transport).

import (
	"bytes"
	"encoding/json"
	"fmt"
	"net/http"
	"sort"
	"strings"
	"time"

	"github.com/bluenviron/gohlslib/v2/internal/zzverif/vh"
)

func init() {
	verifProps["C10"] = vh.Prop{List: c10List, Run: c10Run}
}

type c10Case struct {
	Container string `json:"container"` // ts fmp4
	Base      int64  `json:"base"`      // base time in 90 kHz ticks (may exceed 2^33 for MPEG-TS: wraps)
	Tracks    string `json:"tracks"`    // v a va v+a v+aa v+aaa
	BFrames   bool   `json:"bframes"`
	Frags     int    `json:"frags"`                     // fragments per segment (fMP4)
	Range     bool   `json:"range"`                     // byte-range addressing of one resource
	Implicit  bool   `json:"implicit_offset,omitempty"` // byte ranges after the first one omit the offset (each starts where the previous one ended)
	PDT       bool   `json:"pdt"`
	VOD       bool   `json:"vod"`
	AudioLead int    `json:"audio_lead_ms"` // >0: audio starts that much before the video (and is multiplexed first); <0: after
	NSeg      int    `json:"nseg"`
	Video     string `json:"video,omitempty"`   // fMP4 video codec: "" = h264, h265 (announced as hvc1), h265:hev1, av1, vp9
	Audio     string `json:"audio,omitempty"`   // fMP4 audio codec: "" = aac, opus
	VScale    int    `json:"vscale,omitempty"`  // fMP4: timescale of the video track (default 90000)
	Frames    int    `json:"frames,omitempty"`  // video frames per segment (default 4)
	NegCTS    bool   `json:"neg_cts,omitempty"` // fMP4 video with signed composition offsets (decode order I b P b): a unit may be decoded after the origin and presented before it
	SegSec    int    `json:"seg_sec,omitempty"` // seconds per segment (default 1; with Frames: a long-running stream with few units)
	// Grow: a live stream that ends while it is played: the first answer to a playlist request lists all segments but
	// the last and has no ENDLIST, the later ones list all of them and ENDLIST (VOD must be false)
	Grow bool `json:"grow,omitempty"`
}

func c10IsVideo(kind string) bool {
	switch kind {
	case "h264", "h265", "av1", "vp9":
		return true
	}
	return false
}

func (c c10Case) videoKind() string {
	if c.Video == "" {
		return "h264"
	}
	return strings.TrimSuffix(c.Video, ":hev1")
}

func (c c10Case) audioKind() string {
	if c.Audio == "" {
		return "aac"
	}
	return c.Audio
}

// codecsAttr is the CODECS attribute a packager would announce for the stream.
func (c c10Case) codecsAttr() string {
	v := map[string]string{"h264": "avc1.42c028", "h265": "hvc1.1.6.L93.B0", "av1": "av01.0.08M.08", "vp9": "vp09.00.10.08"}[c.videoKind()]
	if c.Video == "h265:hev1" {
		v = "hev1.1.6.L93.B0"
	}
	a := map[string]string{"aac": "mp4a.40.2", "opus": "opus"}[c.audioKind()]
	return v + "," + a
}

// c10VideoData builds one access unit / temporal unit / frame of the given codec carrying seq.
func c10VideoData(kind string, seq int, sync bool) [][]byte {
	tail := []byte{byte(seq >> 8), byte(seq), 0x11}
	switch kind {
	case "h265":
		if sync {
			return [][]byte{h265Params[0].vps, h265Params[0].sps, h265Params[0].pps, append([]byte{19 << 1, 0x01}, tail...)}
		}
		return [][]byte{append([]byte{1 << 1, 0x01}, tail...)}
	case "av1":
		if sync {
			return [][]byte{av1Params[0].seqHdr, append([]byte{6 << 3}, tail...)}
		}
		return [][]byte{append([]byte{6 << 3}, tail...)}
	case "vp9":
		if sync {
			return [][]byte{append(bytes.Clone(vp9Params[0].keyHdr), tail...)}
		}
		return [][]byte{append([]byte{0x86, 0x00}, tail...)}
	}
	return sVideoData(seq, sync, sync)
}

func (c c10Case) String() string {
	if c.NegCTS {
		return fmt.Sprintf("%s signed composition offsets base=%d tracks=%s frags=%d pdt=%v vod=%v nseg=%d", c.Container, c.Base, c.Tracks, c.Frags, c.PDT, c.VOD, c.NSeg)
	}
	if c.SegSec > 1 {
		return fmt.Sprintf("%s long-running base=%d tracks=%s pdt=%v vod=%v nseg=%d of %d s with %d frames", c.Container, c.Base, c.Tracks, c.PDT, c.VOD, c.NSeg, c.SegSec, c.Frames)
	}
	if c.VScale != 0 {
		return fmt.Sprintf("%s video-timescale=%d base=%d tracks=%s bframes=%v pdt=%v vod=%v nseg=%d", c.Container, c.VScale, c.Base, c.Tracks, c.BFrames, c.PDT, c.VOD, c.NSeg)
	}
	if c.Video != "" || c.Audio != "" {
		return fmt.Sprintf("%s[%s] base=%d tracks=%s bframes=%v frags=%d range=%v pdt=%v vod=%v audiolead=%dms nseg=%d", c.Container, c.codecsAttr(), c.Base, c.Tracks, c.BFrames, c.Frags, c.Range, c.PDT, c.VOD, c.AudioLead, c.NSeg)
	}
	return fmt.Sprintf("%s base=%d tracks=%s bframes=%v frags=%d range=%v%s pdt=%v vod=%v%s audiolead=%dms nseg=%d", c.Container, c.Base, c.Tracks, c.BFrames, c.Frags, c.Range, map[bool]string{true: "(implicit offsets)"}[c.Implicit], c.PDT, c.VOD, map[bool]string{true: " grows-then-ends"}[c.Grow], c.AudioLead, c.NSeg)
}

var c10T0 = time.Date(2022, 3, 4, 5, 6, 7, 250_000_000, time.FixedZone("", -3*3600))

// a stream is a set of playlists (one per rendition), each a list of segments of units
type c10Rend struct {
	tracks []sTrack
	segs   []sSegment
	init   []byte
	name   string // playlist file name
	all    []byte // concatenation (byte-range addressing)
	offs   []int
}

type c10Stream struct {
	cs    c10Case
	rends []*c10Rend
}

func scaleTicks(t90k int64, ts int) int64 {
	return t90k/90000*int64(ts) + (t90k%90000)*int64(ts)/90000
}

func c10Build(cs c10Case) (*c10Stream, error) {
	st := &c10Stream{cs: cs}
	ts := cs.Container == "ts"
	type trk struct {
		kind string
		rate int
	}
	audioRates := []int{48000, 44100, 32000}
	vk, ak := cs.videoKind(), cs.audioKind()
	vscale := 90000
	if cs.VScale != 0 && !ts {
		vscale = cs.VScale
	}
	if ak == "opus" {
		audioRates = []int{48000, 48000, 48000}
	}
	var layout [][]trk // per rendition
	var layout0 []trk
	switch cs.Tracks {
	case "v":
		layout = [][]trk{{{vk, vscale}}}
	case "a":
		layout = [][]trk{{{ak, 48000}}}
	case "va":
		layout = [][]trk{{{vk, vscale}, {ak, audioRates[1]}}}
	case "av":
		layout = [][]trk{{{ak, audioRates[1]}, {vk, vscale}}}
	case "xva", "vxa", "xav":
		// MPEG-TS with a track the client does not support in this container (Opus) at every position of the PMT
		for _, ch := range cs.Tracks {
			switch ch {
			case 'x':
				layout0 = append(layout0, trk{"opus", 48000})
			case 'v':
				layout0 = append(layout0, trk{vk, vscale})
			case 'a':
				layout0 = append(layout0, trk{ak, audioRates[1]})
			}
		}
		layout = [][]trk{layout0}
	case "v+a", "v+aa", "v+aaa":
		layout = [][]trk{{{vk, vscale}}}
		for i := 0; i < len(cs.Tracks)-2; i++ {
			layout = append(layout, []trk{{ak, audioRates[i]}})
		}
	case "va+a", "va+aa":
		// audio multiplexed with the video, plus renditions of their own
		layout = [][]trk{{{vk, vscale}, {ak, audioRates[1]}}}
		for i := 0; i < len(cs.Tracks)-3; i++ {
			layout = append(layout, []trk{{ak, audioRates[(i+2)%3]}})
		}
	}
	seq := 0
	for ri, lr := range layout {
		r := &c10Rend{name: fmt.Sprintf("r%d.m3u8", ri)}
		for ti, t := range lr {
			rate := t.rate
			if ts {
				// MPEG-TS carries everything at 90 kHz; the AAC sample rate only determines the AU duration
			}
			r.tracks = append(r.tracks, sTrack{Kind: t.kind, ID: ti + 1, TimeScale: rate})
		}
		segSec := int64(max(cs.SegSec, 1))
		for j := 0; j < cs.NSeg; j++ {
			var units []sUnit
			for ti, t := range lr {
				if c10IsVideo(t.kind) {
					// 4 frames of 250 ms; with B-frames the decode order is I P B B with presentation offsets
					nfr, fdur := 4, int64(22500)
					if cs.Frames > 0 {
						nfr, fdur = cs.Frames, 90000*segSec/int64(cs.Frames)
					}
					for k := 0; k < nfr; k++ {
						t90 := cs.Base + int64(j)*90000*segSec + int64(k)*fdur
						u := sUnit{Track: ti, Sync: k == 0, Data: c10VideoData(t.kind, seq, k == 0), Dur: fdur}
						seq++
						u.DTS = t90
						if cs.BFrames && cs.Frames == 0 {
							u.PTSOff = []int64{22500, 67500, 0, 0}[k]
						}
						if cs.NegCTS && cs.Frames == 0 {
							u.PTSOff = []int64{22500, -45000, 22500, -22500}[k]
						}
						if vscale != 90000 {
							// the same instants expressed in the video track's own timescale
							u.DTS, u.Dur, u.PTSOff = scaleTicks(t90, vscale), scaleTicks(22500, vscale), scaleTicks(u.PTSOff, vscale)
						}
						units = append(units, u)
					}
				} else {
					// audio units of 1024 samples (Opus: 960) covering [j, j+1) s, shifted by the audio lead
					rate := int64(t.rate)
					lead := int64(cs.AudioLead) * 90 // 90 kHz ticks
					spu := int64(1024)
					first0 := byte(0x21)
					if t.kind == "opus" {
						spu, first0 = 960, opusTOC(960)
					}
					first := (int64(j)*rate + spu - 1) / spu
					last := (int64(j+1)*rate + spu - 1) / spu
					for a := first; a < last; a++ {
						t90 := cs.Base - lead + a*spu*90000/rate
						u := sUnit{Track: ti, Sync: true, Data: [][]byte{{first0, byte(seq >> 8), byte(seq), byte(ri)}}}
						seq++
						if ts {
							u.DTS = t90
							u.Dur = spu * 90000 / rate
						} else {
							u.DTS = scaleTicks(cs.Base-lead, t.rate) + a*spu
							u.Dur = spu
						}
						units = append(units, u)
					}
				}
			}
			seg := sSegment{DurNS: 1_000_000_000 * segSec}
			if cs.PDT {
				// date-time of a segment = wall-clock time of its first leading-track unit (consistent with media time)
				d := c10T0.Add(time.Duration(int64(j)*segSec) * time.Second)
				if !c10IsVideo(lr[0].kind) && len(lr) == 1 {
					rate := int64(lr[0].rate)
					spu := int64(1024)
					if lr[0].kind == "opus" {
						spu = 960
					}
					first := (int64(j)*rate + spu - 1) / spu
					ns := first * spu * 1_000_000_000 / rate
					d = c10T0.Add(time.Duration(ns))
				}
				seg.DateTime = &d
			}
			if ts {
				// file order: by time, audio first when it leads
				ordered := orderTS(units, !c10IsVideo(lr[0].kind) || cs.AudioLead > 0)
				seg.Frags = [][]sUnit{ordered}
				b, err := buildTS(r.tracks, wrapTS(ordered))
				if err != nil {
					return nil, err
				}
				seg.Body = b
			} else {
				// split every track's units of this segment into cs.Frags consecutive fragments
				n := cs.Frags
				if n < 1 {
					n = 1
				}
				frags := make([][]sUnit, n)
				for ti := range lr {
					var tu []sUnit
					for _, u := range units {
						if u.Track == ti {
							tu = append(tu, u)
						}
					}
					for i, u := range tu {
						f := i * n / len(tu)
						frags[f] = append(frags[f], u)
					}
				}
				var nonEmpty [][]sUnit
				for _, f := range frags {
					if len(f) > 0 {
						nonEmpty = append(nonEmpty, f)
					}
				}
				seg.Frags = nonEmpty
				b, err := buildFMP4(r.tracks, nonEmpty, uint32(j*n))
				if err != nil {
					return nil, err
				}
				seg.Body = b
			}
			r.segs = append(r.segs, seg)
		}
		if !ts {
			in, err := buildInit(r.tracks)
			if err != nil {
				return nil, err
			}
			r.init = in
		}
		r.all = append([]byte{}, r.init...)
		for _, s := range r.segs {
			if cs.Range && !cs.Implicit {
				// explicit offsets need not be contiguous: unrelated bytes sit between the sub-ranges
				r.all = append(r.all, 0xEE, 0xEE, 0xEE, 0xEE, 0xEE, 0xEE, 0xEE)
			}
			r.offs = append(r.offs, len(r.all))
			r.all = append(r.all, s.Body...)
		}
		st.rends = append(st.rends, r)
	}
	return st, nil
}

// orderTS sorts units by time (stable); audioFirst breaks ties / leads in favour of audio.
func orderTS(units []sUnit, audioFirst bool) []sUnit {
	out := append([]sUnit{}, units...)
	for i := 1; i < len(out); i++ {
		for k := i; k > 0; k-- {
			a, b := out[k-1], out[k]
			swap := a.DTS > b.DTS || (a.DTS == b.DTS && audioFirst && a.Track < b.Track && false)
			if !swap {
				break
			}
			out[k-1], out[k] = out[k], out[k-1]
		}
	}
	return out
}

// wrapTS reduces time stamps modulo 2^33 for the MPEG-TS writer.
func wrapTS(units []sUnit) []sUnit {
	out := make([]sUnit, len(units))
	for i, u := range units {
		u.DTS = u.DTS & (1<<33 - 1)
		out[i] = u
	}
	return out
}

func (st *c10Stream) playlist(ri int) string { return st.playlistAt(ri, 1<<30) }

// playlistAt is the playlist of rendition ri as answered to the poll-th request for it (0-based).
func (st *c10Stream) playlistAt(ri int, poll int) string {
	r := st.rends[ri]
	cs := st.cs
	var segs []plSeg
	for j, s := range r.segs {
		if cs.Grow && poll == 0 && j == len(r.segs)-1 {
			break
		}
		ps := plSeg{URI: fmt.Sprintf("r%d_seg%d", ri, j), DurNS: s.DurNS, DateTime: s.DateTime}
		if cs.Range {
			ps.URI = fmt.Sprintf("r%d_all", ri)
			ps.ByteRange = fmt.Sprintf("%d@%d", len(s.Body), r.offs[j])
			if cs.Implicit && j > 0 {
				ps.ByteRange = fmt.Sprintf("%d", len(s.Body))
			}
		}
		segs = append(segs, ps)
	}
	mapLine := ""
	if r.init != nil {
		mapLine = fmt.Sprintf("#EXT-X-MAP:URI=\"r%d_init\"", ri)
		if cs.Range {
			mapLine = fmt.Sprintf("#EXT-X-MAP:URI=\"r%d_all\",BYTERANGE=\"%d@0\"", ri, len(r.init))
		}
	}
	typ := ""
	if cs.VOD {
		typ = "VOD"
	}
	return writeMediaPlaylist(7, max(cs.SegSec, 1), 0, typ, mapLine, segs, !(cs.Grow && poll == 0), nil)
}

func (st *c10Stream) server() *stubServer {
	srv := &stubServer{}
	polls := map[int]int{}
	srv.handler = func(n int, path, rawQuery string, req *http.Request) srvResp {
		name := path[strings.LastIndexByte(path, '/')+1:]
		if name == "index.m3u8" {
			var b strings.Builder
			b.WriteString("#EXTM3U\n#EXT-X-VERSION:7\n")
			muxed := false
			for _, t := range st.rends[0].tracks {
				if !c10IsVideo(t.Kind) && len(st.rends[0].tracks) > 1 {
					muxed = true
				}
			}
			if muxed && len(st.rends) > 1 {
				// the audio that is multiplexed into the variant's own playlist is a rendition of the group too: it has no URI
				b.WriteString("#EXT-X-MEDIA:TYPE=AUDIO,GROUP-ID=\"aud\",NAME=\"muxed\",LANGUAGE=\"l0\",DEFAULT=YES,AUTOSELECT=YES\n")
			}
			for ri := 1; ri < len(st.rends); ri++ {
				def := "NO"
				if ri == 1 && !muxed {
					def = "YES"
				}
				fmt.Fprintf(&b, "#EXT-X-MEDIA:TYPE=AUDIO,GROUP-ID=\"aud\",NAME=\"lang%d\",LANGUAGE=\"l%d\",DEFAULT=%s,AUTOSELECT=YES,URI=\"r%d.m3u8\"\n", ri, ri, def, ri)
			}
			fmt.Fprintf(&b, "#EXT-X-STREAM-INF:BANDWIDTH=100000,CODECS=\"%s\",AUDIO=\"aud\"\nr0.m3u8\n", st.cs.codecsAttr())
			return srvResp{Status: 200, Body: []byte(b.String())}
		}
		var ri, j int
		switch {
		case strings.HasSuffix(name, ".m3u8"):
			fmt.Sscanf(name, "r%d.m3u8", &ri)
			if ri < len(st.rends) {
				srv.mu.Lock()
				k := polls[ri]
				polls[ri]++
				srv.mu.Unlock()
				return srvResp{Status: 200, Body: []byte(st.playlistAt(ri, k))}
			}
		case strings.HasSuffix(name, "_init"):
			fmt.Sscanf(name, "r%d_init", &ri)
			return srvResp{Status: 200, Body: st.rends[ri].init}
		case strings.HasSuffix(name, "_all"):
			fmt.Sscanf(name, "r%d_all", &ri)
			return srvResp{Status: 200, Body: st.rends[ri].all}
		case strings.Contains(name, "_seg"):
			fmt.Sscanf(name, "r%d_seg%d", &ri, &j)
			return srvResp{Status: 200, Body: st.rends[ri].segs[j].Body}
		}
		return srvResp{Status: 404}
	}
	return srv
}

type c10Exp struct {
	kind       string
	rate       int
	units      []c10ExpUnit
	name, lang string
	def        bool
}

type c10ExpUnit struct {
	dts, pts int64
	data     [][]byte
	abs      time.Time
	absOK    bool
}

// c10Expect: reference model of what the client must deliver.
func (st *c10Stream) expect() []c10Exp {
	cs := st.cs
	firstSeg := 0
	if !cs.VOD {
		firstSeg = cs.NSeg - 3
		if cs.Grow {
			firstSeg = cs.NSeg - 4 // third from the end of the first playlist, which lacks the last segment
		}
	}
	ts := cs.Container == "ts"
	// leading track: the video track if any, else the first track, of the first (leading) playlist
	lead := st.rends[0]
	lti := 0
	for i, t := range lead.tracks {
		if c10IsVideo(t.Kind) {
			lti = i
			break
		}
	}
	leadRate := int64(lead.tracks[lti].TimeScale)
	if ts {
		leadRate = 90000
	}
	var origin int64
	found := false
	for _, f := range lead.segs[firstSeg].Frags {
		for _, u := range f {
			if u.Track == lti && !found {
				origin, found = u.DTS, true
			}
		}
	}
	// wall-clock anchor: the date-time of the first downloaded segment corresponds to its first leading unit
	var out []c10Exp
	for ri, r := range st.rends {
		for ti, t := range r.tracks {
			rate := int64(t.TimeScale)
			if ts {
				rate = 90000
			}
			if ts && t.Kind != "h264" && t.Kind != "aac" {
				continue // not supported by the client in MPEG-TS: the track is not reported and its units are not delivered
			}
			e := c10Exp{kind: t.Kind, rate: int(rate)}
			if ri > 0 {
				e.name, e.lang, e.def = fmt.Sprintf("lang%d", ri), fmt.Sprintf("l%d", ri), ri == 1 && len(st.rends[0].tracks) == 1
			}
			off := origin/leadRate*rate + (origin%leadRate)*rate/leadRate // multiplyAndDivide
			for j := firstSeg; j < cs.NSeg; j++ {
				for _, f := range r.segs[j].Frags {
					for _, u := range f {
						if u.Track != ti {
							continue
						}
						dts := u.DTS - off
						pts := dts + u.PTSOff
						if pts < 0 {
							continue
						}
						eu := c10ExpUnit{dts: dts, pts: pts, data: u.Data}
						if cs.PDT {
							// absolute time = date-time of segment firstSeg + media time since the origin
							eu.absOK = true
							eu.abs = *lead.segs[firstSeg].DateTime
							eu.abs = eu.abs.Add(time.Duration(dts/rate)*time.Second + time.Duration(dts%rate)*time.Second/time.Duration(rate))
						}
						e.units = append(e.units, eu)
					}
				}
			}
			out = append(out, e)
		}
	}
	return out
}

// c10Extra collects violations that do not stop the comparison of a case (head-dropped units).
var c10Extra [][2]string

func c10RunCase(c *vh.Ctx, cs c10Case) (sig, msg, outcome string) {
	c10Extra = nil
	st, err := c10Build(cs)
	if err != nil {
		return "engine", "stream synthesis failed: " + err.Error(), ""
	}
	uri := "http://media.example/vod/r0.m3u8"
	if len(st.rends) > 1 {
		uri = "http://media.example/vod/index.m3u8"
	}
	obs := runClientPlain(c.T, uri, st.server(), cliOpts{Horizon: time.Duration(max(cs.SegSec, 1)*cs.NSeg)*time.Second + 10*time.Minute})
	exp := st.expect()
	nd := 0
	for _, u := range obs.Units {
		nd += len(u)
	}
	outcome = fmt.Sprintf("%s|tracks=%d|units=%d|%v", cs.String(), len(obs.Tracks), nd, c11Class(obs.WaitErr))
	fail := func(s, m string) (string, string, string) { return s, m + "\ncase: " + cs.String(), outcome }
	if len(obs.Panics) > 0 {
		return fail("client-panic", obs.Panics[0])
	}
	if obs.Wedged {
		return fail("client-wedged", fmt.Sprintf("Wait() yielded nothing within %v of virtual time (delivered %d units so far)", obs.Elapsed, nd))
	}
	if obs.Leaked {
		return fail("goroutine-leak", "client goroutines still blocked after Wait() yielded and Close()")
	}
	if c11Class(obs.WaitErr) != "eos" {
		return fail("wrong-end", fmt.Sprintf("the client ended with %v, want ErrClientEOS", obs.WaitErr))
	}
	if len(obs.Tracks) != len(exp) {
		return fail("tracks", fmt.Sprintf("OnTracks reported %d tracks, the stream has %d supported tracks", len(obs.Tracks), len(exp)))
	}
	// tracks are reported stream by stream in playlist order
	for i, e := range exp {
		tr := obs.Tracks[i]
		if trackKind(tr) != e.kind || tr.ClockRate != e.rate {
			return fail("track-attributes", fmt.Sprintf("track %d reported as %s @%d Hz, want %s @%d Hz", i, trackKind(tr), tr.ClockRate, e.kind, e.rate))
		}
		if cs.Container == "fmp4" && (tr.Name != e.name || tr.Language != e.lang || tr.IsDefault != e.def) {
			return fail("rendition-attributes", fmt.Sprintf("track %d reported with name=%q language=%q default=%v, want %q %q %v", i, tr.Name, tr.Language, tr.IsDefault, e.name, e.lang, e.def))
		}
		got := obs.Units[i]
		if len(got) != len(e.units) {
			// class: are the delivered units exactly the expected ones minus a head?
			class := "unit-count"
			if k := len(e.units) - len(got); k > 0 {
				head := true
				for x := range got {
					if !dataEqual(stripAUD(got[x].Data), e.units[k+x].data) {
						head = false
						break
					}
				}
				if head {
					class = fmt.Sprintf("unit-count/head-dropped:%s:%s:leading=%v", cs.Container, e.kind, i == 0 && (c10IsVideo(e.kind) || !strings.Contains(cs.Tracks, "v")))
					c10Extra = append(c10Extra, [2]string{class, fmt.Sprintf("track %d (%s): %d units delivered, the downloaded segments hold %d deliverable ones: the first %d (at or after the time origin) are missing\ncase: %s", i, e.kind, len(got), len(e.units), k, cs.String())})
					e.units = e.units[k:]
				}
			}
		}
		if len(got) != len(e.units) {
			class := "unit-count"
			return fail(class, fmt.Sprintf("track %d (%s): %d units delivered, the downloaded segments hold %d deliverable ones", i, e.kind, len(got), len(e.units)))
		}
		for k, eu := range e.units {
			g := got[k]
			gdata := stripAUD(g.Data)
			if e.kind == "av1" {
				gdata = av1StripSizes(g.Data)
			}
			if !dataEqual(gdata, eu.data) {
				return fail("unit-payload", fmt.Sprintf("track %d unit %d payload %x, want %x", i, k, g.Data, eu.data))
			}
			isVideo := c10IsVideo(e.kind) && e.kind != "av1" && e.kind != "vp9" // AV1 / VP9 callbacks carry one time stamp
			gd := g.DTS
			if !isVideo {
				gd = g.PTS // audio callbacks carry one time stamp
			}
			if abs64(gd-eu.dts) > 1 || abs64(g.PTS-eu.pts) > 1 {
				return fail("unit-time", fmt.Sprintf("track %d (%s) unit %d delivered with pts=%d dts=%d, want pts=%d dts=%d (container time minus the first leading DTS, in %d Hz)", i, e.kind, k, g.PTS, g.DTS, eu.pts, eu.dts, e.rate))
			}
			if g.PTS < 0 {
				return fail("negative-time", fmt.Sprintf("track %d unit %d delivered with negative pts %d", i, k, g.PTS))
			}
			if g.AbsOK != eu.absOK {
				return fail("absolute-time-availability", fmt.Sprintf("track %d unit %d: AbsoluteTime available=%v, want %v", i, k, g.AbsOK, eu.absOK))
			}
			if eu.absOK {
				if d := g.Abs.Sub(eu.abs); d > 2*time.Millisecond || d < -2*time.Millisecond {
					return fail("absolute-time", fmt.Sprintf("track %d (%s) unit %d: AbsoluteTime %s, want %s (segment date-time + offset from the segment's first leading unit)", i, e.kind, k, g.Abs.UTC().Format(time.RFC3339Nano), eu.abs.UTC().Format(time.RFC3339Nano)))
				}
			}
		}
	}
	return "", "", outcome
}

func stripAUD(d [][]byte) [][]byte {
	var out [][]byte
	for _, n := range d {
		if len(n) > 0 && n[0]&0x1f == 9 && len(n) <= 2 {
			continue
		}
		out = append(out, n)
	}
	return out
}

func c10Cases(tier string) map[string][]c10Case {
	out := map[string][]c10Case{}
	for _, cont := range []string{"ts", "fmp4"} {
		bases := []int64{0, 1, 540000, 1<<32 - 45000, 1<<33 - 135000}
		if cont == "fmp4" {
			bases = []int64{0, 1, 540000, 1<<32 - 45000, 1 << 40}
		}
		for _, tracks := range []string{"v", "a", "va", "av", "v+a", "v+aa", "v+aaa"} {
			key := cont + " " + tracks
			for _, base := range bases {
				for _, bf := range []bool{false, true} {
					if bf && (tracks == "a") {
						continue
					}
					for _, frags := range []int{1, 3} {
						if cont == "ts" && frags != 1 {
							continue
						}
						for _, rngMode := range []int{0, 1, 2} {
							rng := rngMode != 0
							for _, pdt := range []bool{false, true} {
								for _, vod := range []bool{false, true} {
									for _, lead := range []int{0, 100, -100} {
										if lead != 0 && !strings.Contains(tracks, "a") || (lead != 0 && tracks == "a") {
											continue
										}
										if tier != "thorough" && rng && bf && lead != 0 {
											continue
										}
										out[key] = append(out[key], c10Case{Container: cont, Base: base, Tracks: tracks, BFrames: bf, Frags: frags, Range: rng, Implicit: rngMode == 2, PDT: pdt, VOD: vod, AudioLead: lead, NSeg: 4})
									}
								}
							}
						}
					}
				}
			}
		}
	}
	// MPEG-TS with an unsupported track at every position of the program map
	for _, tracks := range []string{"xva", "vxa", "xav"} {
		for _, base := range []int64{0, 540000} {
			for _, pdt := range []bool{false, true} {
				for _, vod := range []bool{false, true} {
					out["ts unsupported-track"] = append(out["ts unsupported-track"], c10Case{Container: "ts", Base: base, Tracks: tracks, Frags: 1, PDT: pdt, VOD: vod, NSeg: 4})
				}
			}
		}
	}
	// codec families of the fMP4 variants (CODECS as a packager announces them; H265 under both sample-entry names)
	for _, v := range []string{"h265", "h265:hev1", "av1", "vp9"} {
		for _, a := range []string{"", "opus"} {
			for _, tracks := range []string{"v", "va", "v+a", "v+aa"} {
				for _, pdt := range []bool{false, true} {
					out["fmp4 codecs"] = append(out["fmp4 codecs"], c10Case{Container: "fmp4", Base: 540000, Tracks: tracks, Frags: 1, PDT: pdt, VOD: true, NSeg: 3, Video: v, Audio: a})
				}
			}
			// the audio track listed first in the init segment and starting before / after the video: the video track still leads
			for _, lead := range []int{0, 100, -100} {
				for _, frags := range []int{1, 3} {
					out["fmp4 codecs"] = append(out["fmp4 codecs"], c10Case{Container: "fmp4", Base: 540000, Tracks: "av", Frags: frags, PDT: true, VOD: true, NSeg: 3, Video: v, Audio: a, AudioLead: lead})
				}
			}
		}
	}
	for _, tracks := range []string{"a", "va", "v+a"} {
		out["fmp4 codecs"] = append(out["fmp4 codecs"], c10Case{Container: "fmp4", Base: 0, Tracks: tracks, Frags: 3, PDT: true, VOD: false, NSeg: 4, Audio: "opus"})
	}
	// other video timescales (1 kHz, 600 Hz, 10 MHz) with base times up to 2^40 ticks of that timescale
	for _, vs := range []int{1000, 600, 10_000_000} {
		for _, base := range []int64{0, 540000, (1 << 40) / int64(vs) * 90000} {
			for _, tracks := range []string{"v", "va", "v+a", "v+aa"} {
				for _, bf := range []bool{false, true} {
					out["fmp4 timescales"] = append(out["fmp4 timescales"], c10Case{Container: "fmp4", Base: base, Tracks: tracks, BFrames: bf, Frags: 1, PDT: true, VOD: true, NSeg: 3, VScale: vs})
				}
			}
		}
	}
	// a live stream that ends while it is played (ENDLIST appears on a reload): every unit of every downloaded segment is delivered
	for _, cont := range []string{"ts", "fmp4"} {
		for _, tracks := range []string{"v", "va", "v+a"} {
			if cont == "ts" && tracks == "v+a" {
				continue
			}
			for _, nseg := range []int{4, 5, 6} {
				for _, pdt := range []bool{false, true} {
					out[cont+" live-ends"] = append(out[cont+" live-ends"], c10Case{Container: cont, Base: 540000, Tracks: tracks, Frags: 1, PDT: pdt, VOD: false, Grow: true, NSeg: nseg})
				}
			}
		}
	}
	// a stream played for more than 2^32 ticks of 90 kHz (13 h 15 min): few units, far apart (the client paces the delivery
	// against the virtual clock and tolerates at most 10 s between a unit's time and the clock)
	for _, cont := range []string{"ts", "fmp4"} {
		for _, base := range []int64{0, (1 << 33) - 3600*90000} {
			if cont == "fmp4" && base != 0 {
				continue
			}
			for _, pdt := range []bool{false, true} {
				out[cont+" long-running"] = append(out[cont+" long-running"], c10Case{Container: cont, Base: base, Tracks: "v", Frags: 1, PDT: pdt, VOD: true, NSeg: 14, SegSec: 4000, Frames: 500})
			}
		}
	}
	// audio multiplexed into the variant's playlist (a rendition without URI, listed first) next to renditions of their own
	for _, cont := range []string{"fmp4", "ts"} {
		for _, tracks := range []string{"va+a", "va+aa"} {
			for _, vod := range []bool{true, false} {
				out[cont+" muxed-and-separate-audio"] = append(out[cont+" muxed-and-separate-audio"], c10Case{Container: cont, Base: 540000, Tracks: tracks, Frags: 1, PDT: true, VOD: vod, NSeg: 4})
			}
		}
	}
	// signed composition offsets (trun version 1): in the first downloaded segment a unit is decoded after the origin and
	// presented before it - it is dropped, not delivered with a negative time
	for _, tracks := range []string{"v", "va", "v+a"} {
		for _, frags := range []int{1, 2} {
			for _, vod := range []bool{true, false} {
				out["fmp4 codecs"] = append(out["fmp4 codecs"], c10Case{Container: "fmp4", Base: 540000, Tracks: tracks, Frags: frags, PDT: true, VOD: vod, NSeg: 4, NegCTS: true})
			}
		}
	}
	// units exactly 10 s apart: the largest distance between a unit's time and the clock the client accepts
	for _, cont := range []string{"ts", "fmp4"} {
		out[cont+" long-running"] = append(out[cont+" long-running"], c10Case{Container: cont, Base: 0, Tracks: "v", Frags: 1, PDT: true, VOD: true, NSeg: 3, SegSec: 4000, Frames: 400})
	}
	// many fragments per segment
	for _, n := range []int{10, 11, 12, 16} {
		for _, tracks := range []string{"v", "va"} {
			out["fmp4 many-fragments"] = append(out["fmp4 many-fragments"], c10Case{Container: "fmp4", Base: 0, Tracks: tracks, Frags: n, PDT: true, VOD: true, NSeg: 2})
		}
	}
	return out
}

func c10List(tier string) []vh.Scenario {
	var out []vh.Scenario
	for k, v := range c10Cases(tier) {
		out = append(out, vh.Scenario{Name: k, Weight: len(v)})
	}
	sort.Slice(out, func(i, j int) bool { return out[i].Name < out[j].Name }) // map order differs between processes
	return out
}

func c10Run(c *vh.Ctx) {
	if c.Replay != nil {
		var cs c10Case
		if err := json.Unmarshal(c.Replay, &cs); err != nil {
			c.EngineError("bad replay: %v", err)
			return
		}
		c.Exec()
		if sig, msg, _ := c10RunCase(c, cs); sig != "" {
			c.Violation("C10/"+sig, msg, cs)
		}
		for _, x := range c10Extra {
			c.Violation("C10/"+x[0], x[1], cs)
		}
		return
	}
	seen := map[string]bool{}
	for i, cs := range c10Cases(c.Tier)[c.Scenario] {
		sig, msg, outcome := c10RunCase(c, cs)
		if sig == "engine" {
			c.EngineError("%s", msg)
			return
		}
		c.Exec()
		c.Outcome(outcome)
		if c.WantSample() && i%37 == 0 {
			c.Sample(map[string]any{"case": cs.String(), "outcome": outcome})
		}
		if sig != "" && !seen[sig] {
			seen[sig] = true
			c.Violation("C10/"+sig, msg, cs)
		}
		for _, x := range c10Extra {
			if !seen[x[0]] {
				seen[x[0]] = true
				c.Violation("C10/"+x[0], x[1], cs)
			}
		}
		if c.NViolations() > 6 {
			c.Cap(c.Scenario + ": stopped after violations")
			return
		}
		if c.Expired() {
			c.Cap(fmt.Sprintf("%s: deadline reached after %d cases", c.Scenario, i))
			return
		}
	}
}

var _ = bytes.Equal
