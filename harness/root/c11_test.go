//go:build verif

package gohlslib

// C11: the client fetches segments consecutively, exactly once, from the right start (engine E5, explicit
// enumeration of playlist histories; reference model: an integer).

import (
	"bytes"
	"encoding/json"
	"fmt"
	"net/http"
	"net/url"
	"strings"
	"time"

	"github.com/bluenviron/gohlslib/v2/internal/zzverif/vh"
)

func init() {
	verifProps["C11"] = vh.Prop{List: c11List, Run: c11Run}
}

type c11Case struct {
	Window int    `json:"window"`
	Type   string `json:"type"`            // "" EVENT VOD
	Style  string `json:"style"`           // rel abs query range range0 rangemix refs skipadv endfirst blockadv dirs
	Start  int    `json:"start"`           // media sequence number of the first playlist
	Events []int  `json:"events"`          // between polls: advance by k (0,1,2,3,6) or -1 = append ENDLIST
	Audio  []int  `json:"audio,omitempty"` // a second, independently evolving rendition (multivariant entry point)
	// AudioSlow: every response of the audio rendition (playlist and segments) takes 15 s: the rendition reaches its end long
	// after the leading stream has
	AudioSlow bool `json:"audio_slow,omitempty"`
}

func (c c11Case) String() string {
	slow := ""
	if c.AudioSlow {
		slow = " audio-slow"
	}
	return fmt.Sprintf("win=%d type=%q style=%s start=%d events=%v audio=%v%s", c.Window, c.Type, c.Style, c.Start, c.Events, c.Audio, slow)
}

const c11SegBytes = 376 * 2 // every synthetic segment has the same size (byte-range addressing)

var c11SegCache = map[int][]byte{}

// c11Segment: segment msn holds one key frame at msn seconds (audio rendition: one access unit).
func c11Segment(msn int, audio bool) []byte {
	key := msn*2 + map[bool]int{false: 0, true: 1}[audio]
	if b, ok := c11SegCache[key]; ok {
		return b
	}
	var b []byte
	var err error
	if audio {
		b, err = buildTS([]sTrack{{Kind: "aac", TimeScale: 48000}}, []sUnit{{Track: 0, DTS: int64(msn) * 90000, Data: [][]byte{{0x21, byte(msn >> 8), byte(msn)}}}})
	} else {
		b, err = buildTS([]sTrack{{Kind: "h264"}}, []sUnit{{Track: 0, DTS: int64(msn) * 90000, Data: sVideoData(msn, true, true), Sync: true}})
	}
	if err != nil {
		panic(err)
	}
	for len(b) < c11SegBytes {
		// pad with null packets
		p := make([]byte, 188)
		p[0], p[1], p[2], p[3] = 0x47, 0x1f, 0xff, 0x10
		b = append(b, p...)
	}
	c11SegCache[key] = b
	return b
}

type c11State struct {
	mseq    int
	endlist bool
}

func c11States(start int, events []int) []c11State {
	st := []c11State{{mseq: start}}
	cur := st[0]
	for _, e := range events {
		if e < 0 {
			cur.endlist = true
		} else {
			cur.mseq += e
		}
		st = append(st, cur)
	}
	return st
}

// c11Off is the offset of segment msn inside the one big resource. Style "rangemix": 188 unrelated bytes sit in front
// of every even segment, even segments carry their (non-contiguous) offset and odd ones none.
func c11Off(style string, msn int) int {
	if style == "rangemix" {
		return msn*c11SegBytes + 188*(msn/2+1)
	}
	return msn * c11SegBytes
}

func c11SegURI(style string, msn int, audio bool) (uri string, byteRange string) {
	name := fmt.Sprintf("seg%d.ts", msn)
	if audio {
		name = fmt.Sprintf("aud%d.ts", msn)
	}
	switch style {
	case "abs":
		return "http://cdn.example/media/" + name, ""
	case "query":
		return name + "?token=abc&n=" + fmt.Sprint(msn), ""
	case "refs":
		// every form of relative reference of RFC 3986 5.2, by turns
		switch msn % 5 {
		case 0:
			return fmt.Sprintf("?seg=%d", msn), "" // query only: the playlist's own path
		case 1:
			return "/media/" + name, "" // absolute path
		case 2:
			return "../live/./" + name, "" // dot segments
		case 3:
			return "./" + name, ""
		default:
			return "//cdn.example/media/" + name, "" // network-path reference
		}
	case "range":
		f := "all.ts"
		if audio {
			f = "allaud.ts"
		}
		return f, fmt.Sprintf("%d@%d", c11SegBytes, msn*c11SegBytes)
	case "range0":
		// byte range without start: continues where the previous sub-range ended (first listed segment carries the start)
		f := "all.ts"
		if audio {
			f = "allaud.ts"
		}
		return f, fmt.Sprintf("%d", c11SegBytes)
	case "rangemix":
		f := "all.ts"
		if audio {
			f = "allaud.ts"
		}
		if msn%2 == 0 {
			return f, fmt.Sprintf("%d@%d", c11SegBytes, c11Off(style, msn))
		}
		return f, fmt.Sprintf("%d", c11SegBytes)
	}
	return name, ""
}

func c11Playlist(cs c11Case, st c11State, audio bool) string {
	var segs []plSeg
	for i := 0; i < cs.Window; i++ {
		msn := st.mseq + i
		uri, br := c11SegURI(cs.Style, msn, audio)
		if (cs.Style == "range0" || cs.Style == "rangemix") && i == 0 {
			br = fmt.Sprintf("%d@%d", c11SegBytes, c11Off(cs.Style, msn))
		}
		segs = append(segs, plSeg{URI: uri, DurNS: 1_000_000_000, ByteRange: br})
	}
	var extra []string
	if cs.Style == "blockadv" {
		// blocking reloads are advertised but there is no preload hint (the hint is optional; a finished Low-Latency
		// stream looks like this): the client plays the playlist the traditional way
		extra = append(extra, "#EXT-X-SERVER-CONTROL:CAN-BLOCK-RELOAD=YES,PART-HOLD-BACK=3.00000", "#EXT-X-PART-INF:PART-TARGET=1.00000")
	}
	if cs.Style == "skipadv" {
		// Playlist Delta Updates are advertised although the stream is not a Low-Latency one (no CAN-BLOCK-RELOAD, no
		// preload hint): a client in traditional mode does not ask for them
		extra = append(extra, "#EXT-X-SERVER-CONTROL:CAN-SKIP-UNTIL=6.00000")
	}
	if cs.Style == "endfirst" && st.endlist {
		// EXT-X-ENDLIST may appear anywhere in the playlist: here before the segments
		return writeMediaPlaylist(9, 1, st.mseq, cs.Type, "", segs, false, append(extra, "#EXT-X-ENDLIST"))
	}
	return writeMediaPlaylist(9, 1, st.mseq, cs.Type, "", segs, st.endlist, extra)
}

// c11DeltaPlaylist is what the server answers to a request that carries _HLS_skip (style "skipadv"): the first two
// segments replaced by EXT-X-SKIP.
func c11DeltaPlaylist(cs c11Case, st c11State, audio bool) string {
	full := c11Playlist(cs, st, audio)
	if cs.Window <= 2 {
		return full
	}
	lines := strings.Split(full, "\n")
	var out []string
	dropped := 0
	for i := 0; i < len(lines); i++ {
		if dropped < 2 && strings.HasPrefix(lines[i], "#EXTINF:") {
			if dropped == 0 {
				out = append(out, "#EXT-X-SKIP:SKIPPED-SEGMENTS=2")
			}
			dropped++
			i++ // the URI line
			continue
		}
		out = append(out, lines[i])
	}
	return strings.Join(out, "\n")
}

// c11Expect runs the integer model of one rendition: the requests it must issue (in order) and how it ends.
// end: "eos", "not-found", "too-late", "not-enough", "http" (history exhausted: the next poll gets 404).
func c11Expect(cs c11Case, states []c11State, audio bool, base string) (reqs []string, end string) {
	if cs.Style == "dirs" {
		// every rendition lives in its own directory below the multivariant playlist: relative URIs resolve against
		// the playlist that contains them
		if audio {
			base += "audio/"
		} else {
			base += "video/"
		}
	}
	plURL := base + "stream.m3u8"
	if audio {
		plURL = base + "audio.m3u8"
	}
	resolve := func(msn int) string {
		uri, _ := c11SegURI(cs.Style, msn, audio)
		if strings.HasPrefix(uri, "http://") {
			return uri
		}
		if cs.Style == "refs" {
			b, _ := url.Parse(plURL)
			r, _ := url.Parse(uri)
			return b.ResolveReference(r).String()
		}
		return base + uri
	}
	rangeOf := func(msn int) string {
		if cs.Style == "range" || cs.Style == "range0" || cs.Style == "rangemix" {
			return fmt.Sprintf(" bytes=%d-%d", c11Off(cs.Style, msn), c11Off(cs.Style, msn)+c11SegBytes-1)
		}
		return ""
	}
	poll := 0
	st := states[0]
	reqs = append(reqs, plURL)
	var cur int
	if cs.Type == "VOD" {
		cur = st.mseq
	} else {
		if cs.Window < 3 {
			return reqs, "not-enough"
		}
		cur = st.mseq + cs.Window - 3
	}
	for {
		reqs = append(reqs, resolve(cur)+rangeOf(cur))
		if st.endlist && cur == st.mseq+cs.Window-1 {
			return reqs, "eos"
		}
		poll++
		reqs = append(reqs, plURL)
		if poll >= len(states) {
			return reqs, "http"
		}
		st = states[poll]
		next := cur + 1
		idx := next - st.mseq
		if idx < 0 || idx >= cs.Window {
			return reqs, "not-found"
		}
		if !st.endlist && cs.Window-idx > 5 {
			return reqs, "too-late"
		}
		cur = next
	}
}

func c11Class(err error) string {
	if err == nil {
		return "none"
	}
	s := err.Error()
	switch {
	case err == ErrClientEOS || s == ErrClientEOS.Error():
		return "eos"
	case strings.Contains(s, "next segment not found"):
		return "not-found"
	case strings.Contains(s, "playback is too late"):
		return "too-late"
	case strings.Contains(s, "aren't enough segments"):
		return "not-enough"
	case strings.Contains(s, "bad status code: 404"):
		return "http"
	case strings.Contains(s, "terminated"):
		return "terminated"
	}
	return "other: " + s
}

func c11RunCase(c *vh.Ctx, cs c11Case) (sig, msg, outcome string) {
	base := "http://origin.example/live/"
	vStates := c11States(cs.Start, cs.Events)
	var aStates []c11State
	multi := cs.Audio != nil
	if multi {
		aStates = c11States(cs.Start, cs.Audio)
	}
	polls := map[bool]int{}
	srv := &stubServer{}
	srv.handler = func(n int, path, rawQuery string, req *http.Request) srvResp {
		name := path[strings.LastIndexByte(path, '/')+1:]
		if cs.AudioSlow && (name == "audio.m3u8" || strings.HasPrefix(name, "aud") || name == "allaud.ts") {
			time.Sleep(15 * time.Second)
		}
		if cs.Style == "dirs" && name != "index.m3u8" {
			// strict about directories: /live/video/ holds the variant, /live/audio/ the rendition
			wantDir := "/live/video/"
			if name == "audio.m3u8" || strings.HasPrefix(name, "aud") {
				wantDir = "/live/audio/"
			}
			if path != wantDir+name {
				return srvResp{Status: 404}
			}
		}
		switch {
		case name == "index.m3u8":
			vdir, adir := "", ""
			if cs.Style == "dirs" {
				vdir, adir = "video/", "audio/"
			}
			return srvResp{Status: 200, Body: []byte("#EXTM3U\n#EXT-X-VERSION:4\n#EXT-X-MEDIA:TYPE=AUDIO,GROUP-ID=\"a\",NAME=\"x\",DEFAULT=YES,AUTOSELECT=YES,URI=\"" + adir + "audio.m3u8\"\n" +
				"#EXT-X-STREAM-INF:BANDWIDTH=1000,CODECS=\"avc1.42c028,mp4a.40.2\",AUDIO=\"a\"\n" + vdir + "stream.m3u8\n")}
		case (name == "stream.m3u8" || name == "audio.m3u8") && strings.HasPrefix(rawQuery, "seg="):
			var msn int
			fmt.Sscanf(rawQuery, "seg=%d", &msn)
			return srvResp{Status: 200, Body: c11Segment(msn, name == "audio.m3u8")}
		case name == "stream.m3u8" || name == "audio.m3u8":
			audio := name == "audio.m3u8"
			states := vStates
			if audio {
				states = aStates
			}
			srv.mu.Lock()
			k := polls[audio]
			polls[audio]++
			srv.mu.Unlock()
			if k >= len(states) {
				return srvResp{Status: 404}
			}
			if cs.Style == "skipadv" && strings.Contains(rawQuery, "_HLS_skip=") {
				return srvResp{Status: 200, Body: []byte(c11DeltaPlaylist(cs, states[k], audio))}
			}
			return srvResp{Status: 200, Body: []byte(c11Playlist(cs, states[k], audio))}
		case name == "all.ts" || name == "allaud.ts":
			// one big resource: segment msn occupies bytes [msn*S, (msn+1)*S)
			audio := name == "allaud.ts"
			var all []byte
			hi := cs.Start + 40
			for m := 0; m < hi; m++ {
				for len(all) < c11Off(cs.Style, m) {
					all = append(all, 0xEE)
				}
				all = append(all, c11Segment(m, audio)...)
			}
			return srvResp{Status: 200, Body: all}
		case strings.HasPrefix(name, "seg") || strings.HasPrefix(name, "aud"):
			var msn int
			audio := strings.HasPrefix(name, "aud")
			if audio {
				fmt.Sscanf(name, "aud%d.ts", &msn)
			} else {
				fmt.Sscanf(name, "seg%d.ts", &msn)
			}
			return srvResp{Status: 200, Body: c11Segment(msn, audio)}
		}
		return srvResp{Status: 404}
	}
	uri := base + "stream.m3u8"
	if multi {
		uri = base + "index.m3u8"
	}
	obs := runClientPlain(c.T, uri, srv, cliOpts{})
	// expected
	wantV, endV := c11Expect(cs, vStates, false, base)
	var wantA []string
	endA := ""
	if multi {
		wantA, endA = c11Expect(cs, aStates, true, base)
	}
	// split the request log per rendition
	var gotV, gotA []string
	for _, r := range obs.Reqs {
		line := r.URL
		if r.Range != "" {
			line += " " + r.Range
		}
		switch {
		case strings.Contains(r.URL, "index.m3u8"):
		case strings.Contains(r.URL, "audio.m3u8") || strings.Contains(r.URL, "/aud") || strings.Contains(r.URL, "allaud"):
			gotA = append(gotA, line)
		default:
			gotV = append(gotV, line)
		}
	}
	outcome = fmt.Sprintf("%s|%d|%d|%s", c11Class(obs.WaitErr), len(gotV), len(gotA), endV)
	fail := func(s, m string) (string, string, string) {
		return s, m + "\ncase: " + cs.String(), outcome
	}
	if len(obs.Panics) > 0 {
		return fail("client-panic", obs.Panics[0])
	}
	if obs.Wedged {
		return fail("client-wedged", fmt.Sprintf("Wait() yielded nothing within %v of virtual time; requests so far: %v", obs.Elapsed, gotV))
	}
	if obs.Leaked {
		return fail("goroutine-leak", "goroutines of the client are still blocked after Wait() yielded and Close() was called")
	}
	// the first rendition to end decides the error; requests of each rendition must be a prefix of its model
	// (the other rendition may have been cut short by the first error) and equal to it for the one that ended.
	cmp := func(name string, got, want []string, mustEqual bool) (string, string) {
		n := len(got)
		if n > len(want) {
			return "unexpected-request/" + name, fmt.Sprintf("%s rendition issued %d requests, the model allows %d:\n got  %s\n want %s", name, n, len(want), strings.Join(got, "\n      "), strings.Join(want, "\n      "))
		}
		for i := range got {
			if got[i] != want[i] {
				return "wrong-request/" + name, fmt.Sprintf("request %d of the %s rendition is %q, the model expects %q\n got  %s\n want %s", i, name, got[i], want[i], strings.Join(got, "\n      "), strings.Join(want, "\n      "))
			}
		}
		if mustEqual && n < len(want) {
			return "missing-request/" + name, fmt.Sprintf("%s rendition stopped after %d requests, the model expects %d:\n got  %s\n want %s", name, n, len(want), strings.Join(got, "\n      "), strings.Join(want, "\n      "))
		}
		return "", ""
	}
	got := c11Class(obs.WaitErr)
	if !multi {
		if s, m := cmp("video", gotV, wantV, true); s != "" {
			return fail(s, m)
		}
		if got != endV {
			return fail("wrong-end/"+endV, fmt.Sprintf("the client ended with %q (%v), the model expects %q", got, obs.WaitErr, endV))
		}
		return "", "", outcome
	}
	// (a client that reports the end of the stream has played every rendition to its end: nothing is cut short then)
	if s, m := cmp("video", gotV, wantV, got == "eos"); s != "" {
		return fail(s, m)
	}
	if s, m := cmp("audio", gotA, wantA, got == "eos"); s != "" {
		return fail(s, m)
	}
	// the end must be the end of one of the renditions; EOS only when both have ended with EOS
	okEnd := got == endV || got == endA
	if got == "eos" && !(endV == "eos" && endA == "eos") {
		okEnd = false
	}
	if endV == "eos" && endA == "eos" && got != "eos" {
		okEnd = false
	}
	if !okEnd {
		return fail("wrong-end/multi", fmt.Sprintf("the client ended with %q (%v), the renditions' models end with %q (video) and %q (audio)", got, obs.WaitErr, endV, endA))
	}
	return "", "", outcome
}

var c11Advances = []int{0, 1, 2, 3, 6, -1}

func c11Histories(depth int) [][]int {
	out := [][]int{{}}
	frontier := [][]int{{}}
	for d := 0; d < depth; d++ {
		var next [][]int
		for _, h := range frontier {
			ended := false
			for _, e := range h {
				if e < 0 {
					ended = true
				}
			}
			for _, a := range c11Advances {
				if a < 0 && ended {
					continue
				}
				nh := append(append([]int{}, h...), a)
				next = append(next, nh)
				out = append(out, nh)
			}
		}
		frontier = next
	}
	return out
}

type c11Group struct {
	Window int
	Type   string
	Style  string
	Multi  bool
}

func c11Groups(tier string) []c11Group {
	var out []c11Group
	for _, w := range []int{1, 2, 3, 4, 6, 10} {
		for _, typ := range []string{"", "EVENT", "VOD"} {
			for _, style := range []string{"rel", "abs", "query", "range", "range0", "rangemix", "refs", "skipadv", "endfirst", "blockadv"} {
				if tier != "thorough" && style != "rel" && !(w == 4 || w == 6) {
					continue
				}
				out = append(out, c11Group{Window: w, Type: typ, Style: style})
			}
		}
	}
	for _, w := range []int{3, 6} {
		for _, typ := range []string{"", "VOD"} {
			out = append(out, c11Group{Window: w, Type: typ, Style: "rel", Multi: true})
			out = append(out, c11Group{Window: w, Type: typ, Style: "dirs", Multi: true})
		}
	}
	return out
}

// ---- Low-Latency clause: one preload-hint GET per playlist, _HLS_skip=YES on polls iff CAN-SKIP-UNTIL was advertised ----

type c11LL struct {
	Rounds  int    `json:"rounds"`   // playlists that carry a preload hint
	CanSkip bool   `json:"can_skip"` // the first playlist advertises CAN-SKIP-UNTIL
	End     string `json:"end"`      // "no-hint": the playlist after the last round has no hint; "404": it is missing
	Query   bool   `json:"query"`    // the playlist URL already carries a query string
	// Ranges: the hinted parts are byte ranges of one resource (BYTERANGE-START / BYTERANGE-LENGTH; the start is left out
	// when it is 0, as the library's own encoder does); "gap": with 7 unrelated bytes between consecutive parts
	Ranges string `json:"ranges,omitempty"`
}

func c11LLRun(c *vh.Ctx, cs c11LL) (sig, msg, outcome string) {
	st, err := c10Build(c10Case{Container: "fmp4", Tracks: "v", Frags: 1, PDT: true, VOD: true, NSeg: cs.Rounds + 1})
	if err != nil {
		return "engine", err.Error(), ""
	}
	polls := 0
	partRange := func(k int) (off, ln int) {
		for i := 0; i < k; i++ {
			off += len(st.rends[0].segs[i].Body)
			if cs.Ranges == "gap" {
				off += 7
			}
		}
		return off, len(st.rends[0].segs[k].Body)
	}
	// with byte ranges the init section is a sub-range of its resource too (EXT-X-MAP with BYTERANGE)
	mapRange, mapOff, initRes := "", 0, st.rends[0].init
	if cs.Ranges != "" {
		if cs.Ranges == "gap" {
			mapOff = 5
		}
		mapRange = fmt.Sprintf(",BYTERANGE=\"%d@%d\"", len(st.rends[0].init), mapOff)
		initRes = append(append(bytes.Repeat([]byte{0xEE}, mapOff), st.rends[0].init...), bytes.Repeat([]byte{0xEE}, 9)...)
	}
	srv := &stubServer{}
	srv.handler = func(n int, path, rawQuery string, req *http.Request) srvResp {
		name := path[strings.LastIndexByte(path, '/')+1:]
		switch {
		case name == "ll.m3u8":
			k := polls
			polls++
			if k > cs.Rounds || (k == cs.Rounds && cs.End == "404") {
				return srvResp{Status: 404}
			}
			var b strings.Builder
			sc := "CAN-BLOCK-RELOAD=YES,HOLD-BACK=6.00000,PART-HOLD-BACK=3.00000" // (HOLD-BACK: a standard attribute the client has no use for)
			if cs.CanSkip {
				sc += ",CAN-SKIP-UNTIL=6.00000"
			}
			fmt.Fprintf(&b, "#EXTM3U\n#EXT-X-VERSION:9\n#EXT-X-TARGETDURATION:1\n#EXT-X-SERVER-CONTROL:%s\n#EXT-X-PART-INF:PART-TARGET=1.00000\n#EXT-X-MEDIA-SEQUENCE:%d\n#EXT-X-MAP:URI=\"r0_init\"%s\n", sc, k, mapRange)
			fmt.Fprintf(&b, "#EXT-X-PROGRAM-DATE-TIME:2022-03-04T05:06:07.250Z\n#EXTINF:1.00000,\nseg%d.mp4\n", k)
			if k < cs.Rounds && cs.Ranges == "" {
				fmt.Fprintf(&b, "#EXT-X-PRELOAD-HINT:TYPE=PART,URI=\"part%d.mp4\"\n", k)
			} else if k < cs.Rounds {
				off, ln := partRange(k)
				if off == 0 {
					fmt.Fprintf(&b, "#EXT-X-PRELOAD-HINT:TYPE=PART,URI=\"parts.mp4\",BYTERANGE-LENGTH=%d\n", ln)
				} else {
					fmt.Fprintf(&b, "#EXT-X-PRELOAD-HINT:TYPE=PART,URI=\"parts.mp4\",BYTERANGE-START=%d,BYTERANGE-LENGTH=%d\n", off, ln)
				}
			}
			return srvResp{Status: 200, Body: []byte(b.String())}
		case name == "parts.mp4":
			var all []byte
			for k := 0; k < cs.Rounds && k < len(st.rends[0].segs); k++ {
				off, _ := partRange(k)
				for len(all) < off {
					all = append(all, 0xEE)
				}
				all = append(all, st.rends[0].segs[k].Body...)
			}
			return srvResp{Status: 200, Body: all}
		case name == "r0_init":
			return srvResp{Status: 200, Body: initRes}
		case strings.HasPrefix(name, "part"):
			var k int
			fmt.Sscanf(name, "part%d.mp4", &k)
			if k < len(st.rends[0].segs) {
				return srvResp{Status: 200, Body: st.rends[0].segs[k].Body}
			}
		}
		return srvResp{Status: 404}
	}
	base := "http://ll.example/live/"
	uri := base + "ll.m3u8"
	if cs.Query {
		uri += "?session=42"
	}
	obs := runClientPlain(c.T, uri, srv, cliOpts{})
	// model
	var want []string
	if cs.Ranges == "" {
		want = append(want, uri, base+"r0_init")
	} else {
		want = append(want, uri, fmt.Sprintf("%sr0_init [bytes=%d-%d]", base, mapOff, mapOff+len(st.rends[0].init)-1))
	}
	poll := uri
	if cs.CanSkip {
		if cs.Query {
			poll = base + "ll.m3u8?_HLS_skip=YES&session=42"
		} else {
			poll = base + "ll.m3u8?_HLS_skip=YES"
		}
	}
	for k := 0; k < cs.Rounds; k++ {
		if cs.Ranges == "" {
			want = append(want, fmt.Sprintf("%spart%d.mp4", base, k), poll)
		} else {
			off, ln := partRange(k)
			want = append(want, fmt.Sprintf("%sparts.mp4 [bytes=%d-%d]", base, off, off+ln-1), poll)
		}
	}
	wantEnd := "hint-disappeared"
	if cs.End == "404" {
		wantEnd = "http"
	}
	var got []string
	for _, r := range obs.Reqs {
		if r.Range != "" {
			got = append(got, r.URL+" ["+r.Range+"]")
		} else {
			got = append(got, r.URL)
		}
	}
	end := c11Class(obs.WaitErr)
	if obs.WaitErr != nil && strings.Contains(obs.WaitErr.Error(), "preload hint disappeared") {
		end = "hint-disappeared"
	}
	outcome = fmt.Sprintf("ll rounds=%d skip=%v ranges=%s end=%s reqs=%d", cs.Rounds, cs.CanSkip, cs.Ranges, end, len(got))
	where := fmt.Sprintf("\ncase: %+v\n got  %s\n want %s", cs, strings.Join(got, "\n      "), strings.Join(want, "\n      "))
	if len(obs.Panics) > 0 {
		return "client-panic", obs.Panics[0] + where, outcome
	}
	if obs.Wedged || obs.Leaked {
		return "client-wedged", fmt.Sprintf("wedged=%v leaked=%v", obs.Wedged, obs.Leaked) + where, outcome
	}
	if len(got) != len(want) {
		return "ll-request-count", fmt.Sprintf("the client issued %d requests, the model expects %d", len(got), len(want)) + where, outcome
	}
	for i := range got {
		if got[i] != want[i] {
			return "ll-wrong-request", fmt.Sprintf("request %d is %q, the model expects %q (one preload-hint GET per playlist, of exactly the hinted byte range, _HLS_skip=YES exactly when CAN-SKIP-UNTIL was advertised)", i, got[i], want[i]) + where, outcome
		}
	}
	if end != wantEnd {
		return "ll-wrong-end", fmt.Sprintf("the client ended with %q (%v), want %q", end, obs.WaitErr, wantEnd) + where, outcome
	}
	return "", "", outcome
}

// c11Huge: a playlist of well over a megabyte (a DVR window, long signed URIs): the client starts from the third segment from
// the end of the whole list (live) or from its first segment (PLAYLIST-TYPE:VOD with ENDLIST); segments answer 404, so the first segment request
// is the last one.
type c11Huge struct {
	Entries int  `json:"huge_entries"`
	Pad     int  `json:"pad"` // characters of query appended to every URI
	Live    bool `json:"live"`
}

func c11HugeRun(c *vh.Ctx, cs c11Huge) (sig, msg, outcome string) {
	var b strings.Builder
	b.WriteString("#EXTM3U\n#EXT-X-VERSION:3\n#EXT-X-TARGETDURATION:2\n#EXT-X-MEDIA-SEQUENCE:1000\n")
	if !cs.Live {
		b.WriteString("#EXT-X-PLAYLIST-TYPE:VOD\n")
	}
	pad := ""
	if cs.Pad > 0 {
		pad = "?sig=" + strings.Repeat("a", cs.Pad)
	}
	name := func(i int) string { return fmt.Sprintf("seg_%07d.ts%s", 1000+i, pad) }
	for i := 0; i < cs.Entries; i++ {
		b.WriteString("#EXTINF:2.00000,\n" + name(i) + "\n")
	}
	if !cs.Live {
		b.WriteString("#EXT-X-ENDLIST\n")
	}
	text := b.String()
	srv := &stubServer{}
	srv.handler = func(n int, path, rawQuery string, req *http.Request) srvResp {
		if strings.HasSuffix(path, "big.m3u8") {
			return srvResp{Status: 200, Body: []byte(text)}
		}
		return srvResp{Status: 404}
	}
	base := "http://big.example/live/"
	obs := runClientPlain(c.T, base+"big.m3u8", srv, cliOpts{})
	first := cs.Entries - 3
	if !cs.Live {
		first = 0
	}
	want := []string{base + "big.m3u8", base + name(first)}
	var got []string
	for _, r := range obs.Reqs {
		got = append(got, r.URL)
	}
	outcome = fmt.Sprintf("huge entries=%d bytes=%d live=%v reqs=%d end=%s", cs.Entries, len(text), cs.Live, len(got), c11Class(obs.WaitErr))
	where := fmt.Sprintf("\ncase: %+v (playlist of %d bytes)\n got  %s\n want %s", cs, len(text), strings.Join(got, "\n      "), strings.Join(want, "\n      "))
	if len(obs.Panics) > 0 {
		return "client-panic", obs.Panics[0] + where, outcome
	}
	if len(got) != len(want) {
		return "huge-request-count", fmt.Sprintf("the client issued %d requests, the model expects %d", len(got), len(want)) + where, outcome
	}
	for i := range got {
		if got[i] != want[i] {
			return "huge-wrong-request", fmt.Sprintf("request %d is %q, the model expects %q", i, got[i], want[i]) + where, outcome
		}
	}
	if c11Class(obs.WaitErr) != "http" {
		return "huge-wrong-end", fmt.Sprintf("the client ended with %v, want the 404 of the segment", obs.WaitErr) + where, outcome
	}
	return "", "", outcome
}

func c11LLCases() []c11LL {
	var out []c11LL
	for rounds := 1; rounds <= 4; rounds++ {
		for _, skip := range []bool{false, true} {
			for _, end := range []string{"no-hint", "404"} {
				for _, q := range []bool{false, true} {
					for _, rg := range []string{"", "contiguous", "gap"} {
						out = append(out, c11LL{Rounds: rounds, CanSkip: skip, End: end, Query: q, Ranges: rg})
					}
				}
			}
		}
	}
	return out
}

func c11List(tier string) []vh.Scenario {
	var out []vh.Scenario
	out = append(out, vh.Scenario{Name: "low-latency preload hints", Weight: 200})
	out = append(out, vh.Scenario{Name: "very large playlists", Weight: 100})
	for _, g := range c11Groups(tier) {
		w := 1000
		if g.Multi {
			w = 3000
		}
		out = append(out, vh.Scenario{Name: fmt.Sprintf("histories win=%d type=%q style=%s multi=%v", g.Window, g.Type, g.Style, g.Multi), Weight: w})
	}
	return out
}

func c11Run(c *vh.Ctx) {
	if c.Replay != nil && strings.Contains(string(c.Replay), `"rounds"`) {
		var cs c11LL
		json.Unmarshal(c.Replay, &cs)
		c.Exec()
		if sig, msg, _ := c11LLRun(c, cs); sig != "" {
			c.Violation("C11/"+sig, msg, cs)
		}
		return
	}
	if c.Replay != nil && strings.Contains(string(c.Replay), `"huge_entries"`) {
		var cs c11Huge
		json.Unmarshal(c.Replay, &cs)
		c.Exec()
		if sig, msg, _ := c11HugeRun(c, cs); sig != "" {
			c.Violation("C11/"+sig, msg, cs)
		}
		return
	}
	if c.Replay == nil && c.Scenario == "very large playlists" {
		for _, cs := range []c11Huge{{Entries: 12000, Pad: 90, Live: true}, {Entries: 12000, Pad: 90, Live: false}, {Entries: 70000, Pad: 0, Live: true}, {Entries: 9000, Pad: 300, Live: true}} {
			sig, msg, outcome := c11HugeRun(c, cs)
			c.Exec()
			c.AddStates(1)
			c.Outcome(outcome)
			c.Sample(map[string]any{"case": cs, "outcome": outcome})
			if sig != "" {
				c.Violation("C11/"+sig, msg, cs)
			}
		}
		return
	}
	if c.Replay == nil && c.Scenario == "low-latency preload hints" {
		for _, cs := range c11LLCases() {
			sig, msg, outcome := c11LLRun(c, cs)
			if sig == "engine" {
				c.EngineError("%s", msg)
				return
			}
			c.Exec()
			c.AddStates(1)
			c.AddTransitions(int64(cs.Rounds))
			c.Outcome(outcome)
			c.Sample(map[string]any{"case": cs, "outcome": outcome})
			if sig != "" {
				c.Violation("C11/"+sig, msg, cs)
			}
		}
		return
	}
	if c.Replay != nil {
		var cs c11Case
		if err := json.Unmarshal(c.Replay, &cs); err != nil {
			c.EngineError("bad replay: %v", err)
			return
		}
		c.Exec()
		if sig, msg, _ := c11RunCase(c, cs); sig != "" {
			c.Violation("C11/"+sig, msg, cs)
		}
		return
	}
	depth := 4
	if c.Tier == "thorough" {
		depth = 5
	}
	for _, g := range c11Groups(c.Tier) {
		if fmt.Sprintf("histories win=%d type=%q style=%s multi=%v", g.Window, g.Type, g.Style, g.Multi) != c.Scenario {
			continue
		}
		hs := c11Histories(depth)
		seen := map[string]bool{}
		t0 := time.Now()
		for i, h := range hs {
			cases := []c11Case{{Window: g.Window, Type: g.Type, Style: g.Style, Start: 7, Events: h}}
			if g.Multi {
				cases = nil
				// the audio rendition evolves independently: every history of depth <= 2 against every video history of depth <= 3
				if len(h) > 3 {
					continue
				}
				for _, ah := range c11Histories(2) {
					cases = append(cases, c11Case{Window: g.Window, Type: g.Type, Style: g.Style, Start: 7, Events: h, Audio: append([]int{}, ah...)})
					if len(h) > 0 && len(ah) > 0 && h[len(h)-1] == -1 && ah[len(ah)-1] == -1 {
						// both renditions reach EXT-X-ENDLIST, the audio one much later
						cases = append(cases, c11Case{Window: g.Window, Type: g.Type, Style: g.Style, Start: 7, Events: h, Audio: append([]int{}, ah...), AudioSlow: true})
					}
				}
			}
			for _, cs := range cases {
				sig, msg, outcome := c11RunCase(c, cs)
				c.Exec()
				c.AddStates(1)
				c.AddTransitions(int64(len(cs.Events) + len(cs.Audio)))
				c.Outcome(c.Scenario + "|" + outcome)
				if c.WantSample() && len(h) == depth && i%97 == 0 {
					c.Sample(map[string]any{"case": cs.String(), "outcome": outcome})
				}
				if sig != "" && !seen[sig] {
					seen[sig] = true
					c.Violation("C11/"+sig, msg, cs)
				}
			}
			if c.NViolations() > 3 {
				c.Cap(c.Scenario + ": stopped after violations")
				return
			}
			if i%32 == 0 && c.Expired() {
				c.Cap(fmt.Sprintf("%s: deadline reached after %d of %d histories (%.0fs)", c.Scenario, i, len(hs), time.Since(t0).Seconds()))
				return
			}
		}
		return
	}
	c.EngineError("unknown scenario %q", c.Scenario)
}
