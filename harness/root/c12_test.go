//go:build verif

package gohlslib

// C12: the client always terminates cleanly (engine E2 over E5 scenarios): every fault kind at every request index,
// Close() at every scheduling point (deviation bound 1 places the closer's single step everywhere), second Close.

import (
	"context"
	"encoding/json"
	"errors"
	"fmt"
	"net/http"
	"os"
	"sort"
	"strconv"
	"strings"

	"github.com/bluenviron/gohlslib/v2/internal/zzverif/vh"
	"github.com/bluenviron/gohlslib/v2/internal/zzverif/vsched"
	"github.com/bluenviron/gohlslib/v2/pkg/codecs"
)

func init() {
	verifProps["C12"] = vh.Prop{List: c12List, Run: c12Run}
}

type c12Scen struct {
	Stream  string `json:"stream"`  // fmp4-va fmp4-v+a ts-va ll
	Fault   string `json:"fault"`   // none 404 500 neterr stall ontracks 503stall timeout truncated
	At      int    `json:"at"`      // request index of the fault
	Closers int    `json:"closers"` // 0, 1 or 2 closer threads (each calls Close once)
	Bound   int    `json:"bound"`
	NSeg    int    `json:"nseg"`
	Policy  int    `json:"policy"`        // canonical schedule: 0 run until blocked then ascending ids, 1 round robin, 2 run until blocked then descending ids
	Res     string `json:"res,omitempty"` // if set, the fault hits the first request for this resource instead of request number At
	// CloseInCB: the k-th user callback invocation (1-based) calls Close itself, on the client's own goroutine
	CloseInCB int `json:"close_in_cb,omitempty"`
	// SlowTracks: the user's OnTracks callback takes a few steps of its own before it returns (Close may arrive meanwhile)
	SlowTracks bool `json:"slow_tracks,omitempty"`
	// Res2: a second resource whose first request meets the same fault (two routines of the client fail at about the same time)
	Res2 string `json:"res2,omitempty"`
	// LagTracks (Low-Latency stream): the user's OnTracks callback returns only after the server has seen the request for the
	// third part, so that the processor is more than one part behind the downloader
	LagTracks bool `json:"lag_tracks,omitempty"`
}

func (s c12Scen) name() string {
	cb := ""
	if s.CloseInCB != 0 {
		cb = fmt.Sprintf(" close-in-callback=%d", s.CloseInCB)
	}
	if s.SlowTracks {
		cb += " slow-ontracks"
	}
	if s.Res2 != "" {
		cb += " and@0" + s.Res2
	}
	if s.LagTracks {
		cb += " lagging-ontracks"
	}
	return fmt.Sprintf("C12 %s fault=%s@%d%s closers=%d%s bound=%d nseg=%d policy=%d", s.Stream, s.Fault, s.At, s.Res, s.Closers, cb, s.Bound, s.NSeg, s.Policy)
}

// vstallBody is the scheduler-aware version of a body that never arrives.
type vstallBody struct{ req *http.Request }

func (b *vstallBody) Read(p []byte) (int, error) {
	t := vsched.Pre("stalled body")
	<-b.req.Context().Done()
	vsched.Post(t, "stalled body")
	return 0, b.req.Context().Err()
}
func (b *vstallBody) Close() error { return nil }

type c12State struct {
	sc              c12Scen
	c               *Client
	srv             *stubServer
	waitErr         error
	waitGot         bool
	callbacks       int
	afterEnd        int
	onTracksN       int
	closeCalls      int
	closedBeforeEnd bool
	ontracksErr     error
	faultDone       bool
	faultHit        bool
	fault2Done      bool
	nreq            int              // requests the server has seen
	lastDTS         map[*Track]int64 // per track: decode time of the last unit delivered
	outOfOrder      string           // a unit delivered twice or out of order
	inCallback      int              // user callbacks that have been entered and have not returned
	runningAtEnd    bool             // a user callback was still running when Wait() yielded
}

var errC12OnTracks = errors.New("on-tracks refused")

func c12Resources(sc c12Scen) (entry string, res map[string][]byte, order []string) {
	res = map[string][]byte{}
	switch sc.Stream {
	case "ll":
		// Low-Latency: playlist with blocking reload + preload hint; three rounds, then the playlist disappears
		st, err := c10Build(c10Case{Container: "fmp4", Tracks: "v", Frags: 1, PDT: true, VOD: true, NSeg: 4})
		if err != nil {
			panic(err)
		}
		res["r0_init"] = st.rends[0].init
		for j, s := range st.rends[0].segs {
			res[fmt.Sprintf("part%d", j)] = s.Body
		}
		for k := 0; k < 4; k++ {
			var b strings.Builder
			fmt.Fprintf(&b, "#EXTM3U\n#EXT-X-VERSION:9\n#EXT-X-TARGETDURATION:1\n#EXT-X-SERVER-CONTROL:CAN-BLOCK-RELOAD=YES,PART-HOLD-BACK=3.00000,CAN-SKIP-UNTIL=6.00000\n#EXT-X-PART-INF:PART-TARGET=1.00000\n#EXT-X-MEDIA-SEQUENCE:%d\n#EXT-X-MAP:URI=\"r0_init\"\n", k)
			fmt.Fprintf(&b, "#EXT-X-PROGRAM-DATE-TIME:2022-03-04T05:06:07.250Z\n#EXTINF:1.00000,\nseg%d.mp4\n", k)
			if k < 3 {
				fmt.Fprintf(&b, "#EXT-X-PRELOAD-HINT:TYPE=PART,URI=\"part%d\"\n", k)
			}
			res[fmt.Sprintf("ll%d.m3u8", k)] = []byte(b.String())
		}
		return "ll.m3u8", res, nil
	}
	cs := c10Case{Container: "fmp4", Tracks: "va", Frags: 1, PDT: true, VOD: true, NSeg: sc.NSeg}
	switch sc.Stream {
	case "fmp4-v+a", "fmp4-v+a-extra":
		cs.Tracks = "v+a"
	case "ts-va":
		cs.Container = "ts"
	case "fmp4-va-sparse":
		// (built like fmp4-va with three segments; below, the audio track of the middle one is given a track fragment without samples)
		cs.NSeg = 3
	case "fmp4-frags":
		// several fragments per segment: the stream processor hands fragment n+1 to a track processor that is still
		// pacing the samples of fragment n, one more hand-off where Close or a fault can find it
		cs.Tracks, cs.Frags = "va", 3
	case "ts-big":
		// one segment with more video units than the per-track sample queue of the MPEG-TS processor holds (100): the
		// stream processor blocks while handing samples over, which is one more place where Close can find it
		cs.Container, cs.Tracks, cs.Frames, cs.NSeg = "ts", "v", 120, 1
	}
	st, err := c10Build(cs)
	if err != nil {
		panic(err)
	}
	srv := st.server()
	if len(st.rends) > 1 {
		entry = "index.m3u8"
		res["index.m3u8"] = srv.handler(0, "/index.m3u8", "", nil).Body
	} else {
		entry = "r0.m3u8"
	}
	for ri, r := range st.rends {
		res[fmt.Sprintf("r%d.m3u8", ri)] = []byte(st.playlist(ri))
		if r.init != nil {
			res[fmt.Sprintf("r%d_init", ri)] = r.init
			if sc.Stream == "fmp4-v+a-extra" && ri == 0 {
				// the leading stream's init segment announces one more track, of a codec the client cannot decode: the leading
				// stream ends with an error after the other stream has started to wait for it
				b, err := buildInit(append(append([]sTrack{}, r.tracks...), sTrack{Kind: "ac3", ID: len(r.tracks) + 1, TimeScale: 48000}))
				if err != nil {
					panic(err)
				}
				res["r0_init"] = b
			}
		}
		for j, s := range r.segs {
			res[fmt.Sprintf("r%d_seg%d", ri, j)] = s.Body
			if sc.Stream == "fmp4-va-sparse" && ri == 0 && j == 1 {
				// a momentarily silent audio track: its track fragment is there, without samples
				var frags [][]sUnit
				for _, f := range s.Frags {
					var nf []sUnit
					marked := false
					for _, u := range f {
						if r.tracks[u.Track].Kind == "h264" {
							nf = append(nf, u)
						} else if !marked {
							marked = true
							nf = append(nf, sUnit{Track: u.Track, DTS: u.DTS, Empty: true})
						}
					}
					frags = append(frags, nf)
				}
				b, err := buildFMP4(r.tracks, frags, uint32(j*len(s.Frags)))
				if err != nil {
					panic(err)
				}
				res["r0_seg1"] = b
			}
		}
	}
	return entry, res, nil
}

func c12Harness(sc c12Scen) vsched.Harness {
	return vsched.Harness{
		Setup: func(s *vsched.Sched) any {
			st := &c12State{sc: sc}
			entry, res, _ := c12Resources(sc)
			llPolls := 0
			st.srv = &stubServer{}
			st.srv.handler = func(n int, path, rawQuery string, req *http.Request) srvResp {
				name := path[strings.LastIndexByte(path, '/')+1:]
				hit := n == sc.At
				st.nreq = n + 1
				if sc.Res2 != "" && name == sc.Res2 && !st.fault2Done {
					st.fault2Done = true
					st.faultHit = true
					hit = true
				} else if sc.Res != "" {
					hit = name == sc.Res && !st.faultDone
					if hit {
						st.faultDone = true
						st.faultHit = true
					}
				}
				if sc.Fault != "none" && sc.Fault != "ontracks" && hit {
					switch sc.Fault {
					case "404":
						return srvResp{Status: 404}
					case "500":
						return srvResp{Status: 500}
					case "neterr":
						return srvResp{Err: true}
					case "stall":
						return srvResp{Status: 200, Stall: true}
					case "timeout":
						// what http.Client.Timeout produces: a transport error that is a context.DeadlineExceeded although the
						// client's own context is alive
						return srvResp{ErrIs: context.DeadlineExceeded}
					case "truncated":
						// the connection drops in the middle of a body whose length was announced
						if b, ok := res[name]; ok && len(b) > 1 {
							return srvResp{Status: 200, Body: b, Trunc: true}
						}
						return srvResp{Err: true}
					case "503stall":
						// a rejection whose body never arrives (a proxy that keeps the connection open)
						return srvResp{Status: 503, Stall: true}
					}
				}
				if name == "ll.m3u8" {
					k := llPolls
					llPolls++
					if b, ok := res[fmt.Sprintf("ll%d.m3u8", k)]; ok {
						return srvResp{Status: 200, Body: b}
					}
					return srvResp{Status: 404}
				}
				if b, ok := res[name]; ok {
					return srvResp{Status: 200, Body: b}
				}
				return srvResp{Status: 404}
			}
			st.srv.stallFactory = func(req *http.Request) interface {
				Read([]byte) (int, error)
				Close() error
			} {
				return &vstallBody{req: req}
			}
			if sc.Fault == "ontracks" {
				st.ontracksErr = errC12OnTracks
			}
			var c *Client
			cb := func() {
				st.callbacks++
				if st.waitGot {
					st.afterEnd++
				}
				if sc.CloseInCB != 0 && st.callbacks == sc.CloseInCB {
					// the user closes the client from inside a callback
					if !st.waitGot {
						st.closedBeforeEnd = true
					}
					st.closeCalls++
					c.Close()
				}
			}
			c = &Client{
				URI:                       "http://srv.example/s/" + entry,
				HTTPClient:                &http.Client{Transport: st.srv},
				OnDownloadPrimaryPlaylist: func(string) { cb() },
				OnDownloadStreamPlaylist:  func(string) { cb() },
				OnDownloadSegment:         func(string) { cb() },
				OnDownloadPart:            func(string) { cb() },
				OnDecodeError:             func(error) { cb() },
				OnRequest:                 func(*http.Request) { cb() },
				OnTracks: func(tracks []*Track) error {
					cb()
					st.onTracksN++
					if st.ontracksErr != nil {
						return st.ontracksErr
					}
					if sc.LagTracks {
						st.inCallback++
						vsched.ParkUntil(func() bool { return st.nreq >= 7 || st.closeCalls > 0 }, "user code inside OnTracks waits for the third part to be requested")
						st.inCallback--
					}
					if sc.SlowTracks {
						st.inCallback++
						for k := 0; k < 3; k++ {
							vsched.Yield("user code inside OnTracks")
						}
						st.inCallback--
					}
					for _, tr := range tracks {
						switch tr.Codec.(type) {
						case *codecs.H264, *codecs.H265:
							tr := tr
							c.OnDataH26x(tr, func(pts, dts int64, au [][]byte) {
								cb()
								// decode times of one track increase strictly: a unit delivered twice, or out of order, shows here
								if st.lastDTS == nil {
									st.lastDTS = map[*Track]int64{}
								}
								if last, ok := st.lastDTS[tr]; ok && dts <= last && st.outOfOrder == "" {
									st.outOfOrder = fmt.Sprintf("a video unit with decode time %d was delivered after the one with decode time %d", dts, last)
								}
								st.lastDTS[tr] = dts
							})
						case *codecs.MPEG4Audio:
							c.OnDataMPEG4Audio(tr, func(pts int64, aus [][]byte) { cb() })
						}
					}
					return nil
				},
			}
			st.c = c
			vsched.GoNamed("user", func() {
				if err := c.Start(); err != nil {
					st.waitErr, st.waitGot = err, true
					return
				}
				t := vsched.Pre("user waits")
				err := <-c.Wait()
				vsched.Post(t, "user waits")
				st.waitErr, st.waitGot = err, true
				st.runningAtEnd = st.inCallback > 0
			})
			for i := 0; i < sc.Closers; i++ {
				vsched.GoNamed(fmt.Sprintf("closer%d", i), func() {
					vsched.Yield("before Close")
					if c.ctxCancel == nil {
						return // Start has not run yet: Close before Start is outside the documented usage
					}
					if !st.waitGot {
						st.closedBeforeEnd = true
					}
					st.closeCalls++
					c.Close()
				})
			}
			return st
		},
		Check: func(s *vsched.Sched, tr *vsched.Trace, sti any) (string, []vsched.Viol) {
			st := sti.(*c12State)
			var viols []vsched.Viol
			add := func(sig, msg string) { viols = append(viols, vsched.Viol{Sig: sig, Msg: msg}) }
			for _, p := range tr.Panics {
				add("panic:"+firstLibFrame(p), p)
			}
			if tr.Livelock != "" {
				add("livelock", "a goroutine of the client spins instead of ending: "+tr.Livelock)
			}
			// every thread the client started must be finished once Wait() has yielded
			var stuck []string
			for _, t := range s.Threads() {
				if !t.Done() {
					stuck = append(stuck, t.Name+" @ "+t.Where())
				}
			}
			end := "none"
			if st.waitGot {
				end = c11Class(st.waitErr)
			}
			if !st.waitGot {
				// legitimate only if the stream stalls and nobody closed
				if sc.Fault == "stall" && st.closeCalls == 0 {
					// the user is still waiting and so are the client's goroutines: release them for the next checks
				} else {
					add("wait-never-yields/"+sc.Fault, fmt.Sprintf("Wait() never yielded (fault %s at request %d, Close called %d times); blocked: %v", sc.Fault, sc.At, st.closeCalls, stuck))
				}
			} else {
				if len(stuck) > 0 {
					add("goroutine-leak", fmt.Sprintf("Wait() yielded %q but %d goroutine(s) started by the client are still blocked: %v", end, len(stuck), stuck))
				}
				if len(st.c.outErr) != 0 {
					add("second-error", "a second value is waiting in the channel returned by Wait()")
				}
				// which error?
				want := map[string]bool{}
				nreq := len(st.srv.requests())
				faultHit := sc.Fault != "none" && sc.Fault != "ontracks" && sc.At < nreq
				if sc.Res != "" {
					faultHit = st.faultHit
				}
				switch {
				case sc.Fault == "ontracks" && st.onTracksN > 0:
					want["ontracks"] = true
					// the downloader runs concurrently with the track negotiation: its own end may come first
					if sc.Stream == "ll" {
						want["hint-disappeared"] = true
					}
				case faultHit && sc.Fault == "404":
					want["http"] = true
				case faultHit && sc.Fault == "500":
					want["http500"] = true
				case faultHit && sc.Fault == "503stall":
					want["http503"] = true
				case faultHit && sc.Fault == "truncated":
					want["unexpected-eof"] = true
					want["neterr"] = true // (resources this scenario cannot truncate get a transport error instead)
				case faultHit && (sc.Fault == "neterr" || sc.Fault == "timeout"):
					want["neterr"] = true
				case faultHit && sc.Fault == "stall":
					// never ends by itself
				default:
					if sc.Stream == "ll" {
						want["hint-disappeared"] = true
					} else {
						want["eos"] = true
					}
				}
				if sc.Stream == "fmp4-v+a-extra" {
					// the content error of the leading stream (its init segment announces a track that cannot be decoded) may
					// come before whatever else ends the session; the end of the stream is never reached
					delete(want, "eos")
					want["unsupported"] = true
				}
				if st.closedBeforeEnd {
					want["terminated"] = true
					// a fault / EOS that had already happened may still win
					if sc.Stream == "ll" {
						want["hint-disappeared"] = true
					} else {
						want["eos"] = true
					}
					if sc.Fault == "ontracks" {
						want["ontracks"] = true
					}
					// an aborted request surfaces as a context error
					want["canceled"] = true
				}
				got := end
				s := ""
				if st.waitErr != nil {
					s = st.waitErr.Error()
				}
				switch {
				case strings.Contains(s, "bad status code: 500"):
					got = "http500"
				case strings.Contains(s, "bad status code: 503"):
					got = "http503"
				case strings.Contains(s, "unexpected EOF"):
					got = "unexpected-eof"
				case strings.Contains(s, "injected transport error"):
					got = "neterr"
				case st.waitErr == errC12OnTracks || strings.Contains(s, errC12OnTracks.Error()):
					got = "ontracks"
				case strings.Contains(s, "preload hint disappeared"):
					got = "hint-disappeared"
				case strings.Contains(s, "context canceled"):
					got = "canceled"
				case strings.Contains(s, "unsupported codec"):
					got = "unsupported"
				}
				if !want[got] {
					var w []string
					for k := range want {
						w = append(w, k)
					}
					add("wrong-error/"+sc.Fault, fmt.Sprintf("Wait() yielded %q (%v); with fault %s at request %d (hit=%v), Close before the end=%v, the acceptable outcomes are %v", got, st.waitErr, sc.Fault, sc.At, faultHit, st.closedBeforeEnd, w))
				}
				if st.runningAtEnd {
					add("callback-running-at-end", "Wait() yielded while the user's OnTracks callback, entered on a goroutine of the client, had not returned yet")
				}
				if st.afterEnd > 0 {
					add("callback-after-end", fmt.Sprintf("%d user callback(s) were invoked after Wait() had yielded", st.afterEnd))
				}
			}
			if st.outOfOrder != "" {
				add("delivery-order", "units of one track reach the user each exactly once and in download order: "+st.outOfOrder)
			}
			outcome := fmt.Sprintf("%s|%s|%s|closed=%v|cb=%d", sc.Stream, sc.Fault, end, st.closedBeforeEnd, st.callbacks/4)
			// tidy up: cancel whatever is still running so that the bubble can end
			if st.c.ctxCancel != nil {
				func() {
					defer func() { recover() }()
					st.c.ctxCancel()
				}()
			}
			return outcome, viols
		},
	}
}

func c12Scens(tier string) []c12Scen {
	var out []c12Scen
	bound := 1
	if tier == "thorough" {
		bound = 2
	}
	for _, policy := range []int{0, 1, 2} {
		for _, stream := range []string{"fmp4-va", "fmp4-v+a", "ts-va", "ll", "ts-big", "fmp4-frags", "fmp4-v+a-extra", "fmp4-va-sparse"} {
			nreq := map[string]int{"fmp4-va": 4, "fmp4-v+a": 9, "ts-va": 3, "ll": 8, "ts-big": 2, "fmp4-frags": 4, "fmp4-v+a-extra": 6, "fmp4-va-sparse": 5}[stream]
			nseg := 2
			for _, fault := range []string{"none", "404", "500", "neterr", "stall", "ontracks", "503stall", "timeout", "truncated"} {
				if (fault == "503stall" || fault == "timeout" || fault == "truncated") && policy != 0 && tier != "thorough" {
					continue
				}
				ats := []int{0}
				if fault != "none" && fault != "ontracks" {
					ats = nil
					for i := 0; i < nreq; i++ {
						ats = append(ats, i)
					}
				}
				if fault != "none" && fault != "ontracks" {
					// the same fault on the first request for each resource (whatever its position in the request order)
					_, res, _ := c12Resources(c12Scen{Stream: stream, NSeg: nseg})
					var names []string
					for k := range res {
						if strings.HasPrefix(k, "ll") && k != "ll.m3u8" {
							continue
						}
						names = append(names, k)
					}
					if stream == "ll" {
						names = append(names, "ll.m3u8")
					}
					sort.Strings(names)
					for _, rn := range names {
						out = append(out, c12Scen{Stream: stream, Fault: fault, Res: rn, Closers: 0, Bound: bound, NSeg: nseg, Policy: policy})
						if tier == "thorough" {
							out = append(out, c12Scen{Stream: stream, Fault: fault, Res: rn, Closers: 1, Bound: bound, NSeg: nseg, Policy: policy})
						}
					}
				}
				for _, at := range ats {
					// without Close: the default schedule and every schedule with up to `bound` deviations
					out = append(out, c12Scen{Stream: stream, Fault: fault, At: at, Closers: 0, Bound: bound, NSeg: nseg, Policy: policy})
					// with Close at every scheduling point
					out = append(out, c12Scen{Stream: stream, Fault: fault, At: at, Closers: 1, Bound: bound, NSeg: nseg, Policy: policy})
					if (fault == "none" && (policy == 0 || tier == "thorough")) || (tier == "thorough" && at%3 == 0) {
						b2 := bound + 1
						if tier == "thorough" {
							b2 = bound // two closers at bound 3 need more memory and time than the tier has
						}
						out = append(out, c12Scen{Stream: stream, Fault: fault, At: at, Closers: 2, Bound: b2, NSeg: nseg, Policy: policy})
					}
				}
			}
		}
	}
	// two routines of the client failing at about the same time (the variant's and the rendition's playlist, init segment,
	// first segment): exactly one error comes out and everything is joined
	for _, policy := range []int{0, 1, 2} {
		for _, fault := range []string{"404", "neterr"} {
			for _, pair := range [][2]string{{"r0.m3u8", "r1.m3u8"}, {"r0_init", "r1_init"}, {"r0_seg0", "r1_seg0"}, {"r0.m3u8", "r1_init"}} {
				for _, closers := range []int{0, 1} {
					if closers == 1 && policy != 0 {
						continue
					}
					out = append(out, c12Scen{Stream: "fmp4-v+a", Fault: fault, Res: pair[0], Res2: pair[1], Closers: closers, Bound: bound, NSeg: 2, Policy: policy})
				}
			}
		}
	}
	// Low-Latency: a processor that is more than one part behind the downloader (the user's OnTracks takes long)
	for _, policy := range []int{0, 1, 2} {
		out = append(out, c12Scen{Stream: "ll", Fault: "none", Closers: 0, LagTracks: true, Bound: bound, NSeg: 2, Policy: policy})
		out = append(out, c12Scen{Stream: "ll", Fault: "none", Closers: 1, LagTracks: true, Bound: bound, NSeg: 2, Policy: policy})
		// ... and the server holds the fourth playlist request, so that the session lasts until every queued part was delivered
		out = append(out, c12Scen{Stream: "ll", Fault: "stall", At: 7, Closers: 0, LagTracks: true, Bound: bound, NSeg: 2, Policy: policy})
		out = append(out, c12Scen{Stream: "ll", Fault: "stall", At: 7, Closers: 1, LagTracks: true, Bound: bound, NSeg: 2, Policy: policy})
	}
	// a user OnTracks callback that takes its time, Close arriving at every point of it
	for _, policy := range []int{0, 1, 2} {
		for _, stream := range []string{"fmp4-va", "fmp4-v+a", "ts-va", "ll"} {
			out = append(out, c12Scen{Stream: stream, Fault: "none", Closers: 1, SlowTracks: true, Bound: bound, NSeg: 2, Policy: policy})
			if policy == 0 {
				out = append(out, c12Scen{Stream: stream, Fault: "none", Closers: 2, SlowTracks: true, Bound: bound, NSeg: 2, Policy: policy})
			}
		}
	}
	// Close called by the user from inside the k-th callback (before the first response, while tracks are negotiated,
	// while samples are delivered, ...): the callbacks run on the client's own goroutines
	for _, stream := range []string{"fmp4-va", "fmp4-v+a", "ts-va", "ll"} {
		ncb := 24
		if tier == "thorough" {
			ncb = 60
		}
		for k := 1; k <= ncb; k++ {
			out = append(out, c12Scen{Stream: stream, Fault: "none", Closers: 0, CloseInCB: k, Bound: bound, NSeg: 2, Policy: 0})
			if k%4 == 1 {
				out = append(out, c12Scen{Stream: stream, Fault: "none", Closers: 1, CloseInCB: k, Bound: bound, NSeg: 2, Policy: 0})
			}
		}
	}
	return out
}

func c12List(tier string) []vh.Scenario {
	var out []vh.Scenario
	for _, s := range c12Scens(tier) {
		w := 100 * (1 + s.Closers)
		if s.Stream == "fmp4-v+a" {
			w *= 3
		}
		out = append(out, vh.Scenario{Name: s.name(), Weight: w})
	}
	return out
}

func c12Run(c *vh.Ctx) {
	if c.Replay != nil {
		var rp schedReplay
		if err := json.Unmarshal(c.Replay, &rp); err != nil {
			c.EngineError("bad replay: %v", err)
			return
		}
		var sc c12Scen
		json.Unmarshal(rp.Scen, &sc)
		ex := &vsched.Explorer{T: c.T, H: c12Harness(sc), Delay: true, Rotate: rp.Policy == 1, Reverse: rp.Policy == 2}
		tr, _, viols := ex.Replay(rp.Choices)
		c.Exec()
		if tr.EngineErr != "" {
			c.EngineError("%s", tr.EngineErr)
			return
		}
		for _, v := range viols {
			c.Violation(v.Sig, v.Msg, rp)
		}
		return
	}
	for _, sc := range c12Scens(c.Tier) {
		if sc.name() == c.Scenario {
			if b, ok := c.Params["bound"]; ok {
				sc.Bound, _ = strconv.Atoi(b)
			}
			runSchedPolicy(c, sc, c12Harness(sc), sc.Bound, true, sc.Policy, 0, 1)
			return
		}
	}
	c.EngineError("unknown scenario %q", c.Scenario)
}

var _ = os.Getenv
