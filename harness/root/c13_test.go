//go:build verif

package gohlslib

// C13: malformed or unsupported server content cannot crash or wedge the client (engine E5, exhaustive over a finite
// mutation catalogue applied at every request position of base scenarios).

import (
	"encoding/binary"
	"encoding/json"
	"fmt"
	"net/http"
	"os"
	"path/filepath"
	"runtime"
	"sort"
	"strconv"
	"strings"
	"sync"
	"time"

	"github.com/bluenviron/gohlslib/v2/internal/zzverif/vh"
)

func init() {
	verifProps["C13"] = vh.Prop{List: c13List, Run: c13Run}
}

// a base scenario: a set of named resources
type c13Base struct {
	name  string
	entry string
	res   map[string][]byte
}

func c13BaseScenarios() []*c13Base {
	var out []*c13Base
	// 1. fMP4, one playlist, video + audio, VOD, 3 segments of 2 fragments
	{
		st, err := c10Build(c10Case{Container: "fmp4", Tracks: "va", Frags: 2, PDT: true, VOD: true, NSeg: 3})
		if err != nil {
			panic(err)
		}
		b := &c13Base{name: "fmp4-va", entry: "r0.m3u8", res: map[string][]byte{}}
		b.res["r0.m3u8"] = []byte(st.playlist(0))
		b.res["r0_init"] = st.rends[0].init
		for j, s := range st.rends[0].segs {
			b.res[fmt.Sprintf("r0_seg%d", j)] = s.Body
		}
		out = append(out, b)
	}
	// 1b. the same with the other codec families of the fMP4 variant (every payload decoder of the client is reached by
	// the structure-aware mutations: sample sizes 0 / huge, durations, track ids ...)
	for _, vc := range [][2]string{{"vp9", "opus"}, {"av1", ""}, {"h265", "opus"}} {
		st, err := c10Build(c10Case{Container: "fmp4", Tracks: "va", Frags: 1, PDT: true, VOD: true, NSeg: 2, Video: vc[0], Audio: vc[1]})
		if err != nil {
			panic(err)
		}
		b := &c13Base{name: "fmp4-" + vc[0], entry: "r0.m3u8", res: map[string][]byte{}}
		b.res["r0.m3u8"] = []byte(st.playlist(0))
		b.res["r0_init"] = st.rends[0].init
		for j, s := range st.rends[0].segs {
			b.res[fmt.Sprintf("r0_seg%d", j)] = s.Body
		}
		out = append(out, b)
	}
	// 2. fMP4, multivariant, video + audio rendition
	{
		st, err := c10Build(c10Case{Container: "fmp4", Tracks: "v+a", Frags: 1, PDT: true, VOD: true, NSeg: 3})
		if err != nil {
			panic(err)
		}
		b := &c13Base{name: "fmp4-v+a", entry: "index.m3u8", res: map[string][]byte{}}
		srv := st.server()
		b.res["index.m3u8"] = srv.handler(0, "/index.m3u8", "", nil).Body
		for ri, r := range st.rends {
			b.res[fmt.Sprintf("r%d.m3u8", ri)] = []byte(st.playlist(ri))
			b.res[fmt.Sprintf("r%d_init", ri)] = r.init
			for j, s := range r.segs {
				b.res[fmt.Sprintf("r%d_seg%d", ri, j)] = s.Body
			}
		}
		out = append(out, b)
	}
	// 3. MPEG-TS, one playlist, video + audio
	{
		st, err := c10Build(c10Case{Container: "ts", Tracks: "va", Frags: 1, PDT: true, VOD: true, NSeg: 3})
		if err != nil {
			panic(err)
		}
		b := &c13Base{name: "ts-va", entry: "r0.m3u8", res: map[string][]byte{}}
		b.res["r0.m3u8"] = []byte(st.playlist(0))
		for j, s := range st.rends[0].segs {
			b.res[fmt.Sprintf("r0_seg%d", j)] = s.Body
		}
		out = append(out, b)
	}
	// 5. MPEG-TS, one playlist, segments addressed as byte ranges of one resource
	{
		st, err := c10Build(c10Case{Container: "ts", Tracks: "va", Frags: 1, Range: true, PDT: true, VOD: true, NSeg: 3})
		if err != nil {
			panic(err)
		}
		b := &c13Base{name: "ts-range", entry: "r0.m3u8", res: map[string][]byte{}}
		b.res["r0.m3u8"] = []byte(st.playlist(0))
		b.res["r0_all"] = st.rends[0].all
		out = append(out, b)
	}
	// 6. Low-Latency: the playlist changes at every poll (resource "ll.m3u8@k" is the answer to the k-th request), every
	// playlist announces the next part as a preload hint, the last one has none
	{
		const rounds = 3
		st, err := c10Build(c10Case{Container: "fmp4", Tracks: "v", Frags: 1, PDT: true, VOD: true, NSeg: rounds + 1})
		if err != nil {
			panic(err)
		}
		b := &c13Base{name: "ll", entry: "ll.m3u8", res: map[string][]byte{}}
		for k := 0; k <= rounds; k++ {
			var pl strings.Builder
			fmt.Fprintf(&pl, "#EXTM3U\n#EXT-X-VERSION:9\n#EXT-X-TARGETDURATION:1\n#EXT-X-SERVER-CONTROL:CAN-BLOCK-RELOAD=YES,PART-HOLD-BACK=3.00000,CAN-SKIP-UNTIL=6.00000\n#EXT-X-PART-INF:PART-TARGET=1.00000\n#EXT-X-MEDIA-SEQUENCE:%d\n#EXT-X-MAP:URI=\"r0_init\"\n", k)
			fmt.Fprintf(&pl, "#EXT-X-PROGRAM-DATE-TIME:2022-03-04T05:06:07.250Z\n#EXTINF:1.00000,\nseg%d.mp4\n", k)
			if k < rounds {
				fmt.Fprintf(&pl, "#EXT-X-PRELOAD-HINT:TYPE=PART,URI=\"part%d.mp4\"\n", k)
			}
			b.res[fmt.Sprintf("ll.m3u8@%d", k)] = []byte(pl.String())
			b.res[fmt.Sprintf("part%d.mp4", k)] = st.rends[0].segs[k].Body
		}
		b.res["r0_init"] = st.rends[0].init
		out = append(out, b)
	}
	// 4. MPEG-TS, multivariant, video + audio rendition (the rendition has its own downloader and MPEG-TS processor)
	{
		st, err := c10Build(c10Case{Container: "ts", Tracks: "v+a", Frags: 1, PDT: true, VOD: true, NSeg: 3})
		if err != nil {
			panic(err)
		}
		b := &c13Base{name: "ts-v+a", entry: "index.m3u8", res: map[string][]byte{}}
		srv := st.server()
		b.res["index.m3u8"] = srv.handler(0, "/index.m3u8", "", nil).Body
		for ri, r := range st.rends {
			b.res[fmt.Sprintf("r%d.m3u8", ri)] = []byte(st.playlist(ri))
			for j, s := range r.segs {
				b.res[fmt.Sprintf("r%d_seg%d", ri, j)] = s.Body
			}
		}
		out = append(out, b)
	}
	return out
}

// one mutation: replace the body of one resource (at its k-th request, -1 = always)
type c13Mut struct {
	Base string `json:"base"`
	Res  string `json:"res"`
	Kind string `json:"kind"`
	Arg  int    `json:"arg"`
	Arg2 int    `json:"arg2,omitempty"`
	Desc string `json:"desc"`
}

// box walking: offsets of every box start (top level and nested containers)
func boxOffsets(b []byte) []int {
	var out []int
	var walk func(lo, hi int, depth int)
	containers := map[string]bool{"moov": true, "trak": true, "mdia": true, "minf": true, "stbl": true, "mvex": true, "moof": true, "traf": true, "dinf": true}
	walk = func(lo, hi int, depth int) {
		for p := lo; p+8 <= hi; {
			sz := int(binary.BigEndian.Uint32(b[p:]))
			typ := string(b[p+4 : p+8])
			if sz < 8 || p+sz > hi {
				return
			}
			out = append(out, p)
			if containers[typ] && depth < 8 {
				walk(p+8, p+sz, depth+1)
			}
			p += sz
		}
	}
	walk(0, len(b), 0)
	sort.Ints(out)
	return out
}

// findBox returns the offset of the n-th box of the given type (searching nested containers), or -1.
func findBoxes(b []byte, typ string) []int {
	var out []int
	for _, p := range boxOffsets(b) {
		if string(b[p+4:p+8]) == typ {
			out = append(out, p)
		}
	}
	return out
}

func c13Apply(base *c13Base, m c13Mut) ([]byte, bool) {
	orig := base.res[m.Res]
	b := append([]byte{}, orig...)
	switch m.Kind {
	case "truncate":
		if m.Arg > len(b) {
			return nil, false
		}
		return b[:m.Arg], true
	case "empty":
		return []byte{}, true
	case "content-length":
		return b, true
	case "swap-with": // serve another resource's body instead
		names := base.names()
		if m.Arg >= len(names) {
			return nil, false
		}
		return base.res[names[m.Arg]], true
	case "u32": // overwrite a 32-bit field at offset Arg with one of the boundary values
		if m.Arg+4 > len(b) {
			return nil, false
		}
		binary.BigEndian.PutUint32(b[m.Arg:], []uint32{0, 1, 1 << 31, 1<<32 - 1}[m.Arg2])
		return b, true
	case "u64":
		if m.Arg+8 > len(b) {
			return nil, false
		}
		binary.BigEndian.PutUint64(b[m.Arg:], []uint64{0, 1, 1 << 31, 1<<32 - 1, 1 << 63, 1<<64 - 1}[m.Arg2])
		return b, true
	case "byte":
		if m.Arg >= len(b) {
			return nil, false
		}
		b[m.Arg] = byte(m.Arg2)
		return b, true
	case "drop-box": // remove the box that starts at Arg
		if m.Arg+8 > len(b) {
			return nil, false
		}
		sz := int(binary.BigEndian.Uint32(b[m.Arg:]))
		if sz < 8 || m.Arg+sz > len(b) {
			return nil, false
		}
		return append(b[:m.Arg:m.Arg], b[m.Arg+sz:]...), true
	case "dup-box":
		sz := int(binary.BigEndian.Uint32(b[m.Arg:]))
		if sz < 8 || m.Arg+sz > len(b) {
			return nil, false
		}
		nb := append([]byte{}, b[:m.Arg+sz]...)
		nb = append(nb, b[m.Arg:m.Arg+sz]...)
		return append(nb, b[m.Arg+sz:]...), true
	case "replace":
		return c13Replacement(m.Arg), true
	case "text":
		return []byte(c13Texts()[m.Arg]), true
	case "line-delete", "line-dup":
		lines := strings.Split(string(b), "\n")
		if m.Arg >= len(lines) {
			return nil, false
		}
		if m.Kind == "line-delete" {
			lines = append(lines[:m.Arg:m.Arg], lines[m.Arg+1:]...)
		} else {
			lines = append(lines[:m.Arg+1:m.Arg+1], append([]string{lines[m.Arg]}, lines[m.Arg+1:]...)...)
		}
		return []byte(strings.Join(lines, "\n")), true
	case "value":
		// the Arg-th value site of the playlist (an attribute value, or the value of a tag without attribute list)
		// replaced by the Arg2-th replacement of its lexical class
		sites := c13ValueSites(string(b))
		if m.Arg >= len(sites) {
			return nil, false
		}
		st := sites[m.Arg]
		repl := c13ValueRepl(st.quoted)
		if m.Arg2 >= len(repl) {
			return nil, false
		}
		return []byte(string(b[:st.start]) + repl[m.Arg2] + string(b[st.end:])), true
	case "gap-from":
		// every segment from the Arg-th on is marked EXT-X-GAP (it is listed, the server does not have it)
		lines := strings.Split(string(b), "\n")
		var out []string
		k := 0
		hit := false
		for _, l := range lines {
			if strings.HasPrefix(l, "#EXTINF:") {
				if k >= m.Arg {
					out = append(out, "#EXT-X-GAP")
					hit = true
				}
				k++
			}
			out = append(out, l)
		}
		return []byte(strings.Join(out, "\n")), hit
	case "strip-offset":
		// the k-th EXT-X-BYTERANGE line (all of them for k < 0) loses its "@offset"
		lines := strings.Split(string(b), "\n")
		k := 0
		hit := false
		for i, l := range lines {
			if !strings.HasPrefix(l, "#EXT-X-BYTERANGE:") {
				continue
			}
			if at := strings.IndexByte(l, '@'); at >= 0 && (m.Arg < 0 || m.Arg == k) {
				lines[i] = l[:at]
				hit = true
			}
			k++
		}
		return []byte(strings.Join(lines, "\n")), hit
	}
	return nil, false
}

type c13Site struct {
	start, end int
	quoted     bool
}

// c13ValueSites lists the value sites of a playlist text: every attribute value of every tag with an attribute list,
// and the whole value of every other tag that has one.
func c13ValueSites(text string) []c13Site {
	var out []c13Site
	off := 0
	for _, l := range strings.SplitAfter(text, "\n") {
		line := strings.TrimRight(l, "\r\n")
		if colon := strings.IndexByte(line, ':'); strings.HasPrefix(line, "#EXT") && colon > 0 {
			val := line[colon+1:]
			if !strings.Contains(val, "=") {
				out = append(out, c13Site{start: off + colon + 1, end: off + len(line)})
			} else {
				// attribute list: NAME=value(,NAME=value)*, commas inside quotes do not separate
				i := 0
				for i < len(val) {
					eq := strings.IndexByte(val[i:], '=')
					if eq < 0 {
						break
					}
					vs := i + eq + 1
					ve := vs
					quoted := vs < len(val) && val[vs] == '"'
					if quoted {
						ve = vs + 1
						for ve < len(val) && val[ve] != '"' {
							ve++
						}
						if ve < len(val) {
							ve++
						}
					} else {
						for ve < len(val) && val[ve] != ',' {
							ve++
						}
					}
					out = append(out, c13Site{start: off + colon + 1 + vs, end: off + colon + 1 + ve, quoted: quoted})
					i = ve
					if i < len(val) && val[i] == ',' {
						i++
					}
				}
			}
		}
		off += len(l)
	}
	return out
}

func c13ValueRepl(quoted bool) []string {
	if quoted {
		return []string{`""`, `","`, `"x,"`, `",x"`, `"a,,b"`, `" "`, `" avc1.42c028"`, `"`, `x`}
	}
	return []string{"", "0", "-1", "1", "99999999999999999999", "1.5", "1e9", "NaN", "x", "0x10", "YES", `"1"`,
		"1000@18446744073709551000", "18446744073709551615@1", "1@18446744073709551615"} // byte ranges whose end wraps around 2^64
}

func (b *c13Base) names() []string {
	var n []string
	for k := range b.res {
		n = append(n, k)
	}
	sort.Strings(n)
	return n
}

// replacement payloads: init segments / fragments built with every codec mediacommon can put into fMP4 or MPEG-TS,
// inconsistent track ids, no leading-track data, empty trun / traf, zero tracks, absurd values.
var c13ReplOnce sync.Once
var c13Repl [][]byte
var c13ReplDesc []string

func c13Replacements() ([][]byte, []string) {
	c13ReplOnce.Do(func() {
		add := func(desc string, b []byte, err error) {
			if err == nil && b != nil {
				c13Repl = append(c13Repl, b)
				c13ReplDesc = append(c13ReplDesc, desc)
			}
		}
		kinds := []string{"h264", "h265", "av1", "vp9", "aac", "opus", "ac3", "mp3", "lpcm", "mjpeg", "mpeg4video", "mpeg1video"}
		for _, k1 := range kinds {
			// init with this codec alone, and together with H264 / AAC in both orders, ids 1..n
			in, err := buildInit([]sTrack{{Kind: k1, ID: 1, TimeScale: 90000}})
			add("init["+k1+"]", in, err)
			in, err = buildInit([]sTrack{{Kind: "h264", ID: 1, TimeScale: 90000}, {Kind: k1, ID: 2, TimeScale: 48000}})
			add("init[h264,"+k1+"]", in, err)
			in, err = buildInit([]sTrack{{Kind: k1, ID: 1, TimeScale: 48000}, {Kind: "aac", ID: 2, TimeScale: 44100}})
			add("init["+k1+",aac]", in, err)
		}
		// track ids: permuted, duplicated, with gaps, zero time scale, many tracks
		for _, ids := range [][]int{{2, 1}, {1, 1}, {5, 9}, {0, 1}} {
			in, err := buildInit([]sTrack{{Kind: "h264", ID: ids[0], TimeScale: 90000}, {Kind: "aac", ID: ids[1], TimeScale: 44100}})
			add(fmt.Sprintf("init ids %v", ids), in, err)
		}
		in, err := buildInit([]sTrack{{Kind: "h264", ID: 1, TimeScale: 0}, {Kind: "aac", ID: 2, TimeScale: 44100}})
		add("init timescale 0 (video)", in, err)
		in, err = buildInit([]sTrack{{Kind: "h264", ID: 1, TimeScale: 90000}, {Kind: "aac", ID: 2, TimeScale: 0}})
		add("init timescale 0 (audio)", in, err)
		var many []sTrack
		for i := 0; i < 12; i++ {
			many = append(many, sTrack{Kind: "aac", ID: i + 1, TimeScale: 48000})
		}
		in, err = buildInit(many)
		add("init 12 tracks", in, err)
		// counts around the limit of tracks per stream (10), the video track - the one the segments carry as id 1 - first,
		// in the middle or last
		for _, n := range []int{9, 10, 11, 12} {
			for _, vpos := range []int{0, n / 2, n - 1} {
				var l []sTrack
				for i := 0; i < n; i++ {
					if i == vpos {
						l = append(l, sTrack{Kind: "h264", ID: 1, TimeScale: 90000})
					} else if i < vpos {
						l = append(l, sTrack{Kind: "aac", ID: i + 2, TimeScale: 44100})
					} else {
						l = append(l, sTrack{Kind: "aac", ID: i + 1, TimeScale: 44100})
					}
				}
				in, err = buildInit(l)
				add(fmt.Sprintf("init %d tracks, video at position %d", n, vpos), in, err)
			}
		}
		// fragments
		vu := func(track int, dts int64, n int) []sUnit {
			var us []sUnit
			for i := 0; i < n; i++ {
				us = append(us, sUnit{Track: track, DTS: dts + int64(i)*22500, Dur: 22500, Sync: i == 0, Data: sVideoData(i, i == 0, i == 0)})
			}
			return us
		}
		au := func(track int, dts int64, n int) []sUnit {
			var us []sUnit
			for i := 0; i < n; i++ {
				us = append(us, sUnit{Track: track, DTS: dts + int64(i)*1024, Dur: 1024, Sync: true, Data: [][]byte{{0x21, byte(i)}}})
			}
			return us
		}
		tr2 := []sTrack{{Kind: "h264", ID: 1, TimeScale: 90000}, {Kind: "aac", ID: 2, TimeScale: 44100}}
		f, err := buildFMP4(tr2, [][]sUnit{au(1, 0, 5)}, 0)
		add("fragment with audio only (no leading-track data)", f, err)
		f, err = buildFMP4(tr2, [][]sUnit{vu(0, 0, 2)}, 0)
		add("fragment with video only", f, err)
		f, err = buildFMP4([]sTrack{{Kind: "h264", ID: 7, TimeScale: 90000}, {Kind: "aac", ID: 9, TimeScale: 44100}}, [][]sUnit{append(vu(0, 0, 2), au(1, 0, 3)...)}, 0)
		add("fragment with unknown track ids", f, err)
		f, err = buildFMP4([]sTrack{{Kind: "h264", ID: 2, TimeScale: 90000}, {Kind: "aac", ID: 1, TimeScale: 44100}}, [][]sUnit{append(vu(0, 0, 2), au(1, 0, 3)...)}, 0)
		add("fragment with swapped track ids", f, err)
		f, err = buildFMP4(tr2, [][]sUnit{append(vu(0, 1<<62, 2), au(1, 1<<62, 3)...)}, 0)
		add("fragment with base time 2^62", f, err)
		var frs [][]sUnit
		for i := 0; i < 30; i++ {
			frs = append(frs, append(vu(0, int64(i)*45000, 2), au(1, int64(i)*22050, 2)...))
		}
		f, err = buildFMP4(tr2, frs, 0)
		add("segment with 30 fragments", f, err)
		big := vu(0, 0, 1)
		big[0].Dur = 1<<32 - 1
		f, err = buildFMP4(tr2, [][]sUnit{big}, 0)
		add("sample duration 2^32-1", f, err)
		// two fields that only make sense together: a sample of 6.6 hours followed by one whose composition offset takes its
		// presentation time back to where it would have been - decoded far ahead of the clock, presented on time
		for _, d := range []int64{0x7FFFF000, 90000 * 11, 90000 * 3600} {
			far := vu(0, 0, 2)
			far[0].Dur = d
			far[1].DTS = d
			far[1].PTSOff = -d + 3000
			f, err = buildFMP4(tr2, [][]sUnit{far}, 0)
			add(fmt.Sprintf("sample duration %d followed by composition offset %d", d, -d+3000), f, err)
			farA := append(vu(0, 0, 2), au(1, 0, 2)...)
			farA[0].Dur = d
			farA[1].DTS = d
			farA[1].PTSOff = -d + 3000
			f, err = buildFMP4(tr2, [][]sUnit{farA}, 0)
			add(fmt.Sprintf("video sample duration %d followed by composition offset %d, audio on time", d, -d+3000), f, err)
		}
		// MPEG-TS payloads with other codecs / no leading track / nothing supported
		for _, ks := range [][]string{{"h265"}, {"opus"}, {"mp3"}, {"ac3"}, {"h265", "aac"}, {"h264", "opus"}, {"h264", "ac3"}, {"mp3", "h264"}} {
			var tracks []sTrack
			var units []sUnit
			for i, k := range ks {
				tracks = append(tracks, sTrack{Kind: k, TimeScale: 48000})
				switch k {
				case "h264":
					units = append(units, sUnit{Track: i, DTS: 0, Data: sVideoData(1, true, true)}, sUnit{Track: i, DTS: 22500, Data: sVideoData(2, false, false)})
				case "h265":
					units = append(units, sUnit{Track: i, DTS: 0, Data: [][]byte{h265Params[0].vps, h265Params[0].sps, h265Params[0].pps, {19 << 1, 1, 1}}})
				case "aac":
					units = append(units, sUnit{Track: i, DTS: 0, Data: [][]byte{{0x21, 1}, {0x21, 2}}})
				case "opus":
					units = append(units, sUnit{Track: i, DTS: 0, Data: [][]byte{{0xf8, 1, 2}}})
				case "mp3":
					units = append(units, sUnit{Track: i, DTS: 0, Data: [][]byte{{0xff, 0xfb, 0x90, 0x64, 0, 0, 0, 0}}})
				case "ac3":
					units = append(units, sUnit{Track: i, DTS: 0, Data: [][]byte{{0x0b, 0x77, 0, 0, 0x14, 0x40, 0, 0}}})
				}
			}
			b, err := buildTS(tracks, units)
			add("ts"+fmt.Sprint(ks), b, err)
		}
		b, err := buildTS([]sTrack{{Kind: "h264"}, {Kind: "aac", TimeScale: 44100}}, []sUnit{{Track: 1, DTS: 0, Data: [][]byte{{0x21, 1}}}, {Track: 1, DTS: 2090, Data: [][]byte{{0x21, 2}}}})
		add("ts[h264,aac] with audio data only (no leading-track data)", b, err)
		add("garbage", []byte("this is not media at all, just some text that is long enough to look like a file"), nil)
		add("188 zero bytes", make([]byte, 188*3), nil)
	})
	return c13Repl, c13ReplDesc
}

func c13Replacement(i int) []byte {
	r, _ := c13Replacements()
	return r[i]
}

var c13TextOnce sync.Once
var c13TextList []string

// c13Texts: playlist texts served in place of the scenario's playlists: the stored fuzz corpora and in-code seeds.
func c13Texts() []string {
	c13TextOnce.Do(func() {
		_, self, _, _ := runtime.Caller(0) // the harness is compiled into the repository root through the overlay
		dirs, _ := filepath.Glob(filepath.Join(filepath.Dir(self), "pkg/playlist/testdata/fuzz/*"))
		sort.Strings(dirs)
		for _, d := range dirs {
			files, _ := filepath.Glob(filepath.Join(d, "*"))
			sort.Strings(files)
			for _, f := range files {
				b, err := os.ReadFile(f)
				if err != nil {
					continue
				}
				for _, l := range strings.Split(string(b), "\n") {
					l = strings.TrimSpace(l)
					for _, pre := range []string{"string(", "[]byte("} {
						if strings.HasPrefix(l, pre) && strings.HasSuffix(l, ")") {
							if s, err := strconv.Unquote(l[len(pre) : len(l)-1]); err == nil {
								c13TextList = append(c13TextList, s)
							}
						}
					}
				}
			}
		}
		c13TextList = append(c13TextList,
			"#EXTM3U\n#EXT-X-TARGETDURATION:1\n#EXTINF:1,\n\n",
			"#EXTM3U\n#EXT-X-STREAM-INF:BANDWIDTH=1,CODECS=\"avc1.42c028\"\nindex.m3u8\n", // a multivariant playlist that points to itself
			"#EXTM3U\n#EXT-X-STREAM-INF:BANDWIDTH=1,CODECS=\"avc1.42c028\",AUDIO=\"nope\"\nr0.m3u8\n",
			"#EXTM3U\n#EXT-X-TARGETDURATION:1\n#EXT-X-MAP:URI=\"r0_seg0\"\n#EXTINF:1,\nr0_init\n#EXT-X-ENDLIST\n",
			"#EXTM3U\n#EXT-X-TARGETDURATION:1\n#EXT-X-SERVER-CONTROL:CAN-BLOCK-RELOAD=YES\n#EXT-X-PRELOAD-HINT:TYPE=PART,URI=\"r0_seg0\"\n#EXTINF:1,\nr0_seg0\n",
			"#EXTM3U\n#EXT-X-TARGETDURATION:1\n#EXT-X-BYTERANGE:18446744073709551615@18446744073709551615\n#EXTINF:1,\nr0_seg0\n#EXT-X-ENDLIST\n",
			"#EXTM3U\n#EXT-X-TARGETDURATION:1\n#EXT-X-PLAYLIST-TYPE:VOD\n#EXTINF:1,\n%zz://bad url\n#EXT-X-ENDLIST\n",
		)
	})
	return c13TextList
}

func c13Mutations(base *c13Base, tier string) []c13Mut {
	var out []c13Mut
	repl, desc := c13Replacements()
	names := base.names()
	for _, res := range names {
		body := base.res[res]
		isPL := strings.HasSuffix(res, ".m3u8") || strings.Contains(res, ".m3u8@")
		isInit := strings.HasSuffix(res, "_init")
		out = append(out, c13Mut{Base: base.name, Res: res, Kind: "empty", Desc: "empty body"})
		for i, d := range []string{"2^62", "2^40", "one byte more than the body", "unknown"} {
			out = append(out, c13Mut{Base: base.name, Res: res, Kind: "content-length", Arg: i, Desc: "Content-Length announced as " + d})
		}
		for i := range names {
			if names[i] != res {
				out = append(out, c13Mut{Base: base.name, Res: res, Kind: "swap-with", Arg: i, Desc: "body of " + names[i]})
			}
		}
		if isPL {
			lines := strings.Count(string(body), "\n") + 1
			for i := 0; i < lines; i++ {
				out = append(out, c13Mut{Base: base.name, Res: res, Kind: "line-delete", Arg: i, Desc: fmt.Sprintf("line %d deleted", i)})
				out = append(out, c13Mut{Base: base.name, Res: res, Kind: "line-dup", Arg: i, Desc: fmt.Sprintf("line %d duplicated", i)})
			}
			step := 1
			if tier != "thorough" && len(body) > 200 {
				step = 3
			}
			for i := 0; i < len(body); i += step {
				out = append(out, c13Mut{Base: base.name, Res: res, Kind: "truncate", Arg: i, Desc: fmt.Sprintf("truncated at byte %d", i)})
			}
			for i := range c13Texts() {
				out = append(out, c13Mut{Base: base.name, Res: res, Kind: "text", Arg: i, Desc: fmt.Sprintf("corpus text %d", i)})
			}
			for si, st := range c13ValueSites(string(body)) {
				for ri, rv := range c13ValueRepl(st.quoted) {
					out = append(out, c13Mut{Base: base.name, Res: res, Kind: "value", Arg: si, Arg2: ri, Desc: fmt.Sprintf("value %q at byte %d replaced by %q", string(body[st.start:st.end]), st.start, rv)})
				}
			}
			for k := 0; k < strings.Count(string(body), "#EXTINF:"); k++ {
				out = append(out, c13Mut{Base: base.name, Res: res, Kind: "gap-from", Arg: k, Desc: fmt.Sprintf("segments %d.. marked EXT-X-GAP", k)})
			}
			if n := strings.Count(string(body), "#EXT-X-BYTERANGE:"); n > 0 {
				for k := -1; k < n; k++ {
					out = append(out, c13Mut{Base: base.name, Res: res, Kind: "strip-offset", Arg: k, Desc: fmt.Sprintf("byte range %d without offset (-1: all)", k)})
				}
			}
			continue
		}
		for i := range repl {
			out = append(out, c13Mut{Base: base.name, Res: res, Kind: "replace", Arg: i, Desc: desc[i]})
		}
		if strings.HasPrefix(base.name, "ts") {
			// truncation at every TS packet boundary and in the middle of a packet
			for p := 0; p <= len(body); p += 188 {
				out = append(out, c13Mut{Base: base.name, Res: res, Kind: "truncate", Arg: p, Desc: fmt.Sprintf("truncated at packet %d", p/188)})
				if p+100 < len(body) {
					out = append(out, c13Mut{Base: base.name, Res: res, Kind: "truncate", Arg: p + 100, Desc: fmt.Sprintf("truncated inside packet %d", p/188)})
				}
			}
			// corrupt the sync byte / PID of every packet header
			for p := 0; p+4 <= len(body); p += 188 {
				out = append(out, c13Mut{Base: base.name, Res: res, Kind: "byte", Arg: p, Arg2: 0x00, Desc: fmt.Sprintf("sync byte of packet %d zeroed", p/188)})
				out = append(out, c13Mut{Base: base.name, Res: res, Kind: "byte", Arg: p + 1, Arg2: 0xff, Desc: fmt.Sprintf("header byte 1 of packet %d = 0xff", p/188)})
			}
			continue
		}
		// fMP4: truncation at every box boundary (+8 into the box), box removal / duplication
		for _, p := range boxOffsets(body) {
			out = append(out, c13Mut{Base: base.name, Res: res, Kind: "truncate", Arg: p, Desc: fmt.Sprintf("truncated at box boundary %d (%s)", p, body[p+4:p+8])})
			out = append(out, c13Mut{Base: base.name, Res: res, Kind: "truncate", Arg: p + 8, Desc: fmt.Sprintf("truncated after the header of box %s at %d", body[p+4:p+8], p)})
			out = append(out, c13Mut{Base: base.name, Res: res, Kind: "drop-box", Arg: p, Desc: fmt.Sprintf("box %s at %d removed", body[p+4:p+8], p)})
			out = append(out, c13Mut{Base: base.name, Res: res, Kind: "dup-box", Arg: p, Desc: fmt.Sprintf("box %s at %d duplicated", body[p+4:p+8], p)})
			out = append(out, c13Mut{Base: base.name, Res: res, Kind: "u32", Arg: p, Arg2: 0, Desc: fmt.Sprintf("size of box %s at %d = 0", body[p+4:p+8], p)})
			out = append(out, c13Mut{Base: base.name, Res: res, Kind: "u32", Arg: p, Arg2: 3, Desc: fmt.Sprintf("size of box %s at %d = 2^32-1", body[p+4:p+8], p)})
		}
		// numeric fields: every 32-bit word of the small header boxes set to boundary values
		for _, typ := range []string{"tfhd", "tfdt", "trun", "mfhd", "mdhd", "mvhd", "tkhd", "trex"} {
			for _, p := range findBoxes(body, typ) {
				sz := int(binary.BigEndian.Uint32(body[p:]))
				lim := sz
				if lim > 48 {
					lim = 48
				}
				for off := 8; off+4 <= lim; off += 4 {
					for v := 0; v < 4; v++ {
						out = append(out, c13Mut{Base: base.name, Res: res, Kind: "u32", Arg: p + off, Arg2: v, Desc: fmt.Sprintf("%s+%d = %v", typ, off, []string{"0", "1", "2^31", "2^32-1"}[v])})
					}
				}
				if typ == "tfdt" && sz >= 20 {
					for v := 0; v < 6; v++ {
						out = append(out, c13Mut{Base: base.name, Res: res, Kind: "u64", Arg: p + 12, Arg2: v, Desc: fmt.Sprintf("tfdt base time = value %d", v)})
					}
				}
			}
		}
		_ = isInit
	}
	return out
}

func c13RunCase(c *vh.Ctx, base *c13Base, m c13Mut) (sig, msg, outcome string) {
	mut, ok := c13Apply(base, m)
	if !ok {
		return "", "", "n/a"
	}
	srv := &stubServer{}
	polls := 0
	srv.handler = func(n int, path, rawQuery string, req *http.Request) srvResp {
		name := path[strings.LastIndexByte(path, '/')+1:]
		if base.name == "ll" && name == "ll.m3u8" {
			// the k-th poll gets the k-th playlist (404 after the last one)
			srv.mu.Lock()
			name = fmt.Sprintf("ll.m3u8@%d", polls)
			polls++
			srv.mu.Unlock()
		}
		if name == m.Res {
			if m.Kind == "content-length" {
				// the announced length has nothing to do with what arrives
				return srvResp{Status: 200, Body: mut, CL: []int64{1 << 62, 1 << 40, int64(len(mut)) + 1, -1}[m.Arg]}
			}
			return srvResp{Status: 200, Body: mut}
		}
		if b, ok := base.res[name]; ok {
			return srvResp{Status: 200, Body: b}
		}
		return srvResp{Status: 404}
	}
	c13Current(c, m)
	obs := runClientPlain(c.T, "http://srv.example/x/"+base.entry, srv, cliOpts{Horizon: 5 * time.Minute})
	nd := 0
	for _, u := range obs.Units {
		nd += len(u)
	}
	end := "none"
	if obs.WaitGot {
		end = c11Class(obs.WaitErr)
		if strings.HasPrefix(end, "other") {
			end = "error"
		}
	}
	outcome = fmt.Sprintf("%s|%s|%s|%s|units=%d|decodeerrs=%d", base.name, m.Res, m.Kind, end, nd, len(obs.DecodeErrs))
	where := fmt.Sprintf("\nmutation: %s of %s in scenario %s (%s)", m.Kind, m.Res, base.name, m.Desc)
	if len(obs.Panics) > 0 {
		return "client-panic:" + firstLibFrame(obs.Panics[0]), obs.Panics[0] + where, outcome
	}
	if obs.Storm {
		class := "busy-loop/request-storm"
		if strings.Contains(string(mut), "EXT-X-PRELOAD-HINT") && strings.Contains(string(mut), "CAN-BLOCK-RELOAD") {
			class += ":low-latency-loop"
		}
		return class, fmt.Sprintf("the client issued more than 3000 requests in %v of virtual time without pacing (requests 2990..: %v)%s", obs.Elapsed, lastReqs(obs.Reqs, 4), where), outcome
	}
	if obs.Wedged {
		return "client-wedged", fmt.Sprintf("the client neither skipped the piece nor ended: Wait() yielded nothing within %v of virtual time (%d units delivered, %d requests)%s", obs.Elapsed, nd, len(obs.Reqs), where), outcome
	}
	if !obs.WaitGot {
		return "close-not-honoured", "Wait() yielded nothing even after Close()" + where, outcome
	}
	if obs.Leaked {
		return "goroutine-leak", "client goroutines still blocked after Wait() yielded and Close() was called" + where, outcome
	}
	if obs.SecondErr {
		return "second-error", "Wait() yielded a second value" + where, outcome
	}
	return "", "", outcome
}

// c13Current records the case being run so that a hang (busy loop) can be attributed by the watchdog.
var c13Cur struct {
	sync.Mutex
	m     c13Mut
	seq   int
	start time.Time
}

func c13Current(c *vh.Ctx, m c13Mut) {
	c13Cur.Lock()
	c13Cur.m = m
	c13Cur.seq++
	c13Cur.start = time.Now()
	c13Cur.Unlock()
}

func c13List(tier string) []vh.Scenario {
	var out []vh.Scenario
	for _, b := range c13BaseScenarios() {
		n := len(c13Mutations(b, tier))
		shards := 8
		for i := 0; i < shards; i++ {
			out = append(out, vh.Scenario{Name: fmt.Sprintf("%s shard=%d/%d", b.name, i, shards), Weight: n / shards})
		}
	}
	return out
}

func c13Run(c *vh.Ctx) {
	bases := c13BaseScenarios()
	find := func(name string) *c13Base {
		for _, b := range bases {
			if b.name == name {
				return b
			}
		}
		return nil
	}
	if c.Replay != nil {
		var m c13Mut
		if err := json.Unmarshal(c.Replay, &m); err != nil || find(m.Base) == nil {
			c.EngineError("bad replay")
			return
		}
		c.Exec()
		if sig, msg, _ := c13RunCase(c, find(m.Base), m); sig != "" {
			c.Violation("C13/"+sig, msg, m)
		}
		return
	}
	var name string
	var shard, shards int
	fmt.Sscanf(strings.ReplaceAll(c.Scenario, "shard=", ""), "%s %d/%d", &name, &shard, &shards)
	base := find(name)
	if base == nil {
		c.EngineError("unknown scenario %q", c.Scenario)
		return
	}
	// watchdog: a case that does not finish in 60 s of real time is a hang or busy loop (a normal case takes milliseconds)
	done := make(chan struct{})
	defer close(done)
	go func() {
		for {
			select {
			case <-done:
				return
			case <-time.After(2 * time.Second):
			}
			c13Cur.Lock()
			m, st := c13Cur.m, c13Cur.start
			c13Cur.Unlock()
			if !st.IsZero() && time.Since(st) > 60*time.Second {
				c.Violation("C13/client-hang-or-busy-loop", fmt.Sprintf("the run did not finish within 60 s of real time (virtual time cannot advance while a goroutine is spinning)\nmutation: %s of %s in scenario %s (%s)", m.Kind, m.Res, m.Base, m.Desc), m)
				c.Cap("aborted by the watchdog")
				vh.Flush(c)
				os.Exit(0)
			}
		}
	}()
	seen := map[string]bool{}
	muts := c13Mutations(base, c.Tier)
	for i, m := range muts {
		if i%shards != shard {
			continue
		}
		sig, msg, outcome := c13RunCase(c, base, m)
		if outcome == "n/a" {
			continue
		}
		c.Exec()
		c.Outcome(outcome)
		if c.WantSample() && i%211 == 0 {
			c.Sample(map[string]any{"mutation": m, "outcome": outcome})
		}
		if sig != "" {
			c.Count("violations/"+sig, 1)
			if !seen[sig] {
				seen[sig] = true
				c.Violation("C13/"+sig, msg, m)
			}
		}
		if len(seen) > 8 {
			c.Cap(c.Scenario + ": stopped after violations")
			return
		}
		if i%64 == 0 && c.Expired() {
			c.Cap(fmt.Sprintf("%s: deadline reached after %d of %d mutations", c.Scenario, i, len(muts)))
			return
		}
	}
	c13Cur.Lock()
	c13Cur.start = time.Time{}
	c13Cur.Unlock()
}

func lastReqs(r []reqRec, n int) []string {
	var out []string
	if len(r) > 3000 {
		r = r[:3000]
	}
	for i := len(r) - n; i < len(r); i++ {
		if i >= 0 {
			out = append(out, r[i].URL)
		}
	}
	return out
}
