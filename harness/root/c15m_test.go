//go:build verif

package gohlslib

// C15, clause "every playlist a muxer serves parses under an independent strict grammar": engine E1 with only the
// grammar oracles enabled (media playlists after every write, index.m3u8, and the library's own decoder on them).
// The decoder / encoder clauses of C15 live in the pkg/playlist harness; the driver runs both under `vcheck C15`.

import (
	"github.com/bluenviron/gohlslib/v2/internal/zzverif/vh"
)

func init() {
	verifProps["C15"] = vh.Prop{
		List: func(tier string) []vh.Scenario { return e1List(c15mScens(tier)) },
		Run:  func(c *vh.Ctx) { e1Run(c, c15mScens(c.Tier)) },
	}
}

func c15mScens(tier string) []e1Scen {
	var out []e1Scen
	depth := 3
	if tier == "thorough" {
		depth = 4
	}
	for _, g := range e1BaseGrid(tier) {
		sc := e1Scen{Prop: "C15", Cfg: g.cfg, Alpha: g.alphabet(), Depth: depth, Mode: "tree", Name: g.alpha + "-tree"}
		out = append(out, sc)
		pre := sc
		pre.Pre, pre.Depth, pre.Name = g.cfg.SegCount+1, depth-1, g.alpha+"-tree-after-preamble"
		out = append(out, pre)
	}
	// query strings travel into the URIs of the served playlists: plain, several keys out of order, a key without value,
	// an escape, and one whose value needs escaping inside a quoted-string (the latter on media playlists only: a raw
	// double quote is not a legal URI character, and the multivariant playlist must keep the query verbatim - C16)
	for _, variant := range []string{"mpegts", "fmp4", "ll"} {
		for _, tracks := range [][]string{{"h264"}, {"h264", "aac44"}, {"aac44", "aac48"}} {
			if variant == "mpegts" && len(tracks) == 2 && tracks[0] != "h264" {
				continue
			}
			cfg := mcfg(variant, false, 3, tracks...)
			if variant == "ll" {
				cfg.SegCount = 7
			}
			var word []sym
			if cfg.Tracks[0].video() {
				for i, k := range []string{"R", "n", "R", "n", "P", "n", "R", "n", "R"} {
					d := "h"
					if i == 0 {
						d = "f"
					}
					word = append(word, sym{T: 0, D: d, K: k})
					for ti, t := range cfg.Tracks {
						if !t.video() {
							word = append(word, sym{T: ti, D: "c", N: 22})
						}
					}
				}
			} else {
				for i := 0; i < 200; i++ {
					for ti := range cfg.Tracks {
						word = append(word, sym{T: ti, D: "c", N: 1 + i%2})
					}
				}
			}
			for _, q := range []string{"token=abc&id=7", "session", "sig=a%2fb&z=1", "t=\"x&b=1"} {
				out = append(out, e1Scen{Prop: "C15", Cfg: cfg, Alpha: word, Mode: "long", Len: len(word), Query: q, Name: "query-word"})
			}
		}
	}
	return out
}
