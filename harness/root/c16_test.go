//go:build verif

package gohlslib

// C16: the multivariant playlist truthfully describes tracks, renditions and bitrate (engine E1 observation).

import (
	"bytes"
	"fmt"
	"regexp"
	"sort"
	"strconv"
	"strings"

	"github.com/bluenviron/gohlslib/v2/internal/zzverif/m3u"
	"github.com/bluenviron/gohlslib/v2/internal/zzverif/vh"
	"github.com/bluenviron/mediacommon/v2/pkg/codecs/av1"
	"github.com/bluenviron/mediacommon/v2/pkg/codecs/h265"
)

func init() {
	verifProps["C16"] = vh.Prop{
		List: func(tier string) []vh.Scenario { return e1List(c16Scens(tier)) },
		Run:  func(c *vh.Ctx) { e1Run(c, c16Scens(c.Tier)) },
	}
	e1Hooks["C16"] = func(r *e1run) { r.c16 = c16Check }
}

// e1Hooks lets a property install extra oracles on a run.
var e1Hooks = map[string]func(r *e1run){}

// expected RFC 6381 string of a video parameter set, computed independently of pkg/codecparams.
func c16VideoCodec(cfg muxCfg, kind string, par int) (string, *regexp.Regexp) {
	switch kind {
	case "h264":
		sps := cfg.pset(kind, par).sps
		return fmt.Sprintf("avc1.%02x%02x%02x", sps[1], sps[2], sps[3]), nil
	case "h265":
		var sps h265.SPS
		if err := sps.Unmarshal(cfg.pset(kind, par).sps); err != nil {
			return "?", nil
		}
		ptl := sps.ProfileTierLevel
		space := []string{"", "A", "B", "C"}[ptl.GeneralProfileSpace]
		var compat uint32
		for i, f := range ptl.GeneralProfileCompatibilityFlag {
			if f {
				compat |= 1 << uint(i) // bit i of the reversed flags word
			}
		}
		tier := "L"
		if ptl.GeneralTierFlag != 0 {
			tier = "H"
		}
		var cons [6]byte
		set := func(bit int, v bool) {
			if v {
				cons[bit/8] |= 0x80 >> uint(bit%8)
			}
		}
		set(0, ptl.GeneralProgressiveSourceFlag)
		set(1, ptl.GeneralInterlacedSourceFlag)
		set(2, ptl.GeneralNonPackedConstraintFlag)
		set(3, ptl.GeneralFrameOnlyConstraintFlag)
		set(4, ptl.GeneralMax12bitConstraintFlag)
		set(5, ptl.GeneralMax10bitConstraintFlag)
		set(6, ptl.GeneralMax8bitConstraintFlag)
		set(7, ptl.GeneralMax422ChromeConstraintFlag)
		set(8, ptl.GeneralMax420ChromaConstraintFlag)
		set(9, ptl.GeneralMaxMonochromeConstraintFlag)
		set(10, ptl.GeneralIntraConstraintFlag)
		set(11, ptl.GeneralOnePictureOnlyConstraintFlag)
		set(12, ptl.GeneralLowerBitRateConstraintFlag)
		set(13, ptl.GeneralMax14BitConstraintFlag)
		s := fmt.Sprintf("hvc1.%s%d.%X.%s%d", space, ptl.GeneralProfileIdc, compat, tier, ptl.GeneralLevelIdc)
		last := -1
		for i, b := range cons {
			if b != 0 {
				last = i
			}
		}
		for i := 0; i <= last; i++ {
			s += fmt.Sprintf(".%X", cons[i])
		}
		if last < 0 {
			// all constraint bytes zero: trailing zero bytes may be omitted, some encoders print one ".0"
			return s, regexp.MustCompile("^" + regexp.QuoteMeta(s) + `(\.0)?$`)
		}
		return s, nil
	case "av1":
		var sh av1.SequenceHeader
		if err := sh.Unmarshal(cfg.pset(kind, par).seqHdr); err != nil {
			return "?", nil
		}
		tier := "M"
		if sh.SeqTier[0] {
			tier = "H"
		}
		prefix := fmt.Sprintf("av01.%d.%02d%s.%02d", sh.SeqProfile, sh.SeqLevelIdx[0], tier, sh.ColorConfig.BitDepth)
		// the optional tail (AV1 codecs parameter string): monochrome, chroma subsampling (x, y, sample position), colour
		// primaries, transfer characteristics, matrix coefficients, full-range flag - in that order. All of it or none of it.
		b := func(v bool) int {
			if v {
				return 1
			}
			return 0
		}
		cc := sh.ColorConfig
		chroma := fmt.Sprintf(".%d.%d%d%d", b(cc.MonoChrome), b(cc.SubsamplingX), b(cc.SubsamplingY), cc.ChromaSamplePosition)
		if cc.ColorDescriptionPresentFlag {
			full := prefix + chroma + fmt.Sprintf(".%02d.%02d.%02d.%d", cc.ColorPrimaries, cc.TransferCharacteristics, cc.MatrixCoefficients, b(cc.ColorRange))
			// the short form is only allowed when the tail would hold the default values, which a colour description of
			// BT.2020 / PQ never does
			return full, nil
		}
		// no colour description in the stream: the defaults of the string (1.1.1, limited range) or "unspecified" (2.2.2)
		return prefix, regexp.MustCompile("^" + regexp.QuoteMeta(prefix) + "(" + regexp.QuoteMeta(chroma) + `\.(01\.01\.01|02\.02\.02)\.` + fmt.Sprint(b(cc.ColorRange)) + ")?$")
	case "vp9":
		ps := cfg.pset(kind, par)
		prefix := fmt.Sprintf("vp09.%02d.", ps.profile)
		return prefix, regexp.MustCompile(fmt.Sprintf(`^vp09\.%02d\.[0-9]{2}\.%02d(\..*)?$`, ps.profile, ps.bitDepth))
	}
	return "", nil
}

func c16AudioCodec(kind string) string {
	if kind == "opus" {
		return "opus"
	}
	if kind == "aacps" {
		return "mp4a.40.29"
	}
	return "mp4a.40.2"
}

func c16Check(r *e1run, k int) {
	st := r.steps[k]
	if !st.avail {
		return
	}
	w := st.write
	if st.idxStatus == -3 {
		return // the handler panicked (reported separately)
	}
	if st.idxStatus != 200 || st.multi == nil {
		r.add("C16", "index-not-200", "index.m3u8 returned status %d after write %d although content is available", st.idxStatus, w)
		return
	}
	if len(st.multiErrs) > 0 {
		r.add("C15", "muxer-multivariant-grammar", "index.m3u8 after write %d violates the grammar: %s\n%s", w, strings.Join(st.multiErrs, "; "), canon(string(st.index)))
	}
	mv := st.multi
	if len(mv.Variants) != 1 {
		r.add("C16", "variant-count", "index.m3u8 lists %d variants", len(mv.Variants))
		return
	}
	// the query string of one request says nothing about the next: another viewer's request in between, then the same request
	// again - same answer
	if k%3 == 1 {
		other := r.safeGet("index.m3u8?viewer=someone-else&t=1")
		again := r.get("index.m3u8")
		if other.Status == 200 && again.Status == 200 && !bytes.Equal(again.Body.Bytes(), st.index) {
			r.add("C16", "index-depends-on-earlier-request", "index.m3u8 requested again after another viewer's request (index.m3u8?viewer=someone-else&t=1) differs from the answer to the same request before it (write %d):\n%s\nbefore:\n%s", w, canon(again.Body.String()), canon(string(st.index)))
		}
	}
	v := mv.Variants[0]
	m := r.mi.m
	q := ""
	if r.query != "" {
		q = "?" + r.query
	}
	lead := r.model.lead
	leadStream := m.leadingStream
	if v.URI != mediaPlaylistPath(leadStream.id)+q {
		r.add("C16", "variant-uri", "variant URI is %q, want %q", v.URI, mediaPlaylistPath(leadStream.id)+q)
	}
	// CODECS: the RFC 6381 string of every track's current parameters
	type want struct {
		exact string
		re    *regexp.Regexp
	}
	var wants []want
	seen := map[string]bool{}
	hasVideo := false
	for _, t := range r.cfg.Tracks {
		var wnt want
		if t.video() {
			hasVideo = true
			wnt.exact, wnt.re = c16VideoCodec(r.cfg, t.Kind, r.model.codecPar)
		} else {
			wnt.exact = c16AudioCodec(t.Kind)
		}
		if !seen[wnt.exact] {
			seen[wnt.exact] = true
			wants = append(wants, wnt)
		}
	}
	got := append([]string{}, v.Codecs...)
	if len(got) != len(wants) {
		r.add("C16", "codecs", "CODECS lists %v, the tracks' current parameters give %d distinct codec strings (%v) (write %d)", got, len(wants), wants, w)
	} else {
		for _, wnt := range wants {
			found := false
			for _, g := range got {
				if (wnt.re != nil && wnt.re.MatchString(g)) || (wnt.re == nil && g == wnt.exact) {
					found = true
				}
			}
			if !found {
				r.add("C16", "codecs", "CODECS lists %v but the current parameters (set %d) require %q (write %d); ops %s", got, r.model.codecPar, wnt.exact, w, r.opsString())
			}
		}
	}
	// RESOLUTION / FRAME-RATE from the current video parameter set (ground truth: mediacommon's own test vectors)
	if hasVideo {
		var ps paramSet
		switch r.cfg.Tracks[lead].Kind {
		case "h264", "h265", "av1", "vp9":
			ps = r.cfg.pset(r.cfg.Tracks[lead].Kind, r.model.codecPar)
		}
		if wantRes := fmt.Sprintf("%dx%d", ps.width, ps.height); v.Resolution != wantRes {
			r.add("C16", "resolution", "RESOLUTION is %q, the current video parameter set (%d) describes %s (write %d); ops %s", v.Resolution, r.model.codecPar, wantRes, w, r.opsString())
		}
		if ps.fps == "" && v.FrameRate != "" && isH264(r.cfg.Tracks[lead].Kind) {
			r.add("C16", "frame-rate", "FRAME-RATE is %q although the current video parameter set (%d) carries no timing information (write %d); ops %s", v.FrameRate, r.model.codecPar, w, r.opsString())
		}
		if ps.fps != "" {
			gf, _ := strconv.ParseFloat(v.FrameRate, 64)
			wf, _ := strconv.ParseFloat(ps.fps, 64)
			if v.FrameRate == "" || gf < wf-0.0006 || gf > wf+0.0006 {
				r.add("C16", "frame-rate", "FRAME-RATE is %q, the current video parameter set describes %s (write %d)", v.FrameRate, ps.fps, w)
			}
		}
	} else if v.Resolution != "" || v.FrameRate != "" {
		r.add("C16", "resolution", "audio-only muxer advertises RESOLUTION %q FRAME-RATE %q", v.Resolution, v.FrameRate)
	}
	// renditions
	type rend struct {
		name, lang, uri string
		hasURI          bool
		def             bool
	}
	var wantR []rend
	if r.cfg.Variant != "mpegts" {
		userDefault := -1
		for i, t := range r.cfg.Tracks {
			if !t.video() && t.Default {
				userDefault = i
			}
		}
		first := true
		for i, t := range r.cfg.Tracks {
			isRend := i != lead || (!t.video() && len(r.cfg.Tracks) > 1)
			if !isRend {
				continue
			}
			id := fmt.Sprintf("audio%d", i+1)
			wr := rend{name: t.Name, lang: t.Lang}
			if wr.name == "" {
				wr.name = id
			}
			if i != lead {
				wr.hasURI = true
				wr.uri = mediaPlaylistPath(id) + q
			}
			if userDefault >= 0 {
				wr.def = i == userDefault
			} else {
				wr.def = first
			}
			first = false
			wantR = append(wantR, wr)
		}
	}
	var audioR []*m3u.Rendition
	for _, rd := range mv.Renditions {
		if rd.Type == "AUDIO" && rd.GroupID == v.Audio && v.Audio != "" {
			audioR = append(audioR, rd)
		} else {
			r.add("C16", "unexpected-rendition", "unexpected EXT-X-MEDIA TYPE=%s GROUP-ID=%q (variant AUDIO=%q)", rd.Type, rd.GroupID, v.Audio)
		}
	}
	if len(audioR) != len(wantR) {
		r.add("C16", "rendition-count", "index.m3u8 lists %d audio renditions in the variant's AUDIO group, %d tracks must appear as renditions (write %d)\n%s", len(audioR), len(wantR), w, canon(string(st.index)))
	} else {
		ndef := 0
		for i, wr := range wantR {
			g := audioR[i]
			if g.Name != wr.name || g.Language != wr.lang {
				r.add("C16", "rendition-name-language", "rendition %d has NAME=%q LANGUAGE=%q, want %q %q", i, g.Name, g.Language, wr.name, wr.lang)
			}
			if wr.hasURI != (g.URI != nil) || (g.URI != nil && *g.URI != wr.uri) {
				u := "<none>"
				if g.URI != nil {
					u = *g.URI
				}
				r.add("C16", "rendition-uri", "rendition %d (%s) has URI %s, want %q (present=%v)", i, wr.name, u, wr.uri, wr.hasURI)
			}
			isDef := g.Default != nil && *g.Default
			if isDef {
				ndef++
			}
			if isDef != wr.def {
				r.add("C16", "rendition-default", "rendition %d (%s) has DEFAULT=%v, want %v (write %d)", i, wr.name, isDef, wr.def, w)
			}
		}
		if len(wantR) > 0 && ndef != 1 {
			r.add("C16", "rendition-default", "%d renditions are DEFAULT=YES, exactly one is required", ndef)
		}
	}
	if len(wantR) == 0 && v.Audio != "" {
		r.add("C16", "unexpected-audio-group", "variant references AUDIO group %q but no rendition is expected", v.Audio)
	}
	// bandwidth
	avg := 0
	if v.AverageBandwidth != nil {
		avg = *v.AverageBandwidth
	}
	// the bit rate is undefined when no listed segment has a positive duration
	anyDur := false
	for _, po := range st.streams {
		if po.mp != nil {
			for _, sg := range po.mp.Segments {
				if !sg.Gap && sg.DurationNS > 0 {
					anyDur = true
				}
			}
		}
	}
	if anyDur && !(v.Bandwidth >= avg && avg > 0) {
		r.add("C16", "bandwidth-order", "BANDWIDTH=%d AVERAGE-BANDWIDTH=%d (want BANDWIDTH >= AVERAGE-BANDWIDTH > 0) after write %d", v.Bandwidth, avg, w)
	}
	if len(m.streams) == 1 && st.streams[0].mp != nil {
		var peak, totalBits, totalNS float64
		okAll := true
		for _, sg := range st.streams[0].mp.Segments {
			if sg.Gap {
				continue
			}
			ui := r.uris[canon(stripQuery(sg.URI))]
			if ui == nil || ui.body == nil || sg.DurationNS <= 0 {
				okAll = false
				continue
			}
			bits := float64(8 * len(ui.body))
			if bw := bits * 1e9 / float64(sg.DurationNS); bw > peak {
				peak = bw
			}
			totalBits += bits
			totalNS += float64(sg.DurationNS)
		}
		if okAll && totalNS > 0 {
			mean := totalBits * 1e9 / totalNS
			near := func(a int, b float64) bool {
				d := float64(a) - b
				if d < 0 {
					d = -d
				}
				return d <= b*0.001+2
			}
			if !near(v.Bandwidth, peak) {
				r.add("C16", "bandwidth-peak", "BANDWIDTH=%d but the peak bit rate of the listed segments is %.0f (write %d)", v.Bandwidth, peak, w)
			}
			if !near(avg, mean) {
				r.add("C16", "bandwidth-average", "AVERAGE-BANDWIDTH=%d but the mean bit rate of the listed segments is %.0f (write %d)", avg, mean, w)
			}
		}
	}
}

// all orders of at most one video track and the given audio tracks
func c16TrackLists(tier string) [][]trackSpec {
	var out [][]trackSpec
	videos := []string{"h264", "h265", "vp9", "av1", ""}
	audios := [][]trackSpec{
		{},
		{{Kind: "aac44"}},
		{{Kind: "opus", Name: "Deutsch", Lang: "de"}},
		{{Kind: "aac44", Name: "English"}, {Kind: "aac48", Lang: "fr"}},
		{{Kind: "aac44"}, {Kind: "opus", Name: "b", Lang: "it"}, {Kind: "aac48", Name: "c"}},
		// two MPEG-4 audio object types, the longer RFC 6381 string first (mp4a.40.29, mp4a.40.2): each is listed
		{{Kind: "aacps", Name: "ps"}, {Kind: "aac48", Name: "lc"}},
		{{Kind: "aac44"}, {Kind: "aacps", Name: "ps", Lang: "en"}},
		// names a quoted-string carries verbatim: a backslash, non-ASCII letters and spaces (U+3000, U+00A0), separators
		{{Kind: "aac44", Name: "Stereo \\ Commentary", Lang: "en-US"}, {Kind: "opus", Name: "日本語\u3000解説", Lang: "ja"}, {Kind: "aac48", Name: "a b\u00a0c, d=e;#é", Lang: "x-klingon"}},
	}
	for vi, v := range videos {
		for ai, al := range audios {
			if v == "" && len(al) == 0 {
				continue
			}
			if tier != "thorough" && vi > 0 && vi < 4 && ai >= 3 {
				continue
			}
			// video position: every slot
			npos := len(al) + 1
			if v == "" {
				npos = 1
			}
			for pos := 0; pos < npos; pos++ {
				// default flag: none, or each single audio track
				for def := -1; def < len(al); def++ {
					if tier != "thorough" && def >= 0 && (vi > 0 && vi < 4) {
						continue
					}
					var l []trackSpec
					for i, a := range al {
						if v != "" && i == pos {
							l = append(l, trackSpec{Kind: v})
						}
						a.Default = i == def
						l = append(l, a)
					}
					if v != "" && pos == len(al) {
						l = append(l, trackSpec{Kind: v})
					}
					out = append(out, l)
					if v != "" && len(al) > 0 && def <= 0 && (vi == 0 || tier == "thorough") {
						// the same list with the flag (documented for audio renditions) set on the video track as well: it says
						// nothing about the renditions
						lv := append([]trackSpec{}, l...)
						for i := range lv {
							if lv[i].video() {
								lv[i].Default = true
							}
						}
						out = append(out, lv)
					}
				}
			}
		}
	}
	return out
}

func c16Scens(tier string) []e1Scen {
	var out []e1Scen
	for _, variant := range []string{"fmp4", "ll", "mpegts"} {
		for tli, tl := range c16TrackLists(tier) {
			if variant == "mpegts" {
				ok := true
				na := 0
				for _, t := range tl {
					if t.video() && t.Kind != "h264" {
						ok = false
					}
					if !t.video() {
						na++
						if !strings.HasPrefix(t.Kind, "aac") {
							ok = false
						}
					}
				}
				if !ok || na > 1 {
					continue
				}
			}
			cfg := muxCfg{Variant: variant, Tracks: tl, SegCount: 3, SegMinMS: 1000}
			if variant == "ll" {
				cfg.SegCount, cfg.PartMS = 7, 200
			}
			// one word per configuration: regular GOPs, a parameter change, a bare key frame, audio in between
			var word []sym
			lead := cfg.leading()
			if tl[lead].video() {
				kinds := []string{"R", "n", "R", "n", "P", "n", "R", "N", "r", "n", "R"}
				if k := tl[lead].Kind; k == "h264" {
					kinds = append(kinds, "Q", "r", "n", "r", "n", "R") // new parameter sets in an access unit of their own, then bare key frames
				}
				for i, k := range kinds {
					d := "h"
					if i == 0 {
						d = "f"
					}
					word = append(word, sym{T: lead, D: d, K: k})
					for ti, t := range tl {
						if !t.video() {
							word = append(word, sym{T: ti, D: "c", N: 22})
						}
					}
				}
			} else {
				for i := 0; i < 260; i++ {
					for ti := range tl {
						word = append(word, sym{T: ti, D: "c", N: 1 + i%2})
					}
				}
			}
			// the query string must appear verbatim on every URI: keys out of order, a key without value, an escape that
			// re-encoding would change, a pair a query parser rejects
			for _, q := range []string{"", "a=1&b=2", "token=abc&id=7", "session", "sig=a%2fb&z=1", "user=x;expires=1234"} {
				if tier != "thorough" && q != "" && len(tl) > 2 {
					continue
				}
				out = append(out, e1Scen{Prop: "C16", Cfg: cfg, Alpha: word, Mode: "long", Len: len(word), Query: q, Name: "c16-word"})
			}
			// the same from disk storage (segment sizes then come from the finalized file, not from the RAM parts)
			if tli%3 == 0 || tier == "thorough" {
				dcfg := cfg
				dcfg.Disk = true
				out = append(out, e1Scen{Prop: "C16", Cfg: dcfg, Alpha: word, Mode: "long", Len: len(word), Name: "c16-word"})
			}
		}
	}
	// a multivariant request that is already pending when the first units arrive (it waits for content): the parameter sets
	// it reports are those in force when it is answered - every word over {key frame, key frame with new parameter sets,
	// ordinary frame}, the switch before or after the content becomes available
	for _, vk := range [][2]string{{"fmp4", "h264"}, {"ll", "h264"}, {"mpegts", "h264"}, {"fmp4", "h265"}, {"fmp4", "av1"}, {"fmp4", "vp9"}, {"ll", "av1"}} {
		cfg := mcfg(vk[0], false, 3, vk[1], "aac44")
		if vk[0] == "ll" {
			cfg.SegCount = 7
		}
		d := 5
		if tier == "thorough" {
			d = 7
		}
		alpha := []sym{{T: 0, D: "S", K: "R"}, {T: 0, D: "S", K: "P"}, {T: 0, D: "f", K: "n"}}
		out = append(out, e1Shard(e1Scen{Prop: "C16", Cfg: cfg, Alpha: alpha, Depth: d, Mode: "tree", Pending: true, Name: "pending-index-tree"}, 1)...)
	}
	// parameter sets that differ in one component only: CODECS / RESOLUTION follow exactly what changed
	for _, kd := range paramDeltas() {
		cfg := mcfg("fmp4", false, 3, kd[0])
		cfg.ParamDelta = kd[1]
		var word []sym
		for i, k := range []string{"R", "n", "R", "n", "P", "n", "R", "N", "r", "n", "R", "P", "n", "R"} {
			d := "h"
			if i == 0 {
				d = "f"
			}
			word = append(word, sym{T: 0, D: d, K: k})
		}
		out = append(out, e1Scen{Prop: "C16", Cfg: cfg, Alpha: word, Mode: "long", Len: len(word), Name: "c16-param-delta"})
	}
	// zero-duration segments and parameter changes at the same instant (single-stream, bandwidth formulas)
	for _, variant := range []string{"mpegts", "fmp4", "ll"} {
		cfg := mcfg(variant, false, 3, "h264")
		if variant == "ll" {
			cfg.SegCount = 7
		}
		var a []sym
		for _, d := range []string{"0", "h", "S"} {
			for _, k := range []string{"R", "P", "n"} {
				a = append(a, sym{T: 0, D: d, K: k})
			}
		}
		depth := 4
		if tier == "thorough" {
			depth = 6
		}
		out = append(out, e1Shard(e1Scen{Prop: "C16", Cfg: cfg, Alpha: a, Depth: depth, Mode: "tree", Name: "c16-zero-duration-tree"}, 4)...)
		dcfg := cfg
		dcfg.Disk = true
		out = append(out, e1Shard(e1Scen{Prop: "C16", Cfg: dcfg, Alpha: a, Depth: depth - 1, Mode: "tree", Name: "c16-zero-duration-tree"}, 2)...)
	}
	return out
}

var _ = sort.Strings
