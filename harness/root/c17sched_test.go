//go:build verif

package gohlslib

// C17, concurrent half (hidden spec C17-sched, run by C17's command): the storage back ends are used by the muxer from
// several goroutines - the writer finalises a file while request handlers open readers of its parts and of the file. Every
// interleaving of Finalize with one or two readers (scheduling points at the back ends' locks and at every statement of
// Finalize / Reader / NewPart) must give each reader exactly the bytes that were written: a part reader always, a file
// reader unless it is refused because the file is not finalised yet.

import (
	"bytes"
	"fmt"
	"io"
	"os"

	"github.com/bluenviron/gohlslib/v2/internal/zzverif/vh"
	"github.com/bluenviron/gohlslib/v2/internal/zzverif/vsched"
	"github.com/bluenviron/gohlslib/v2/pkg/storage"
)

func init() {
	verifProps["C17-sched"] = vh.Prop{List: c17sList, Run: c17sRun}
}

type c17sScen struct {
	Disk    bool     `json:"disk"`
	Parts   int      `json:"parts"`
	Readers []string `json:"readers"` // "last", "first", "file": what each reader thread opens while Finalize runs
	Bound   int      `json:"bound"`
}

func (s c17sScen) name() string {
	return fmt.Sprintf("storage-sched disk=%v parts=%d readers=%v bound=%d", s.Disk, s.Parts, s.Readers, s.Bound)
}

func c17sScens(tier string) []c17sScen {
	var out []c17sScen
	for _, disk := range []bool{true, false} {
		for _, parts := range []int{1, 2, 3} {
			for _, rd := range [][]string{{"last"}, {"first"}, {"file"}, {"last", "last"}, {"last", "file"}, {"first", "last"}} {
				if parts == 1 && rd[0] == "first" {
					continue
				}
				b := -1
				if len(rd) == 2 {
					b = 3
					if tier == "thorough" {
						b = 5
					}
				}
				out = append(out, c17sScen{Disk: disk, Parts: parts, Readers: rd, Bound: b})
			}
		}
	}
	return out
}

func c17sList(tier string) []vh.Scenario {
	var out []vh.Scenario
	for _, s := range c17sScens(tier) {
		out = append(out, vh.Scenario{Name: s.name(), Weight: 10 * len(s.Readers)})
	}
	return out
}

type c17sState struct {
	dir     string
	file    storage.File
	parts   []storage.Part
	content [][]byte
	got     [][]byte
	errs    []error
	done    []bool
	fin     bool
}

func c17sHarness(sc c17sScen, scratch string) vsched.Harness {
	return vsched.Harness{
		Setup: func(s *vsched.Sched) any {
			st := &c17sState{}
			var fa storage.Factory
			if sc.Disk {
				d, err := os.MkdirTemp(scratch, "c17s-")
				if err != nil {
					panic(err)
				}
				st.dir = d
				fa = storage.NewFactoryDisk(d)
			} else {
				fa = storage.NewFactoryRAM()
			}
			f, err := fa.NewFile("seg.mp4")
			if err != nil {
				panic(err)
			}
			st.file = f
			for i := 0; i < sc.Parts; i++ {
				p := f.NewPart()
				b := bytes.Repeat([]byte{byte(0x10*(i+1) + 1)}, 3+2*i)
				b[len(b)-1] = byte(i)
				if _, err := p.Writer().Write(b); err != nil {
					panic(err)
				}
				st.parts = append(st.parts, p)
				st.content = append(st.content, b)
			}
			st.got = make([][]byte, len(sc.Readers))
			st.errs = make([]error, len(sc.Readers))
			st.done = make([]bool, len(sc.Readers))
			vsched.GoNamed("finalizer", func() {
				st.file.Finalize()
				st.fin = true
			})
			for ri, what := range sc.Readers {
				ri, what := ri, what
				vsched.GoNamed(fmt.Sprintf("reader%d-%s", ri, what), func() {
					var r io.ReadCloser
					var err error
					switch what {
					case "last":
						r, err = st.parts[len(st.parts)-1].Reader()
					case "first":
						r, err = st.parts[0].Reader()
					default:
						r, err = st.file.Reader()
					}
					if err == nil {
						st.got[ri], err = io.ReadAll(r)
						r.Close()
					}
					st.errs[ri] = err
					st.done[ri] = true
				})
			}
			return st
		},
		Check: func(s *vsched.Sched, tr *vsched.Trace, sti any) (string, []vsched.Viol) {
			st := sti.(*c17sState)
			var viols []vsched.Viol
			add := func(sig, format string, a ...any) {
				viols = append(viols, vsched.Viol{Sig: sig, Msg: fmt.Sprintf(format, a...)})
			}
			if tr.Livelock != "" {
				add("livelock", "%s", tr.Livelock)
			}
			for _, p := range tr.Panics {
				add("panic", "%s", p)
			}
			if tr.Deadlock != "" || !st.fin {
				add("storage-sched/stuck", "Finalize or a reader never returned: %s", tr.Deadlock)
			}
			outcome := ""
			for ri, what := range sc.Readers {
				if !st.done[ri] {
					continue
				}
				var want []byte
				switch what {
				case "last":
					want = st.content[len(st.content)-1]
				case "first":
					want = st.content[0]
				default:
					want = bytes.Join(st.content, nil)
				}
				switch {
				case st.errs[ri] != nil && what == "file":
					outcome += " file:refused" // not finalised yet: legal
				case st.errs[ri] != nil:
					add("storage-sched/part-reader-error", "reader of the %s part opened while Finalize was running failed: %v", what, st.errs[ri])
				case !bytes.Equal(st.got[ri], want):
					add("storage-sched/"+what+"-reader-bytes", "reader of the %s (%s back end, %d parts) opened while Finalize was running returned %v, written %v", map[string]string{"last": "last part", "first": "first part", "file": "file"}[what], map[bool]string{true: "disk", false: "RAM"}[sc.Disk], sc.Parts, st.got[ri], want)
				default:
					outcome += " " + what + ":ok"
				}
			}
			if st.fin {
				if sz := st.file.Size(); sz != uint64(len(bytes.Join(st.content, nil))) {
					add("storage-sched/size", "Size() = %d after Finalize, %d bytes were written", sz, len(bytes.Join(st.content, nil)))
				}
				st.file.Remove()
			}
			if st.dir != "" {
				os.RemoveAll(st.dir)
			}
			return outcome, viols
		},
	}
}

func c17sRun(c *vh.Ctx) {
	for _, sc := range c17sScens(c.Tier) {
		if sc.name() == c.Scenario {
			runSched(c, sc, c17sHarness(sc, c.Scratch), sc.Bound, false, 0, 1)
			return
		}
	}
	c.EngineError("unknown scenario %q", c.Scenario)
}
