//go:build verif

package gohlslib

// C18: retention is bounded (segment count, disk files, URL table) and SegmentMaxSize is enforced (engine E1).

import (
	"fmt"
	"net/http"
	"net/url"
	"os"
	"path/filepath"
	"strings"

	"github.com/bluenviron/gohlslib/v2/internal/zzverif/vh"
)

func init() {
	verifProps["C18"] = vh.Prop{
		List: func(tier string) []vh.Scenario { return e1List(c18Scens(tier)) },
		Run:  func(c *vh.Ctx) { e1Run(c, c18Scens(c.Tier)) },
	}
	e1Hooks["C18"] = func(r *e1run) {
		if r.cfg.MaxSize != 0 {
			st := &c18size{}
			r.sizeHook = st.hook
		}
		r.finalHook = c18Final
		if r.cfg.Disk && r.cfg.MaxSize == 0 {
			ov := &c18overlap{}
			r.stepHook = ov.step
			r.finalHook = func(r *e1run) { ov.final(r); c18Final(r) }
		}
	}
}

// c18overlap: several downloads of one whole segment are in progress (their clients are slow to take the body) when that
// segment leaves the window; once they have finished, nothing of the segment may be left in Directory. The downloads block
// inside the first Write of their ResponseWriter and are released by the harness: no clock is involved.
type c18overlap struct {
	started bool
	path    string
	rws     []*blockedRW
	done    []chan struct{}
}

type blockedRW struct {
	hdr     http.Header
	status  int
	entered chan struct{}
	release chan struct{}
	in      bool
	n       int
}

func (w *blockedRW) Header() http.Header { return w.hdr }
func (w *blockedRW) WriteHeader(s int)   { w.status = s }
func (w *blockedRW) Write(p []byte) (int, error) {
	if !w.in {
		w.in = true
		close(w.entered)
		<-w.release
	}
	w.n += len(p)
	return len(p), nil
}

func (o *c18overlap) step(r *e1run) {
	if o.started || len(r.ops) < 4 {
		return
	}
	ls := r.mi.m.leadingStream
	ls.mutex.Lock()
	for _, sg := range ls.segments {
		if p := sg.getPath(); p != "" {
			o.path = p
			break
		}
	}
	ls.mutex.Unlock()
	if o.path == "" {
		return
	}
	o.started = true
	for k := 0; k < 3; k++ {
		w := &blockedRW{hdr: http.Header{}, entered: make(chan struct{}), release: make(chan struct{})}
		d := make(chan struct{})
		o.rws, o.done = append(o.rws, w), append(o.done, d)
		u, _ := url.Parse("http://localhost/" + o.path)
		go func() {
			defer close(d)
			r.mi.m.Handle(w, &http.Request{Method: "GET", URL: u, Header: http.Header{}})
		}()
		select {
		case <-w.entered: // the reader is open and the first bytes are on their way
		case <-d: // answered without a body
		}
	}
}

func (o *c18overlap) final(r *e1run) {
	if !o.started {
		return
	}
	// the downloads finish one after the other
	for k, w := range o.rws {
		close(w.release)
		<-o.done[k]
	}
	ls := r.mi.m.leadingStream
	listed := false
	ls.mutex.Lock()
	for _, sg := range ls.segments {
		if sg.getPath() == o.path {
			listed = true
		}
	}
	ls.mutex.Unlock()
	if listed {
		return // the word was too short for the segment to leave the window
	}
	if _, err := os.Stat(filepath.Join(r.mi.dir, o.path)); err == nil {
		r.add("C18", "expired-file-left-after-downloads", "%s left the window while %d downloads of it were in progress; they have all finished and its file is still in Directory; ops %s", canon(o.path), len(o.rws), r.opsString())
	}
}

type c18size struct {
	acct  []int // per track: emitted units already accounted
	cutsN int
	// per stream (MPEG-TS: one stream holds every track; fMP4 variants: one stream, hence one segment, per track):
	raw []uint64 // payload bytes of the open segment, smaller accounting (NALU / access unit bytes)
	big []uint64 // larger accounting (container sample bytes: 4-byte length prefix per NALU in fMP4)
}

func c18StreamOf(cfg muxCfg, track int) int {
	if cfg.Variant == "mpegts" {
		return 0
	}
	return track
}

func unitSizes(cfg muxCfg, track int, data [][]byte) (raw, big uint64) {
	for _, d := range data {
		raw += uint64(len(d))
	}
	big = raw
	if cfg.Variant != "mpegts" && cfg.Tracks[track].video() {
		big += 4 * uint64(len(data))
	}
	return
}

func (s *c18size) hook(r *e1run, ok bool) {
	m := r.model
	if s.acct == nil {
		s.acct = make([]int, len(m.emitted))
		s.raw = make([]uint64, len(m.emitted))
		s.big = make([]uint64, len(m.emitted))
	}
	limit := r.cfg.MaxSize
	if !ok {
		if !strings.Contains(r.writeErr, "maximum segment size") {
			return
		}
		// which unit was being accounted when the write failed?
		u := r.ops[len(r.ops)-1]
		var raw, big uint64
		segBig := s.big[c18StreamOf(r.cfg, u.Track)]
		if r.cfg.Variant == "mpegts" {
			var data [][]byte
			if r.cfg.Tracks[u.Track].video() {
				data = r.mi.videoData(wunit{Track: u.Track, RA: u.RA, Params: u.Params &^ 2, Seq: u.Seq, Size: u.Size})
			} else {
				data = r.mi.audioData(u)
			}
			raw, big = unitSizes(r.cfg, u.Track, data)
			// MPEG-TS rotates before it accounts the unit
			if u.Track == m.lead && m.segOpen && r.cfg.Tracks[u.Track].video() && u.RA {
				if re, _ := m.reached(u.DTS); re {
					segBig = 0
				}
			}
		} else {
			prev := m.next[u.Track]
			if prev == nil {
				return
			}
			// a multi-AU audio write emits the look-ahead unit and then all but the last of its own units
			cands := [][][]byte{prev.data}
			if !r.cfg.Tracks[u.Track].video() && u.NAU > 1 {
				d := r.mi.audioData(u)
				for k := 0; k < len(d)-1; k++ {
					cands = append(cands, [][]byte{d[k]})
				}
			}
			for _, cd := range cands {
				ra, bg := unitSizes(r.cfg, u.Track, cd)
				raw += ra
				big += bg
				if segBig+big > limit {
					return // legitimately above the limit
				}
			}
		}
		_ = raw
		if segBig+big <= limit {
			r.add("C18", "spurious-size-error", "write %d failed with %q although the open segment would hold only %d bytes (container accounting) with it, SegmentMaxSize is %d; ops %s", r.writeErrAt, r.writeErr, segBig+big, limit, r.opsString())
		}
		return
	}
	// account newly emitted units; a cut resets the totals (units emitted by the cutting write belong to the old segment
	// in fMP4 and to the new one in MPEG-TS, exactly as the model's cut counts say)
	for len(m.cuts) > s.cutsN {
		c := m.cuts[s.cutsN]
		for t := range s.acct {
			for s.acct[t] < c.counts[t] {
				ra, bg := unitSizes(r.cfg, t, m.emitted[t][s.acct[t]].data)
				s.raw[c18StreamOf(r.cfg, t)] += ra
				s.big[c18StreamOf(r.cfg, t)] += bg
				s.acct[t]++
			}
		}
		s.check(r, limit)
		for i := range s.raw {
			s.raw[i], s.big[i] = 0, 0
		}
		s.cutsN++
	}
	for t := range s.acct {
		for s.acct[t] < len(m.emitted[t]) {
			ra, bg := unitSizes(r.cfg, t, m.emitted[t][s.acct[t]].data)
			s.raw[c18StreamOf(r.cfg, t)] += ra
			s.big[c18StreamOf(r.cfg, t)] += bg
			s.acct[t]++
		}
	}
	s.check(r, limit)
}

func (s *c18size) check(r *e1run, limit uint64) {
	for si, raw := range s.raw {
		if raw > limit {
			r.add("C18", "size-limit-exceeded", "after write %d a segment of stream %d holds %d bytes of media payload (NALU / access-unit bytes), SegmentMaxSize is %d, and no Write has failed; ops %s", len(r.ops)-1, si, raw, limit, r.opsString())
		}
	}
}

// c18Final: over a long history the URL table and the directory must not grow.
func c18Final(r *e1run) {
	n := len(r.steps)
	if n < 600 {
		return // only histories long enough for the window to be full well before the first third ends
	}
	maxOf := func(a, b int) (int, int) {
		mt, mf := 0, 0
		for _, st := range r.steps[a:b] {
			if st.pathTable > mt {
				mt = st.pathTable
			}
			if len(st.files) > mf {
				mf = len(st.files)
			}
		}
		return mt, mf
	}
	t1, f1 := maxOf(n/3, 2*n/3)
	t2, f2 := maxOf(2*n/3, n)
	if t2 > t1 {
		r.add("C18", "url-table-grows", "the URL table reached %d entries in the last third of a %d-write history, %d in the middle third", t2, n, t1)
	}
	if f2 > f1 {
		r.add("C18", "directory-grows", "Directory reached %d files in the last third of a %d-write history, %d in the middle third", f2, n, f1)
	}
}

func c18Scens(tier string) []e1Scen {
	var out []e1Scen
	// retention: periodic words (window slides many times) and one very long word per variant x storage
	longLen := 1200
	if tier == "thorough" {
		longLen = 3600 // (12000 writes took a worker more than 20 minutes per chunk with the observations added since: too close to the tier budget)
	}
	for _, g := range e1BaseGrid(tier) {
		per := e1Scen{Prop: "C18", Cfg: g.cfg, Alpha: g.alphabet(), Mode: "periodic", Period: 2, Len: 6 * g.cfg.SegCount * 2, Name: g.alpha + "-periodic"}
		if tier == "thorough" {
			per.Period, per.Len = 3, 8*g.cfg.SegCount*2
		}
		out = append(out, e1Shard(per, 2)...)
	}
	for _, variant := range []string{"mpegts", "fmp4", "ll"} {
		for _, disk := range []bool{false, true} {
			for _, extra := range []int{0, 2, 3, 5, 9} {
				cfg := mcfg(variant, disk, 3+extra, "h264", "aac44")
				if variant == "ll" {
					cfg.SegCount = 7 + extra
				}
				if tier != "thorough" && extra != 0 && !disk {
					continue
				}
				// R, 3 frames, audio: 4 video units and 2 audio writes per second
				word := []sym{{T: 0, D: "q", K: "R"}, {T: 1, D: "c", N: 11}, {T: 0, D: "q", K: "n"}, {T: 0, D: "q", K: "n"}, {T: 1, D: "c", N: 11}, {T: 0, D: "q", K: "n"}}
				out = append(out, e1Scen{Prop: "C18", Cfg: cfg, Alpha: word, Mode: "long", Len: longLen, Name: "retention-long"})
			}
		}
	}
	// storage fault at a rotation (the file of the next segment cannot be created), writer carries on:
	// every rotation index of a regular word, Directory storage
	for _, variant := range []string{"mpegts", "fmp4", "ll"} {
		cfg := mcfg(variant, true, 3, "h264")
		if variant == "ll" {
			cfg.SegCount = 7
		}
		word := []sym{{T: 0, D: "q", K: "R"}, {T: 0, D: "q", K: "n"}, {T: 0, D: "q", K: "n"}, {T: 0, D: "q", K: "n"}}
		nrot := 12
		if tier == "thorough" {
			nrot = 30
		}
		for fa := 1; fa <= nrot; fa++ {
			out = append(out, e1Scen{Prop: "C18", Cfg: cfg, Alpha: word, Mode: "fault", Len: 4 * (nrot + cfg.SegCount + 4), FaultAt: fa, Name: fmt.Sprintf("rotation-fault-%d", fa)})
		}
	}
	// ... and the same input fault again and again (every fifth and sixth key frame), Directory and RAM, writer carrying on:
	// what could not be published does not pile up either
	for _, variant := range []string{"fmp4", "ll"} {
		for _, codec := range []string{"av1", "h265"} {
			for _, disk := range []bool{true, false} {
				cfg := mcfg(variant, disk, 3, codec)
				if variant == "ll" {
					cfg.SegCount = 7
				}
				word := []sym{{T: 0, D: "q", K: "R"}, {T: 0, D: "q", K: "n"}, {T: 0, D: "q", K: "n"}, {T: 0, D: "q", K: "n"}}
				out = append(out, e1Scen{Prop: "C18", Cfg: cfg, Alpha: word, Mode: "paramfault", Len: 4 * 60, FaultAt: 3, Period: 5, Name: "bad-parameter-sets-again-and-again"})
			}
		}
	}
	// storage fault at the end of a segment (MPEG-TS: the final flush of the finished segment fails), repeated at every
	// fourth rotation, writer carries on: the segment that could not be completed must not stay in Directory
	for _, tracks := range [][]string{{"h264"}, {"h264", "aac44"}} {
		cfg := mcfg("mpegts", true, 3, tracks...)
		word := []sym{{T: 0, D: "q", K: "R"}, {T: 0, D: "q", K: "n"}, {T: 0, D: "q", K: "n"}, {T: 0, D: "q", K: "n"}}
		for fa := 1; fa <= 4; fa++ {
			out = append(out, e1Scen{Prop: "C18", Cfg: cfg, Alpha: word, Mode: "flushfault", Len: 4 * 30, FaultAt: fa, Name: fmt.Sprintf("flush-fault-from-%d", fa)})
		}
	}
	// configurations at and below the minimum SegmentCount of the Low-Latency variant, given explicitly and through the
	// zero value of Variant: Start may refuse 3..6; if it accepts, the retention bound is the SegmentCount it was given
	for n := 3; n <= 8; n++ {
		for _, defaults := range []bool{false, true} {
			cfg := mcfg("ll", n%2 == 0, n, "h264", "aac44")
			cfg.SegMinMS, cfg.PartMS = 1000, 200
			cfg.Defaults, cfg.MayRefuse = defaults, n < 7
			word := []sym{{T: 0, D: "q", K: "R"}, {T: 1, D: "c", N: 11}, {T: 0, D: "q", K: "n"}, {T: 0, D: "q", K: "n"}, {T: 1, D: "c", N: 11}, {T: 0, D: "q", K: "n"}}
			out = append(out, e1Scen{Prop: "C18", Cfg: cfg, Alpha: word, Mode: "long", Len: 6 * (n + 12), Name: "retention-small-window"})
		}
	}
	// the same failed rotation reached through the input alone: random-access units whose parameter sets cannot be
	// parsed make the Write that has to build the init segment from them fail inside the rotation
	for _, codec := range []string{"h264", "h265", "av1"} {
		cfg := mcfg("ll", false, 7, codec)
		word := []sym{{T: 0, D: "q", K: "R"}, {T: 0, D: "q", K: "n"}, {T: 0, D: "q", K: "n"}, {T: 0, D: "q", K: "n"}}
		for fa := 1; fa <= 4; fa++ {
			out = append(out, e1Scen{Prop: "C18", Cfg: cfg, Alpha: word, Mode: "paramfault", Len: 4 * (fa + cfg.SegCount + 4), FaultAt: fa, Name: fmt.Sprintf("bad-parameter-sets-%d", fa)})
		}
	}
	// SegmentMaxSize: totals landing below, on and above the limit at every position of the tree
	depth := 5
	if tier == "thorough" {
		depth = 7
	}
	for _, variant := range []string{"mpegts", "fmp4", "ll"} {
		lo, hi := 40, 62
		for lim := lo; lim <= hi; lim++ {
			if tier != "thorough" && lim%2 == 1 && lim > 52 {
				continue
			}
			cfg := mcfg(variant, false, 3, "h264")
			if variant == "ll" {
				cfg.SegCount = 7
			}
			cfg.MaxSize = uint64(lim)
			alpha := []sym{{T: 0, D: "f", K: "n"}, {T: 0, D: "f", K: "n", Sz: 1}, {T: 0, D: "f", K: "n", Sz: 3}, {T: 0, D: "S", K: "R"}, {T: 0, D: "f", K: "r"}}
			if variant == "ll" {
				// a quarter of a segment is longer than a part: the segment's bytes are spread over several parts
				alpha = []sym{{T: 0, D: "f", K: "n"}, {T: 0, D: "q", K: "n"}, {T: 0, D: "q", K: "n", Sz: 3}, {T: 0, D: "S", K: "R"}, {T: 0, D: "f", K: "r"}}
			}
			out = append(out, e1Scen{Prop: "C18", Cfg: cfg, Alpha: alpha, Depth: depth, Mode: "tree", Pre: 0, Name: fmt.Sprintf("size-tree-%d", lim), Start: 0, Query: "", Period: 1})
			if lim%6 == 2 && variant != "ll" {
				// the extra bytes as filler data NAL units: stuffing is stored like everything else, so it counts
				fc := cfg
				fc.Filler = true
				out = append(out, e1Scen{Prop: "C18", Cfg: fc, Alpha: alpha, Depth: depth, Mode: "tree", Name: fmt.Sprintf("size-tree-filler-%d", lim), Period: 1})
			}
			if lim%6 == 4 {
				// ... and one unit that is larger than the limit all by itself
				big := append(append([]sym{}, alpha[:4]...), sym{T: 0, D: "f", K: "n", Sz: 70})
				out = append(out, e1Scen{Prop: "C18", Cfg: cfg, Alpha: big, Depth: depth, Mode: "tree", Name: fmt.Sprintf("size-tree-oversized-unit-%d", lim), Period: 1})
			}
		}
		// video + audio: the bytes of every track count towards the limit
		for lim := 40; lim <= 60; lim += 2 {
			if tier != "thorough" && lim%4 != 0 {
				continue
			}
			cfg := mcfg(variant, false, 3, "h264", "aac44")
			if variant == "ll" {
				cfg.SegCount = 7
			}
			cfg.MaxSize = uint64(lim)
			alpha := []sym{{T: 0, D: "f", K: "n"}, {T: 1, D: "c", N: 1}, {T: 1, D: "c", N: 2}, {T: 1, D: "c", N: 1, Sz: 1}, {T: 0, D: "S", K: "R"}}
			out = append(out, e1Scen{Prop: "C18", Cfg: cfg, Alpha: alpha, Depth: depth, Mode: "tree", Name: fmt.Sprintf("size-tree-av-%d", lim), Period: 1})
		}
		// audio-only
		for lim := 10; lim <= 16; lim++ {
			cfg := mcfg(variant, false, 3, "aac44")
			if variant == "ll" {
				cfg.SegCount = 7
			}
			cfg.MaxSize = uint64(lim)
			alpha := []sym{{T: 0, D: "c", N: 1}, {T: 0, D: "c", N: 2}, {T: 0, D: "c", N: 1, Sz: 1}, {T: 0, D: "g", N: 1}}
			out = append(out, e1Scen{Prop: "C18", Cfg: cfg, Alpha: alpha, Depth: depth, Mode: "tree", Name: fmt.Sprintf("size-tree-audio-%d", lim), Period: 1})
		}
	}
	return out
}
