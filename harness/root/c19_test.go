//go:build verif

package gohlslib

// C19: Low-Latency parts are regular (complete grid of sample durations x PartMinDuration x key-frame spacings).

import (
	"encoding/json"
	"fmt"
	"strings"

	"github.com/bluenviron/gohlslib/v2/internal/zzverif/m3u"
	"github.com/bluenviron/gohlslib/v2/internal/zzverif/vh"
	"github.com/bluenviron/gohlslib/v2/pkg/codecs"
	"github.com/bluenviron/mediacommon/v2/pkg/codecs/mpeg4audio"
	"github.com/bluenviron/mediacommon/v2/pkg/formats/fmp4"
)

func init() {
	verifProps["C19"] = vh.Prop{List: c19List, Run: c19Run}
}

type c19Src struct {
	Kind  string `json:"kind"`  // h264 aac opus
	Clock int    `json:"clock"` // track clock rate
	D     int    `json:"d"`     // sample duration in ticks
	Label string `json:"label"`
	Batch int    `json:"batch,omitempty"` // aac: access units per WriteMPEG4Audio call (default 1)
	SBR   bool   `json:"sbr,omitempty"`   // aac: HE-AAC with explicit SBR signalling (extension sample rate = 2 x Clock)
}

type c19Case struct {
	Src          c19Src `json:"src"`
	PartMS       int    `json:"part_ms"`
	SegMS        int    `json:"seg_ms"`
	Spacing      []int  `json:"spacing_ms"`               // key-frame spacing pattern in ms (video); 0 = every sample
	Audio        string `json:"audio,omitempty"`          // video-led with an additional audio track: aac16 aac44 aac48 opus
	AudioStartMS int    `json:"audio_start_ms,omitempty"` // the audio track starts this late
	AudioFirst   bool   `json:"audio_first,omitempty"`    // the audio track is listed before the video track in Muxer.Tracks
	AudioDefault bool   `json:"audio_default,omitempty"`  // the additional audio track is the one marked IsDefault
	ParamFrame   int    `json:"param_frame,omitempty"`    // video: this frame (an ordinary one) carries new parameter sets ahead of the key frame that uses them
	BaseDays     int    `json:"base_days,omitempty"`      // the time stamps start that many days into the clock (a source that has been running for long)
	ParamAt      int    `json:"param_at,omitempty"`       // video: the k-th key frame (1-based, > 1) switches to the other parameter set
}

func c19Sources(tier string) []c19Src {
	var out []c19Src
	fps := []int{1, 2, 5, 10, 12, 15, 20, 24, 25, 30, 48, 50, 60, 75, 90, 100, 120}
	if tier == "thorough" {
		fps = nil
		for f := 1; f <= 120; f++ {
			if 90000%f == 0 || f%7 == 0 || f%11 == 0 {
				fps = append(fps, f)
			}
		}
	}
	for _, f := range fps {
		out = append(out, c19Src{Kind: "h264", Clock: 90000, D: 90000 / f, Label: fmt.Sprintf("%dfps", f)})
	}
	out = append(out, c19Src{Kind: "h264", Clock: 90000, D: 3003, Label: "29.97fps"}, c19Src{Kind: "h264", Clock: 90000, D: 1501, Label: "~59.94fps"},
		c19Src{Kind: "h264", Clock: 90000, D: 3754, Label: "~23.976fps"})
	for _, sr := range []int{96000, 88200, 64000, 48000, 44100, 32000, 24000, 22050, 16000, 12000, 11025, 8000, 7350} {
		out = append(out, c19Src{Kind: "aac", Clock: sr, D: 1024, Label: fmt.Sprintf("aac%d", sr)})
	}
	// several access units per call, and HE-AAC (1024 core samples per access unit whatever the extension rate says)
	for _, sr := range []int{44100, 24000, 22050} {
		for _, sbr := range []bool{false, true} {
			for _, b := range []int{1, 2, 3} {
				if b == 1 && !sbr {
					continue
				}
				l := fmt.Sprintf("aac%dx%d", sr, b)
				if sbr {
					l = fmt.Sprintf("heaac%dx%d", sr, b)
				}
				out = append(out, c19Src{Kind: "aac", Clock: sr, D: 1024, Label: l, Batch: b, SBR: sbr})
			}
		}
	}
	for _, t := range []int{120, 240, 480, 960, 1920, 2880} {
		out = append(out, c19Src{Kind: "opus", Clock: 48000, D: t, Label: fmt.Sprintf("opus%.1fms", float64(t)/48)})
	}
	return out
}

func c19Spacings(src c19Src) [][]int {
	if src.Kind != "h264" {
		return [][]int{{0}}
	}
	return [][]int{{0}, {500}, {1000}, {2500}, {700, 1300, 400}, {1000, 2500}, {600, 3000}}
}

var c19AVAudio = []string{"aac16", "aac44", "aac48", "opus"}

func c19List(tier string) []vh.Scenario {
	var out []vh.Scenario
	for _, s := range c19Sources(tier) {
		if s.Kind == "h264" && (tier == "thorough" || s.D%1500 == 0 || s.D == 3003) {
			for _, a := range c19AVAudio {
				out = append(out, vh.Scenario{Name: fmt.Sprintf("C19 %s %s clock=%d d=%d seg=%dms +%s", s.Label, s.Kind, s.Clock, s.D, 1000, a), Weight: 40 + 90000/s.D})
			}
		}
	}
	// time stamps that start ten days into the clock (a source that has been running for long hands over its own time
	// stamps): products of ticks and nanoseconds per second beyond 2^53
	for _, s := range c19Sources(tier) {
		if (s.Kind == "h264" && (s.D%1500 == 0 || s.D == 3003)) || c19TwoAudio(s) {
			out = append(out, vh.Scenario{Name: fmt.Sprintf("C19 %s %s clock=%d d=%d seg=%dms base=10d", s.Label, s.Kind, s.Clock, s.D, 1000), Weight: 30})
		}
	}
	// audio only, two audio tracks (the second one plain or marked as the default rendition)
	for _, s := range c19Sources(tier) {
		if c19TwoAudio(s) {
			for _, a := range []string{"aac44", "aac44*", "opus*"} {
				out = append(out, vh.Scenario{Name: fmt.Sprintf("C19 %s %s clock=%d d=%d seg=%dms +%s", s.Label, s.Kind, s.Clock, s.D, 1000, a), Weight: 30})
			}
		}
	}
	for _, s := range c19Sources(tier) {
		for _, seg := range []int{1000, 2000} {
			out = append(out, vh.Scenario{Name: fmt.Sprintf("C19 %s %s clock=%d d=%d seg=%dms", s.Label, s.Kind, s.Clock, s.D, seg), Weight: 10 + 90000/s.D/4})
		}
	}
	return out
}

// c19TwoAudio: the audio sources that are also run next to a second audio track.
func c19TwoAudio(s c19Src) bool {
	return (s.Kind == "aac" && s.Batch == 0 && !s.SBR && (s.Clock == 48000 || s.Clock == 22050)) || (s.Kind == "opus" && s.D == 960)
}

func c19Cfg(cs c19Case) muxCfg {
	cfg := muxCfg{Variant: "ll", SegCount: 7, SegMinMS: cs.SegMS, PartMS: cs.PartMS}
	switch cs.Src.Kind {
	case "h264":
		cfg.Tracks = tr("h264")
	case "aac":
		cfg.Tracks = []trackSpec{{Kind: "aacX"}}
	case "opus":
		cfg.Tracks = tr("opus")
		cfg.OpusTicks = cs.Src.D
	}
	return cfg
}

// c19RunCase runs one grid point and returns the violations (sig, msg).
func c19RunCase(cs c19Case) (viols [][2]string, nplaylists int, outcome string) {
	add := func(sig, format string, a ...any) {
		if len(viols) < 3 {
			viols = append(viols, [2]string{"C19/" + sig, fmt.Sprintf(format, a...)})
		}
	}
	cfg := c19Cfg(cs)
	mi := &muxInst{cfg: cfg}
	tk := newTrack(trackSpec{Kind: "h264"})
	switch cs.Src.Kind {
	case "aac":
		tk = newTrack(trackSpec{Kind: "aac48"})
		tk.ClockRate = cs.Src.Clock
		aac := newTrack(trackSpec{Kind: "aac48"})
		_ = aac
		setAACRate(tk, cs.Src.Clock)
		if cs.Src.SBR {
			c := tk.Codec.(*codecs.MPEG4Audio)
			c.Config.ExtensionType = mpeg4audio.ObjectTypeSBR
			c.Config.ExtensionSampleRate = 2 * cs.Src.Clock
		}
	case "opus":
		tk = newTrack(trackSpec{Kind: "opus"})
	}
	mi.tracks = []*Track{tk}
	var atk *Track
	aclock, astep := int64(0), int64(1024)
	if cs.Audio != "" {
		atk = newTrack(trackSpec{Kind: cs.Audio})
		aclock = int64(trackSpec{Kind: cs.Audio}.clock())
		if cs.Audio == "opus" {
			astep = 960
		}
		atk.IsDefault = cs.AudioDefault
		mi.tracks = append(mi.tracks, atk)
		if cs.AudioFirst {
			mi.tracks = []*Track{atk, tk}
		}
	}
	anext := int64(0)
	m := &Muxer{Variant: MuxerVariantLowLatency, Tracks: mi.tracks, SegmentCount: 7,
		SegmentMinDuration: msDur(cs.SegMS), PartMinDuration: msDur(cs.PartMS),
		OnEncodeError: func(err error) { mi.encErrs = append(mi.encErrs, err.Error()) }}
	if err := m.Start(); err != nil {
		add("start-failed", "%v", err)
		return
	}
	defer m.Close()
	mi.m = m
	d := int64(cs.Src.D)
	clock := int64(cs.Src.Clock)
	// number of samples: three segments of the longest spacing plus a second
	maxSp := cs.SegMS
	for _, sp := range cs.Spacing {
		if sp > maxSp {
			maxSp = sp
		}
	}
	total := int((int64(3*maxSp+cs.SegMS+1000)*clock/1000)/d) + 3
	if total > 2500 {
		total = 2500
	}
	nKey := 0
	nextKey := int64(0) // time (ticks) of the next key frame
	spIdx := 0
	lastPartID := uint64(0)
	var prevPT int64 = -1
	prevHadNonFinal := false
	seenPart := map[string]int64{} // decoded duration in ticks
	ls := m.leadingStream
	rendPT := map[*muxerStream]int64{}
	rendHadNonFinal := map[*muxerStream]bool{}
	var Dticks int64 = -1
	base := int64(cs.BaseDays) * 86400 * clock
	abase := int64(cs.BaseDays) * 86400 * aclock
	nextKey += base
	for i := 0; i < total; i++ {
		dts := base + int64(i)*d
		var err error
		if atk != nil {
			// audio that precedes this frame (the audio track may start late)
			for {
				at := abase + int64(cs.AudioStartMS)*aclock/1000 + anext*astep
				if at*clock > dts*aclock {
					break
				}
				if cs.Audio == "opus" {
					err = m.WriteOpus(atk, verifT0, at, [][]byte{{opusTOC(960), byte(anext >> 8), byte(anext)}})
				} else {
					err = m.WriteMPEG4Audio(atk, verifT0, at, [][]byte{{0x21, byte(anext >> 8), byte(anext)}})
				}
				if err != nil {
					add("write-error", "audio write failed: %v", err)
					return
				}
				anext++
			}
		}
		switch cs.Src.Kind {
		case "h264":
			ra := false
			if dts >= nextKey {
				ra = true
				sp := cs.Spacing[spIdx%len(cs.Spacing)]
				spIdx++
				if sp == 0 {
					nextKey = dts + d
				} else {
					nextKey = dts + int64(sp)*clock/1000
				}
			}
			u := wunit{Track: 0, DTS: dts, RA: ra, Seq: i}
			if !ra && cs.ParamFrame != 0 && i == cs.ParamFrame {
				u.Params = 2
			}
			if ra {
				u.Params = 1
				nKey++
				if nKey == cs.ParamAt {
					u.Params = 2 // new parameter sets: the segmenter starts a segment here and looks for its part duration again
				}
			}
			err = m.WriteH264(tk, verifT0, dts, mi.videoData(u))
		case "aac":
			if b := cs.Src.Batch; b > 1 {
				if i%b != 0 {
					continue
				}
				var aus [][]byte
				for k := 0; k < b; k++ {
					aus = append(aus, []byte{0x21, byte((i + k) >> 8), byte(i + k)})
				}
				err = m.WriteMPEG4Audio(tk, verifT0, dts, aus)
			} else {
				err = m.WriteMPEG4Audio(tk, verifT0, dts, [][]byte{{0x21, byte(i >> 8), byte(i)}})
			}
		case "opus":
			err = m.WriteOpus(tk, verifT0, dts, [][]byte{{opusTOC(cs.Src.D), byte(i >> 8), byte(i)}})
		}
		if err != nil {
			add("write-error", "write %d failed: %v", i, err)
			return
		}
		if !ls.hasContent() || ls.nextPartID == lastPartID {
			continue
		}
		lastPartID = ls.nextPartID
		r := muxGet(m, mediaPlaylistPath(ls.id))
		if r.Status != 200 {
			add("playlist-status", "status %d", r.Status)
			return
		}
		pl, _, errs := m3u.Parse(r.Body.Bytes(), m3u.Options{StrictUnknown: true})
		if pl == nil || len(errs) > 0 || pl.PartTargetNS == nil {
			add("playlist-grammar", "%v", errs)
			return
		}
		nplaylists++
		pt := *pl.PartTargetNS
		var nonFinal []m3u.Part
		for _, sg := range pl.Segments {
			if n := len(sg.Parts); n > 1 {
				nonFinal = append(nonFinal, sg.Parts[:n-1]...)
			}
		}
		nonFinal = append(nonFinal, pl.Parts...)
		for _, p := range nonFinal {
			key := canon(p.URI)
			ticks, ok := seenPart[key]
			if !ok {
				pr := muxGet(m, p.URI)
				var parts fmp4.Parts
				if pr.Status != 200 || parts.Unmarshal(pr.Body.Bytes()) != nil || len(parts) != 1 || len(parts[0].Tracks) != 1 {
					add("part-undecodable", "part %s: status %d", key, pr.Status)
					return
				}
				for _, s := range parts[0].Tracks[0].Samples {
					ticks += int64(s.Duration)
				}
				seenPart[key] = ticks
			}
			ns := ticksToNS(ticks, clock)
			if abs64(ns-p.DurationNS) >= 10_000 {
				add("part-duration-vs-media", "part %s listed with DURATION %d ns, media spans %d ticks", key, p.DurationNS, ticks)
			}
			if Dticks < 0 {
				Dticks = ticks
			} else if ticks != Dticks {
				add("parts-not-uniform", "non-final part %s lasts %d ticks, earlier non-final parts last %d ticks (sample duration %d ticks, PartMinDuration %d ms, after %d samples)", key, ticks, Dticks, d, cs.PartMS, i+1)
			}
			// 0.85 x PART-TARGET <= D <= PART-TARGET (10 us text resolution)
			if p.DurationNS > pt+10_000 || float64(p.DurationNS)+10_000 < 0.85*float64(pt) {
				add("part-vs-part-target", "non-final part %s lasts %d ns, PART-TARGET is %d ns (85%% = %d ns); sample duration %d ticks at %d Hz, PartMinDuration %d ms", key, p.DurationNS, pt, pt*85/100, d, clock, cs.PartMS)
			}
			if ns+1 < int64(cs.PartMS)*1_000_000 {
				add("part-shorter-than-min", "non-final part %s lasts %d ns, PartMinDuration is %d ms", key, ns, cs.PartMS)
			}
			dns := ticksToNS(d, clock)
			mx := int64(cs.PartMS) * 1_000_000
			if dns > mx {
				mx = dns
			}
			if ns >= 2*mx+dns+2 {
				add("part-too-long", "non-final part %s lasts %d ns, bound 2 x max(PartMinDuration, sample) + sample = %d ns", key, ns, 2*mx+dns)
			}
		}
		if len(nonFinal) > 0 && prevHadNonFinal && prevPT != pt {
			add("part-target-changed", "PART-TARGET went from %d ns to %d ns between two playlists that both list a non-final part (after %d samples)", prevPT, pt, i+1)
		}
		prevHadNonFinal = len(nonFinal) > 0
		prevPT = pt
		// the playlists of the other streams (audio renditions) list parts cut at the same instants: the clauses that
		// relate a listed part to the PART-TARGET of its own playlist apply to them as well
		for _, os := range m.streams {
			if os == ls || !os.hasContent() {
				continue
			}
			rr := muxGet(m, mediaPlaylistPath(os.id))
			if rr.Status != 200 {
				add("playlist-status", "stream %s: status %d", os.id, rr.Status)
				return
			}
			rpl, _, rerrs := m3u.Parse(rr.Body.Bytes(), m3u.Options{StrictUnknown: true})
			if rpl == nil || len(rerrs) > 0 || rpl.PartTargetNS == nil {
				add("playlist-grammar", "stream %s: %v", os.id, rerrs)
				return
			}
			nplaylists++
			rpt := *rpl.PartTargetNS
			var rnf []m3u.Part
			for _, sg := range rpl.Segments {
				if n := len(sg.Parts); n > 1 {
					rnf = append(rnf, sg.Parts[:n-1]...)
				}
			}
			rnf = append(rnf, rpl.Parts...)
			for _, p := range rnf {
				if p.DurationNS > rpt+10_000 || float64(p.DurationNS)+10_000 < 0.85*float64(rpt) {
					add("part-vs-part-target", "stream %s: non-final part %s lasts %d ns, PART-TARGET of the same playlist is %d ns (after %d samples of the leading track; PartMinDuration %d ms)", os.id, canon(p.URI), p.DurationNS, rpt, i+1, cs.PartMS)
				}
			}
			if len(rnf) > 0 && rendHadNonFinal[os] && rendPT[os] != rpt {
				add("part-target-changed", "stream %s: PART-TARGET went from %d ns to %d ns between two playlists that both list a non-final part (after %d samples)", os.id, rendPT[os], rpt, i+1)
			}
			rendHadNonFinal[os] = len(rnf) > 0
			rendPT[os] = rpt
		}
	}
	outcome = fmt.Sprintf("D=%d pt=%d n=%d", Dticks, prevPT, nplaylists)
	return
}

func c19Run(c *vh.Ctx) {
	if c.Replay != nil {
		var cs c19Case
		if err := json.Unmarshal(c.Replay, &cs); err != nil {
			c.EngineError("bad replay: %v", err)
			return
		}
		v, _, _ := c19RunCase(cs)
		c.Exec()
		for _, x := range v {
			c.Violation(x[0], x[1], cs)
		}
		return
	}
	var src c19Src
	seg := 0
	found := false
	audio := ""
	audioDefault := false
	baseDays := 0
	for _, s := range c19Sources(c.Tier) {
		for _, sg := range []int{1000, 2000} {
			base := fmt.Sprintf("C19 %s %s clock=%d d=%d seg=%dms", s.Label, s.Kind, s.Clock, s.D, sg)
			if base == c.Scenario {
				src, seg, found = s, sg, true
			}
			if base+" base=10d" == c.Scenario {
				src, seg, found, baseDays = s, sg, true, 10
			}
			for _, a := range c19AVAudio {
				if base+" +"+a == c.Scenario {
					src, seg, found, audio = s, sg, true, a
				}
				if base+" +"+a+"*" == c.Scenario {
					src, seg, found, audio, audioDefault = s, sg, true, a, true
				}
			}
		}
	}
	if !found {
		c.EngineError("unknown scenario %q", c.Scenario)
		return
	}
	step := 50
	if c.Tier == "thorough" {
		step = 5
	}
	n := 0
	if audio != "" && step < 50 {
		step = 25
	}
	type avMode struct {
		start int
		first bool
	}
	starts := []avMode{{0, false}}
	if audio != "" {
		starts = []avMode{{0, false}, {500, false}, {1250, false}, {0, true}}
		if src.Kind != "h264" {
			starts = []avMode{{0, false}, {500, false}}
		}
	}
	// the grid, plus values that are not multiples of the library's 5 ms search step
	var pms []int
	for pm := 50; pm <= 2000; pm += step {
		pms = append(pms, pm)
	}
	pms = append(pms, 51, 101, 104, 202, 251, 333, 999, 1001)
	for _, pm := range pms {
		for _, sp := range c19Spacings(src) {
			for _, am := range starts {
				ast := am.start
				if audio != "" && len(sp) > 1 && ast != 0 {
					continue
				}
				cs := c19Case{Src: src, PartMS: pm, SegMS: seg, Spacing: sp, Audio: audio, AudioStartMS: ast, AudioFirst: am.first, AudioDefault: audioDefault, BaseDays: baseDays}
				if src.Kind == "h264" && len(sp) == 1 && sp[0] == 1000 && ast == 0 && !am.first {
					// the same grid point with new parameter sets on the second / third key frame
					for _, pf := range []int{int(int64(1300) * int64(src.Clock) / 1000 / int64(src.D)), int(int64(2050) * int64(src.Clock) / 1000 / int64(src.D))} {
						// new parameter sets on an ordinary frame 1.3 s (2.05 s) into the stream, used from the next key frame on
						csf := cs
						csf.ParamFrame = pf
						vf, nplf, outf := c19RunCase(csf)
						c.Exec()
						c.AddSteps(int64(nplf))
						c.Outcome(strings.Join([]string{src.Label, fmt.Sprint(pm, seg, sp, audio, "param-frame", pf), outf}, "|"))
						for _, x := range vf {
							c.Violation(x[0], x[1], csf)
						}
					}
					for _, pa := range []int{2, 3} {
						csp := cs
						csp.ParamAt = pa
						vp, nplp, outp := c19RunCase(csp)
						c.Exec()
						c.AddSteps(int64(nplp))
						c.Outcome(strings.Join([]string{src.Label, fmt.Sprint(pm, seg, sp, audio, "param-at", pa), outp}, "|"))
						for _, x := range vp {
							c.Violation(x[0], x[1], csp)
						}
					}
				}
				v, npl, out := c19RunCase(cs)
				c.Exec()
				c.AddSteps(int64(npl))
				c.Outcome(strings.Join([]string{src.Label, fmt.Sprint(pm, seg, sp, audio, ast, am.first), out}, "|"))
				if c.WantSample() && npl > 5 && n%7 == 0 {
					c.Sample(map[string]any{"case": cs, "playlists_checked": npl, "result": out})
				}
				n++
				for _, x := range v {
					c.Violation(x[0], x[1], cs)
				}
				if c.NViolations() > 0 {
					c.Cap(c.Scenario + ": stopped after a violation")
					return
				}
			}
		}
		if c.Expired() {
			c.Cap(fmt.Sprintf("%s: deadline reached at PartMinDuration %d ms", c.Scenario, pm))
			return
		}
	}
}
