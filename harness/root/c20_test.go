//go:build verif

package gohlslib

// C20: direct drive of the real clientSegmentQueue under the controlled scheduler (engine E2).

import (
	"bytes"
	"context"
	"encoding/json"
	"fmt"
	"net/http"
	"os"
	"strings"
	"sync"
	"sync/atomic"
	"time"

	"github.com/bluenviron/gohlslib/v2/internal/zzverif/vh"
	"github.com/bluenviron/gohlslib/v2/internal/zzverif/vsched"
)

func init() {
	verifProps["C20"] = vh.Prop{List: c20List, Run: c20Run}
	// downloader, processor and Close of the real Client under the controlled scheduler (hidden spec C20-e2e, run by C20's
	// command): streams that end (ENDLIST), no fault, one Close whose single step is placed at every decision point - in
	// particular while the end-of-stream marker travels from the downloader to the processor - under three canonical schedules
	verifProps["C20-e2e"] = vh.Prop{List: func(tier string) []vh.Scenario {
		var out []vh.Scenario
		for _, sc := range c12Scens(tier) {
			ends := sc.Fault == "none" && (sc.Stream == "ts-va" || sc.Stream == "fmp4-va" || sc.Stream == "fmp4-v+a" || sc.Stream == "ts-big" || sc.Stream == "fmp4-va-sparse")
			held := sc.Fault == "stall" && sc.Stream == "ll" && sc.Policy == 0 // Low-Latency: a request the server holds when Close arrives
			if sc.Stream == "fmp4-va-sparse" && sc.Fault == "none" && sc.Closers == 0 && sc.CloseInCB == 0 {
				// a segment whose audio track fragment has no samples: the pipeline moves on to the next segment and reaches the end
				out = append(out, vh.Scenario{Name: sc.name(), Weight: 30})
				continue
			}
			if sc.LagTracks {
				// Low-Latency: the processor more than one part behind the downloader - each part reaches it once, in download order
				out = append(out, vh.Scenario{Name: sc.name(), Weight: 30})
				continue
			}
			if (ends || held) && sc.Closers == 1 && sc.CloseInCB == 0 && !sc.SlowTracks && sc.Res2 == "" {
				out = append(out, vh.Scenario{Name: sc.name(), Weight: 30})
			}
		}
		return out
	}, Run: c12Run}
}

type c20Scen struct {
	Pushes int  // producer: push; waitUntilSizeIsBelow(1) after each
	Pulls  int  // consumer pulls
	Cancel bool // a canceller thread cancels the context at any point
	Bound  int  // deviation bound (-1 unbounded)
	WaitN  int  // n of waitUntilSizeIsBelow
	Burst  int  `json:",omitempty"` // > 1: the producer pushes that many segments before each waitUntilSizeIsBelow (Pushes counts the bursts)
	End    bool `json:",omitempty"` // the producer ends with the end-of-stream marker (push(nil)), as the downloader does after an ENDLIST playlist
	Shard  int
	Shards int
}

func (s c20Scen) name() string {
	end := ""
	if s.End {
		end = " end-marker"
	}
	if s.Burst > 1 {
		end += fmt.Sprintf(" burst=%d", s.Burst)
	}
	return fmt.Sprintf("queue pushes=%d pulls=%d cancel=%v waitn=%d bound=%d%s shard=%d/%d", s.Pushes, s.Pulls, s.Cancel, s.WaitN, s.Bound, end, s.Shard, s.Shards)
}

func c20Scens(tier string) []c20Scen {
	var out []c20Scen
	add := func(s c20Scen, shards int) {
		for i := 0; i < shards; i++ {
			s.Shard, s.Shards = i, shards
			out = append(out, s)
		}
	}
	if tier == "thorough" {
		for _, c := range []bool{false, true} {
			for p := 1; p <= 4; p++ {
				for q := 0; q <= p; q++ {
					for _, n := range []int{0, 1, 2} {
						sh, b := 1, -1 // small scenarios: unbounded (finite space explored completely)
						if p+q >= 2 || c {
							b = 5
						}
						if p >= 3 {
							sh = 4
						}
						if p == 4 {
							sh, b = 8, 4
						}
						add(c20Scen{Pushes: p, Pulls: q, Cancel: c, WaitN: n, Bound: b}, sh)
					}
				}
			}
		}
		for _, c := range []bool{false, true} {
			for _, bu := range []int{2, 3, 4} {
				for q := 1; q <= bu; q++ {
					for _, n := range []int{0, 1, 2} {
						add(c20Scen{Pushes: 1, Pulls: q, Cancel: c, WaitN: n, Bound: 5, Burst: bu}, 1)
						add(c20Scen{Pushes: 2, Pulls: q + 1, Cancel: c, WaitN: n, Bound: 4, Burst: bu}, 2)
					}
				}
			}
		}
		for _, c := range []bool{false, true} {
			for p := 0; p <= 3; p++ {
				for _, n := range []int{1, 2} {
					add(c20Scen{Pushes: p, Pulls: p + 1, Cancel: c, WaitN: n, Bound: 5, End: true}, 1)
				}
			}
		}
		return out
	}
	for _, c := range []bool{false, true} {
		for p := 1; p <= 3; p++ {
			for q := 0; q <= p; q++ {
				for _, n := range []int{1, 0} {
					if n == 0 && p == 3 {
						continue
					}
					b := 3
					if p+q <= 1 && !c {
						b = -1
					}
					add(c20Scen{Pushes: p, Pulls: q, Cancel: c, WaitN: n, Bound: b}, 1)
				}
			}
		}
	}
	// bursts: several segments pushed before the producer waits (the wait must outlast more than one pull)
	for _, c := range []bool{false, true} {
		for _, bu := range []int{2, 3} {
			for q := 1; q <= bu; q++ {
				add(c20Scen{Pushes: 1, Pulls: q, Cancel: c, WaitN: 1, Bound: 3, Burst: bu}, 1)
			}
		}
		add(c20Scen{Pushes: 2, Pulls: 3, Cancel: c, WaitN: 1, Bound: 3, Burst: 2}, 1)
		add(c20Scen{Pushes: 1, Pulls: 3, Cancel: c, WaitN: 0, Bound: 3, Burst: 3}, 1)
	}
	// the end-of-stream marker: the consumer pulls everything, marker included
	for p := 0; p <= 2; p++ {
		add(c20Scen{Pushes: p, Pulls: p + 1, WaitN: 1, Bound: 3, End: true}, 1)
	}
	return out
}

var c20E2E = []string{"e2e look-ahead ts v", "e2e look-ahead ts va", "e2e look-ahead fmp4 v", "e2e look-ahead fmp4 va", "e2e look-ahead fmp4 v+a"}

func c20List(tier string) []vh.Scenario {
	var out []vh.Scenario
	for _, n := range c20E2E {
		out = append(out, vh.Scenario{Name: n, Weight: 50})
	}
	for _, s := range c20Scens(tier) {
		w := 1
		for i := 0; i < s.Pushes+s.Pulls; i++ {
			w *= 3
		}
		if s.Cancel {
			w *= 4
		}
		out = append(out, vh.Scenario{Name: s.name(), Weight: w / s.Shards})
	}
	return out
}

type c20State struct {
	q         *clientSegmentQueue
	ctx       context.Context
	cancel    func()
	pushed    []*segmentData
	pulled    []*segmentData
	pStage    string // what the producer is doing
	qStage    string
	pDone     bool
	qDone     bool
	cancelled bool
	pWaitRet  []bool
	pWaitLen  []int // queue length the producer finds when waitUntilSizeIsBelow has returned
	qPullOK   []bool
	log       []string
}

func c20Harness(sc c20Scen) vsched.Harness {
	return vsched.Harness{
		Setup: func(s *vsched.Sched) any {
			st := &c20State{q: &clientSegmentQueue{}}
			st.q.initialize()
			st.ctx, st.cancel = context.WithCancel(context.Background())
			vsched.GoNamed("producer", func() {
				for i := 0; i < sc.Pushes; i++ {
					for k := 0; k < max(sc.Burst, 1); k++ {
						seg := &segmentData{payload: []byte{byte(len(st.pushed) + 1)}}
						st.pStage = fmt.Sprintf("push %d", len(st.pushed)+1)
						st.pushed = append(st.pushed, seg)
						st.q.push(seg)
					}
					st.pStage = fmt.Sprintf("waitUntilSizeIsBelow after push %d", i+1)
					ok := st.q.waitUntilSizeIsBelow(st.ctx, sc.WaitN)
					st.pWaitRet = append(st.pWaitRet, ok)
					st.pWaitLen = append(st.pWaitLen, len(st.q.queue))
					if !ok {
						break
					}
				}
				if sc.End && (len(st.pWaitRet) == 0 || st.pWaitRet[len(st.pWaitRet)-1]) {
					st.pStage = "push end marker"
					st.pushed = append(st.pushed, nil)
					st.q.push(nil)
				}
				st.pStage = "done"
				st.pDone = true
			})
			vsched.GoNamed("consumer", func() {
				for i := 0; i < sc.Pulls; i++ {
					st.qStage = fmt.Sprintf("pull %d", i+1)
					seg, ok := st.q.pull(st.ctx)
					st.qPullOK = append(st.qPullOK, ok)
					if !ok {
						break
					}
					st.pulled = append(st.pulled, seg)
				}
				st.qStage = "done"
				st.qDone = true
			})
			if sc.Cancel {
				vsched.GoNamed("canceller", func() {
					vsched.Yield("cancel")
					st.cancelled = true
					st.cancel()
				})
			}
			return st
		},
		Check: func(s *vsched.Sched, tr *vsched.Trace, sti any) (string, []vsched.Viol) {
			st := sti.(*c20State)
			var viols []vsched.Viol
			add := func(sig, msg string) { viols = append(viols, vsched.Viol{Sig: sig, Msg: msg}) }
			if tr.Livelock != "" {
				add("livelock", tr.Livelock)
			}
			for _, p := range tr.Panics {
				add("panic", p)
			}
			// FIFO, exactly once: pulled is a prefix of pushed
			for i, seg := range st.pulled {
				if i >= len(st.pushed) || st.pushed[i] != seg {
					add("fifo", fmt.Sprintf("pull %d returned segment %v, pushed order %v", i+1, segIDs(st.pulled), segIDs(st.pushed)))
					break
				}
			}
			qlen := len(st.q.queue)
			if sc.End {
				// with the end marker only what the two parties see is compared (how the marker is kept is the queue's business)
				qlen = len(st.pushed) - len(st.pulled)
			} else if qlen != len(st.pushed)-len(st.pulled) {
				add("fifo", fmt.Sprintf("queue holds %d segments, pushed %d pulled %d", qlen, len(st.pushed), len(st.pulled)))
			}
			if lockHeld(&st.q.mutex) {
				add("lock-leak", "queue mutex still held at the end of the execution")
			}
			// liveness at quiescence
			if !st.pDone {
				switch {
				case st.cancelled:
					add("stuck-after-cancel/producer", fmt.Sprintf("producer still blocked in %q after cancellation (%s)", st.pStage, tr.Deadlock))
				case strings.HasPrefix(st.pStage, "waitUntilSizeIsBelow") && qlen <= sc.WaitN:
					add("lost-wakeup/waitUntilSizeIsBelow", fmt.Sprintf("producer blocked in %s(%d) while the queue holds %d segment(s): wake-up missed (%s)", st.pStage, sc.WaitN, qlen, tr.Deadlock))
				case strings.HasPrefix(st.pStage, "push"):
					add("stuck/push", "producer blocked inside push: "+tr.Deadlock)
				}
			}
			if !st.qDone {
				switch {
				case st.cancelled:
					add("stuck-after-cancel/consumer", fmt.Sprintf("consumer still blocked in %q after cancellation (%s)", st.qStage, tr.Deadlock))
				case qlen > 0:
					add("lost-wakeup/pull", fmt.Sprintf("consumer blocked in %s while the queue holds %d segment(s): wake-up missed (%s)", st.qStage, qlen, tr.Deadlock))
				}
			}
			// the throttle: only the producer adds to the queue, so what it finds right after a successful wait is at most n
			for i, ok := range st.pWaitRet {
				if ok && st.pWaitLen[i] > sc.WaitN {
					add("wait-returned-early", fmt.Sprintf("waitUntilSizeIsBelow(%d) number %d returned true while the queue still held %d segments", sc.WaitN, i+1, st.pWaitLen[i]))
				}
			}
			// without cancellation a wait / pull must not report failure
			if !st.cancelled {
				for _, ok := range st.pWaitRet {
					if !ok {
						add("spurious-cancel", "waitUntilSizeIsBelow returned false without cancellation")
					}
				}
				for _, ok := range st.qPullOK {
					if !ok {
						add("spurious-cancel", "pull returned false without cancellation")
					}
				}
			}
			outcome := fmt.Sprintf("pulled=%v q=%d p=%s c=%s wait=%v pull=%v cancelled=%v", segIDs(st.pulled), qlen, st.pStage, st.qStage, st.pWaitRet, st.qPullOK, st.cancelled)
			return outcome, viols
		},
	}
}

func segIDs(l []*segmentData) []int {
	out := make([]int, len(l))
	for i, s := range l {
		if s != nil && len(s.payload) > 0 {
			out[i] = int(s.payload[0])
		}
	}
	return out
}

type schedReplay struct {
	Scen    json.RawMessage `json:"scen"`
	Choices []int           `json:"choices"`
	Policy  int             `json:"policy,omitempty"`
}

func c20Run(c *vh.Ctx) {
	var sc c20Scen
	if c.Replay != nil {
		var rp schedReplay
		if err := json.Unmarshal(c.Replay, &rp); err != nil {
			c.EngineError("bad replay: %v", err)
			return
		}
		json.Unmarshal(rp.Scen, &sc)
		ex := &vsched.Explorer{T: c.T, H: c20Harness(sc)}
		tr, _, viols := ex.Replay(rp.Choices)
		c.Exec()
		if tr.EngineErr != "" {
			c.EngineError("%s", tr.EngineErr)
			return
		}
		for _, v := range viols {
			c.Violation(v.Sig, v.Msg, rp)
		}
		return
	}
	if strings.HasPrefix(c.Scenario, "e2e look-ahead") {
		if os.Getenv("VERIF_FREE") == "" {
			c20EndToEnd(c)
		}
		return
	}
	found := false
	for _, s := range c20Scens(c.Tier) {
		if s.name() == c.Scenario {
			sc, found = s, true
		}
	}
	if !found {
		c.EngineError("unknown scenario %q", c.Scenario)
		return
	}
	if os.Getenv("VERIF_FREE") != "" {
		c20Free(c, sc)
		return
	}
	if b, ok := c.Params["bound"]; ok {
		fmt.Sscanf(b, "%d", &sc.Bound)
	}
	runSched(c, sc, c20Harness(sc), sc.Bound, false, sc.Shard, sc.Shards)
}

// runSched explores one scheduling harness and reports into c.
func runSched(c *vh.Ctx, scen any, h vsched.Harness, bound int, delay bool, shard, shards int) {
	runSchedPolicy(c, scen, h, bound, delay, 0, shard, shards)
}

// runSchedPolicy is runSched with a choice of canonical schedule (rotate = round robin).
// policy: 0 keep running then ascending ids, 1 round robin, 2 keep running then descending ids
func runSchedPolicy(c *vh.Ctx, scen any, h vsched.Harness, bound int, delay bool, policy int, shard, shards int) {
	ex := &vsched.Explorer{T: c.T, H: h, Bound: bound, Delay: delay, Rotate: policy == 1, Reverse: policy == 2, Deadline: c.Deadline, Shard: shard, Shards: shards,
		OnExec: func(outcome string, tr *vsched.Trace) {
			c.Outcome(c.Scenario[:strings.IndexAny(c.Scenario+" ", " ")] + "|" + outcome)
			if tr.Accesses > 0 {
				c.Count("race_monitor_field_accesses_checked", tr.Accesses)
			}
			if f := os.Getenv("VERIF_TRACE"); f != "" && f != "1" {
				if fh, err := os.OpenFile(f, os.O_APPEND|os.O_CREATE|os.O_WRONLY, 0o644); err == nil {
					fmt.Fprintf(fh, "%s %v\n", outcome, tr.Choices())
					fh.Close()
				}
			}
			if c.WantSample() && len(tr.Decisions) >= 4 {
				c.Sample(map[string]any{"scenario": c.Scenario, "schedule": tr.Choices(), "outcome": outcome})
			}
		}}
	st := ex.Run()
	c.AddExec(st.Executions)
	c.AddDecisions(st.Decisions)
	c.Bound(st.BoundCompleted)
	if os.Getenv("VERIF_VERBOSE") != "" {
		c.Count("exec/"+c.Scenario, st.Executions)
	}
	if st.EngineErr != "" {
		c.EngineError("%s: %s", c.Scenario, st.EngineErr)
		return
	}
	sb, _ := json.Marshal(scen)
	for _, f := range st.Found {
		c.Violation(f.Viol.Sig, fmt.Sprintf("%s\nschedule (%d deviations, %d decisions): %v", f.Viol.Msg, f.Devs, len(f.Choices), f.Choices),
			schedReplay{Scen: sb, Choices: f.Choices, Policy: policy})
	}
	if st.Capped != "" && len(st.Found) == 0 {
		c.Cap(c.Scenario + ": " + st.Capped)
	}
	if st.CutByBound {
		c.Count("scenarios_cut_by_deviation_bound", 1)
	} else if st.Exhausted {
		c.Count("scenarios_fully_explored_unbounded", 1)
	}
}

// c20Free is the free-running body for the -race pass.
func c20Free(c *vh.Ctx, sc c20Scen) {
	for it := 0; it < 300 && !c.Expired(); it++ {
		q := &clientSegmentQueue{}
		q.initialize()
		ctx, cancel := context.WithCancel(context.Background())
		vsched.RunFree(5*time.Second, func() {
			vsched.Go(func() {
				for i := 0; i < sc.Pushes; i++ {
					for k := 0; k < max(sc.Burst, 1); k++ {
						q.push(&segmentData{payload: []byte{byte(i)}})
					}
					if !q.waitUntilSizeIsBelow(ctx, sc.WaitN) {
						return
					}
				}
			})
			vsched.Go(func() {
				for i := 0; i < sc.Pulls; i++ {
					if _, ok := q.pull(ctx); !ok {
						return
					}
				}
			})
			vsched.Go(func() {
				if sc.Cancel {
					cancel()
				}
			})
		}, func(bool) { cancel() })
		c.Exec()
	}
}

// c20EndToEnd: traditional-mode client against a server that answers instantly; at every segment request the number of
// segments downloaded so far minus the number fully delivered must not exceed 3 (one being processed, two waiting).
func c20EndToEnd(c *vh.Ctx) {
	var cont, tracks string
	fmt.Sscanf(c.Scenario, "e2e look-ahead %s %s", &cont, &tracks)
	for _, nseg := range []int{6, 9, 14} {
		hinted := -2
		for _, vod := range []bool{true, false, false, false} {
			// third and fourth live runs: the media playlists carry Low-Latency tags that do not make the stream a
			// Low-Latency one - EXT-X-SERVER-CONTROL without CAN-BLOCK-RELOAD=YES plus a preload hint, or CAN-BLOCK-RELOAD=YES
			// without a preload hint; the bound of the non-Low-Latency modes applies and no part is ever requested
			hinted++
			cs := c10Case{Container: cont, Tracks: tracks, Frags: 1, PDT: true, VOD: vod, NSeg: nseg}
			st, err := c10Build(cs)
			if err != nil {
				c.EngineError("%v", err)
				return
			}
			var progress int64
			srv := st.server()
			inner := srv.handler
			type look struct{ seg, downloaded, delivered int }
			var worst look
			var mu sync.Mutex
			downloaded := 0
			hintReqs := 0
			srv.handler = func(n int, path, rawQuery string, req *http.Request) srvResp {
				name := path[strings.LastIndexByte(path, '/')+1:]
				if strings.HasPrefix(name, "r0_seg") {
					mu.Lock()
					downloaded++
					// the leading rendition carries 4 video units per segment (audio-only is not used here)
					del := int(atomic.LoadInt64(&progress)) / 4
					if downloaded-del > worst.downloaded-worst.delivered {
						worst = look{seg: downloaded - 1, downloaded: downloaded, delivered: del}
					}
					mu.Unlock()
				}
				if strings.HasPrefix(name, "hint") {
					mu.Lock()
					hintReqs++
					mu.Unlock()
				}
				resp := inner(n, path, rawQuery, req)
				if hinted > 0 && strings.HasSuffix(name, ".m3u8") && bytes.Contains(resp.Body, []byte("#EXTINF")) {
					ctl := "#EXT-X-SERVER-CONTROL:PART-HOLD-BACK=3.00000\n#EXT-X-PART-INF:PART-TARGET=1.00000\n"
					tail := "#EXT-X-PRELOAD-HINT:TYPE=PART,URI=\"hint_" + strings.TrimSuffix(name, ".m3u8") + ".bin\"\n"
					if hinted == 2 {
						ctl = "#EXT-X-SERVER-CONTROL:CAN-BLOCK-RELOAD=YES,PART-HOLD-BACK=3.00000\n#EXT-X-PART-INF:PART-TARGET=1.00000\n"
						tail = ""
					}
					body := strings.Replace(string(resp.Body), "#EXT-X-TARGETDURATION", ctl+"#EXT-X-TARGETDURATION", 1)
					if !strings.HasSuffix(body, "\n") {
						body += "\n"
					}
					if strings.Contains(body, "#EXT-X-ENDLIST") {
						body = strings.Replace(body, "#EXT-X-ENDLIST", tail+"#EXT-X-ENDLIST", 1)
					} else {
						body += tail
					}
					resp.Body = []byte(body)
				}
				return resp
			}
			uri := "http://media.example/vod/r0.m3u8"
			if len(st.rends) > 1 {
				uri = "http://media.example/vod/index.m3u8"
			}
			obs := runClientPlain(c.T, uri, srv, cliOpts{Progress: &progress})
			c.Exec()
			outcome := fmt.Sprintf("%s nseg=%d vod=%v tags=%d worst look-ahead=%d end=%s", c.Scenario, nseg, vod, hinted, worst.downloaded-worst.delivered, c11Class(obs.WaitErr))
			if hintReqs > 0 {
				c.Violation("e2e/part-requested-outside-low-latency", fmt.Sprintf("the preload hint of a playlist that does not advertise CAN-BLOCK-RELOAD=YES was requested %d times (%s nseg=%d tags=%d): the stream is read in Low-Latency mode, where the look-ahead bound of the non-Low-Latency modes does not hold", hintReqs, c.Scenario, nseg, hinted), nil)
			}
			c.Outcome(outcome)
			c.Sample(map[string]any{"scenario": c.Scenario, "segments": nseg, "vod": vod, "worst_lookahead": worst.downloaded - worst.delivered, "end": c11Class(obs.WaitErr)})
			if len(obs.Panics) > 0 {
				c.Violation("e2e/client-panic", obs.Panics[0], nil)
			}
			if worst.downloaded-worst.delivered > 3 {
				c.Violation("e2e/look-ahead-unbounded", fmt.Sprintf("when segment %d was requested %d segments had been downloaded and only %d fully delivered (look-ahead %d > 3): buffering is not bounded by the processor (%s nseg=%d vod=%v)", worst.seg, worst.downloaded, worst.delivered, worst.downloaded-worst.delivered, c.Scenario, nseg, vod), nil)
			}
			if c11Class(obs.WaitErr) != "eos" || obs.Wedged || obs.Leaked {
				c.Violation("e2e/wrong-end", fmt.Sprintf("client ended with %v (wedged=%v leaked=%v)", obs.WaitErr, obs.Wedged, obs.Leaked), nil)
			}
		}
	}
}
