//go:build verif

package gohlslib

// Toolkit of the client harnesses (engine E5): a scripted in-process http.RoundTripper, synthesised MPEG-TS / fMP4
// streams with a model of their units, and a runner that executes the real Client inside a testing/synctest bubble
// (virtual clock, quiescence detection, goroutine-leak detection).

import (
	"bytes"
	"context"
	"errors"
	"fmt"
	"io"
	"net/http"
	"sort"
	"strconv"
	"strings"
	"sync"
	"sync/atomic"
	"testing"
	"testing/synctest"
	"time"

	"github.com/bluenviron/gohlslib/v2/internal/zzverif/vsched"
	"github.com/bluenviron/gohlslib/v2/pkg/codecs"
	"github.com/bluenviron/mediacommon/v2/pkg/codecs/mpeg4audio"
	"github.com/bluenviron/mediacommon/v2/pkg/formats/fmp4"
	"github.com/bluenviron/mediacommon/v2/pkg/formats/fmp4/seekablebuffer"
	"github.com/bluenviron/mediacommon/v2/pkg/formats/mpegts"
)

// ---------- scripted server ----------

type srvResp struct {
	Status int
	Body   []byte
	CT     string
	Stall  bool  // the body never arrives: Read blocks until the request is cancelled
	Err    bool  // transport error
	ErrIs  error // transport error that wraps this error (e.g. context.DeadlineExceeded, as http.Client.Timeout produces)
	CL     int64 // != 0: the Content-Length the server announces (whatever the body holds; -1: unknown); the body is followed by io.ErrUnexpectedEOF when it is shorter
	Trunc  bool  // the connection drops in the middle of the body: Content-Length announces all of it, half arrives, then io.ErrUnexpectedEOF
}

type reqRec struct {
	N     int
	URL   string
	Range string
}

type stubServer struct {
	mu      sync.Mutex
	maxReqs int // beyond this many requests the server stalls and flags a request storm (default 3000)
	storm   bool
	log     []reqRec
	handler func(n int, path string, rawQuery string, req *http.Request) srvResp
	// stallFactory, if set, builds the body of a stalled response (the scheduler-aware harness provides one)
	stallFactory func(req *http.Request) interface {
		Read([]byte) (int, error)
		Close() error
	}
}

type stallBody struct{ ctx context.Context }

func (b *stallBody) Read(p []byte) (int, error) {
	<-b.ctx.Done()
	return 0, b.ctx.Err()
}
func (b *stallBody) Close() error { return nil }

func (s *stubServer) RoundTrip(req *http.Request) (*http.Response, error) {
	s.mu.Lock()
	n := len(s.log)
	rec := reqRec{N: n, URL: req.URL.String(), Range: req.Header.Get("Range")}
	s.log = append(s.log, rec)
	max := s.maxReqs
	if max == 0 {
		max = 3000
	}
	storm := n >= max
	if storm {
		s.storm = true
	}
	s.mu.Unlock()
	if err := req.Context().Err(); err != nil {
		return nil, err
	}
	if storm {
		// stop feeding a client that keeps requesting: the response never arrives
		resp := &http.Response{StatusCode: 200, Header: http.Header{}, Request: req, Body: &stallBody{ctx: req.Context()}}
		return resp, nil
	}
	r := s.handler(n, req.URL.Path, req.URL.RawQuery, req)
	if r.ErrIs != nil {
		return nil, fmt.Errorf("injected transport error: %w", r.ErrIs)
	}
	if r.Err {
		return nil, errors.New("injected transport error")
	}
	resp := &http.Response{StatusCode: r.Status, Status: strconv.Itoa(r.Status), Header: http.Header{}, Request: req, Proto: "HTTP/1.1", ProtoMajor: 1, ProtoMinor: 1}
	if r.CT != "" {
		resp.Header.Set("Content-Type", r.CT)
	}
	if r.Stall {
		if s.stallFactory != nil {
			resp.Body = s.stallFactory(req)
		} else {
			resp.Body = &stallBody{ctx: req.Context()}
		}
		return resp, nil
	}
	body := r.Body
	if rg := req.Header.Get("Range"); rg != "" && r.Status == 200 {
		var a, b int
		if _, err := fmt.Sscanf(rg, "bytes=%d-%d", &a, &b); err == nil && a >= 0 && b >= a && a < len(body) {
			if b >= len(body) {
				b = len(body) - 1
			}
			body = body[a : b+1]
			resp.StatusCode = 206
		}
	}
	resp.Body = io.NopCloser(bytes.NewReader(body))
	resp.ContentLength = int64(len(body))
	if r.Trunc {
		resp.Body = io.NopCloser(io.MultiReader(bytes.NewReader(body[:len(body)/2]), errReader{io.ErrUnexpectedEOF}))
	}
	if r.CL != 0 {
		resp.ContentLength = r.CL
		if r.CL > int64(len(body)) {
			resp.Body = io.NopCloser(io.MultiReader(bytes.NewReader(body), errReader{io.ErrUnexpectedEOF}))
		}
	}
	return resp, nil
}

type errReader struct{ err error }

func (e errReader) Read([]byte) (int, error) { return 0, e.err }

func (s *stubServer) requests() []reqRec {
	s.mu.Lock()
	defer s.mu.Unlock()
	return append([]reqRec{}, s.log...)
}

// ---------- synthesised streams ----------

type sTrack struct {
	Kind      string // h264 h265 aac opus ac3 ...
	ID        int    // fMP4 track id
	TimeScale int
}

type sUnit struct {
	Track  int
	DTS    int64 // container time, in the track's time scale (fMP4) or 90 kHz (MPEG-TS), before any wrap
	PTSOff int64
	Dur    int64
	Data   [][]byte
	Sync   bool
	Empty  bool // not a unit: the fragment carries a track fragment of this track without any sample
}

type sSegment struct {
	Frags    [][]sUnit // fMP4: one entry per moof; MPEG-TS: a single entry in file order
	Body     []byte
	DateTime *time.Time
	DurNS    int64
}

func aacConfig(rate int) mpeg4audio.Config {
	return mpeg4audio.Config{Type: 2, SampleRate: rate, ChannelCount: 2}
}

func sVideoData(seq int, sync bool, withParams bool) [][]byte {
	var au [][]byte
	if withParams {
		au = append(au, h264Params[0].sps, h264Params[0].pps)
	}
	if sync {
		au = append(au, []byte{0x65, byte(seq >> 8), byte(seq), 0x11})
	} else {
		au = append(au, []byte{0x41, byte(seq >> 8), byte(seq), 0x22})
	}
	return au
}

// buildTS multiplexes units (given in file order) into one MPEG-TS segment.
func buildTS(tracks []sTrack, units []sUnit) ([]byte, error) {
	var buf bytes.Buffer
	var mts []*mpegts.Track
	for _, t := range tracks {
		switch t.Kind {
		case "h264":
			mts = append(mts, &mpegts.Track{Codec: &mpegts.CodecH264{}})
		case "h265":
			mts = append(mts, &mpegts.Track{Codec: &mpegts.CodecH265{}})
		case "aac":
			mts = append(mts, &mpegts.Track{Codec: &mpegts.CodecMPEG4Audio{Config: aacConfig(t.TimeScale)}})
		case "opus":
			mts = append(mts, &mpegts.Track{Codec: &mpegts.CodecOpus{ChannelCount: 2}})
		case "mp3":
			mts = append(mts, &mpegts.Track{Codec: &mpegts.CodecMPEG1Audio{}})
		case "ac3":
			mts = append(mts, &mpegts.Track{Codec: &mpegts.CodecAC3{SampleRate: 48000, ChannelCount: 2}})
		default:
			return nil, fmt.Errorf("unsupported TS track kind %s", t.Kind)
		}
	}
	w := &mpegts.Writer{W: &buf, Tracks: mts}
	if err := w.Initialize(); err != nil {
		return nil, err
	}
	for _, u := range units {
		t := tracks[u.Track]
		var err error
		switch t.Kind {
		case "h264":
			err = w.WriteH264(mts[u.Track], u.DTS+u.PTSOff, u.DTS, u.Data)
		case "h265":
			err = w.WriteH265(mts[u.Track], u.DTS+u.PTSOff, u.DTS, u.Data)
		case "aac":
			err = w.WriteMPEG4Audio(mts[u.Track], u.DTS, u.Data)
		case "opus":
			err = w.WriteOpus(mts[u.Track], u.DTS, u.Data)
		case "mp3":
			err = w.WriteMPEG1Audio(mts[u.Track], u.DTS, u.Data)
		case "ac3":
			err = w.WriteAC3(mts[u.Track], u.DTS, u.Data[0])
		}
		if err != nil {
			return nil, err
		}
	}
	return buf.Bytes(), nil
}

func fmp4Codec(kind string, timescale int) fmp4.Codec {
	switch kind {
	case "h264":
		return &fmp4.CodecH264{SPS: h264Params[0].sps, PPS: h264Params[0].pps}
	case "h265":
		return &fmp4.CodecH265{VPS: h265Params[0].vps, SPS: h265Params[0].sps, PPS: h265Params[0].pps}
	case "av1":
		return &fmp4.CodecAV1{SequenceHeader: av1Params[0].seqHdr}
	case "vp9":
		return &fmp4.CodecVP9{Width: 1920, Height: 804, Profile: 0, BitDepth: 8, ChromaSubsampling: 1}
	case "aac":
		return &fmp4.CodecMPEG4Audio{Config: aacConfig(timescale)}
	case "opus":
		return &fmp4.CodecOpus{ChannelCount: 2}
	case "ac3":
		return &fmp4.CodecAC3{SampleRate: 48000, ChannelCount: 2, Fscod: 0, Bsid: 8, Bsmod: 0, Acmod: 2, LfeOn: false, BitRateCode: 7}
	case "mp3":
		return &fmp4.CodecMPEG1Audio{SampleRate: 48000, ChannelCount: 2}
	case "lpcm":
		return &fmp4.CodecLPCM{BitDepth: 16, SampleRate: 48000, ChannelCount: 2}
	case "mjpeg":
		return &fmp4.CodecMJPEG{Width: 640, Height: 480}
	case "mpeg4video":
		return &fmp4.CodecMPEG4Video{Config: []byte{0, 0, 1, 0xb0, 1, 0, 0, 1, 0xb5}}
	case "mpeg1video":
		return &fmp4.CodecMPEG1Video{Config: []byte{0, 0, 1, 0xb3, 0x78, 0x04, 0x38, 0x35, 0xff, 0xff, 0xe0, 0x18}}
	}
	return nil
}

func buildInit(tracks []sTrack) ([]byte, error) {
	in := fmp4.Init{}
	for _, t := range tracks {
		c := fmp4Codec(t.Kind, t.TimeScale)
		if c == nil {
			return nil, fmt.Errorf("unsupported fMP4 track kind %s", t.Kind)
		}
		in.Tracks = append(in.Tracks, &fmp4.InitTrack{ID: t.ID, TimeScale: uint32(t.TimeScale), Codec: c})
	}
	var w seekablebuffer.Buffer
	if err := in.Marshal(&w); err != nil {
		return nil, err
	}
	return w.Bytes(), nil
}

// buildFMP4 builds a segment made of one moof per entry of frags (units of one fragment grouped per track).
func buildFMP4(tracks []sTrack, frags [][]sUnit, firstSeq uint32) ([]byte, error) {
	var out []byte
	for fi, fr := range frags {
		part := fmp4.Part{SequenceNumber: firstSeq + uint32(fi)}
		byTrack := map[int]*fmp4.PartTrack{}
		var order []int
		for _, u := range fr {
			pt := byTrack[u.Track]
			if pt == nil {
				pt = &fmp4.PartTrack{ID: tracks[u.Track].ID, BaseTime: uint64(u.DTS)}
				byTrack[u.Track] = pt
				order = append(order, u.Track)
			}
			if u.Empty {
				continue
			}
			ps := &fmp4.PartSample{Duration: uint32(u.Dur), PTSOffset: int32(u.PTSOff), IsNonSyncSample: !u.Sync}
			var err error
			switch tracks[u.Track].Kind {
			case "h264":
				err = ps.FillH264(int32(u.PTSOff), u.Data)
			case "h265":
				err = ps.FillH265(int32(u.PTSOff), u.Data)
			case "av1":
				err = ps.FillAV1(u.Data)
			default:
				ps.Payload = u.Data[0]
			}
			if err != nil {
				return nil, err
			}
			ps.Duration = uint32(u.Dur)
			pt.Samples = append(pt.Samples, ps)
		}
		sort.Ints(order)
		for _, ti := range order {
			part.Tracks = append(part.Tracks, byTrack[ti])
		}
		var w seekablebuffer.Buffer
		if err := part.Marshal(&w); err != nil {
			return nil, err
		}
		out = append(out, w.Bytes()...)
	}
	return out, nil
}

// ---------- client runner ----------

type delivered struct {
	PTS, DTS int64
	Data     [][]byte
	Abs      time.Time
	AbsOK    bool
	At       time.Duration // virtual time since Start
}

type cliObs struct {
	Tracks           []*Track
	Units            [][]delivered // per reported track
	OnTracksN        int
	DecodeErrs       []string
	WaitErr          error
	WaitGot          bool
	SecondErr        bool // a second value was received from Wait()
	Wedged           bool // Wait() yielded nothing within the virtual horizon although Close was not called
	AfterClose       bool // Wait() yielded only after Close
	Panics           []string
	Leaked           bool
	CallbackAfterEnd int
	Storm            bool // the client issued more requests than the scripted server allows (request loop without pacing)
	Reqs             []reqRec
	Elapsed          time.Duration
}

type cliOpts struct {
	Horizon     time.Duration // virtual time after which the client is considered wedged (default 10 min)
	OnTracksErr error
	CloseAt     time.Duration // >0: call Close at this virtual time
	Progress    *int64        // if set, incremented (atomically) for every delivered unit of the first reported track
}

func trackKind(t *Track) string {
	switch t.Codec.(type) {
	case *codecs.H264:
		return "h264"
	case *codecs.H265:
		return "h265"
	case *codecs.AV1:
		return "av1"
	case *codecs.VP9:
		return "vp9"
	case *codecs.MPEG4Audio:
		return "aac"
	case *codecs.Opus:
		return "opus"
	case nil:
		return "nil"
	}
	return fmt.Sprintf("%T", t.Codec)
}

// runClientPlain runs the real Client (goroutines scheduled by the Go runtime) inside a synctest bubble.
func runClientPlain(t *testing.T, uri string, srv *stubServer, opts cliOpts) (obs *cliObs) {
	obs = &cliObs{}
	if opts.Horizon == 0 {
		opts.Horizon = 10 * time.Minute
	}
	vsched.RecordFreePanics(true)
	defer func() {
		obs.Panics = append(obs.Panics, vsched.TakeFreePanics()...)
		if r := recover(); r != nil {
			msg := fmt.Sprint(r)
			if strings.Contains(msg, "blocked goroutines remain") || strings.Contains(msg, "deadlock") {
				obs.Leaked = true
				return
			}
			obs.Panics = append(obs.Panics, msg)
		}
	}()
	synctest.Test(t, func(t *testing.T) {
		var mu sync.Mutex
		ended := false
		start := time.Now()
		var c *Client
		c = &Client{
			URI:                       uri,
			HTTPClient:                &http.Client{Transport: srv},
			OnDownloadPrimaryPlaylist: func(string) {},
			OnDownloadStreamPlaylist:  func(string) {},
			OnDownloadSegment:         func(string) {},
			OnDownloadPart:            func(string) {},
			OnDecodeError: func(err error) {
				mu.Lock()
				obs.DecodeErrs = append(obs.DecodeErrs, err.Error())
				mu.Unlock()
			},
			OnTracks: func(tracks []*Track) error {
				mu.Lock()
				obs.OnTracksN++
				obs.Tracks = tracks
				obs.Units = make([][]delivered, len(tracks))
				mu.Unlock()
				if opts.OnTracksErr != nil {
					return opts.OnTracksErr
				}
				for i, tr := range tracks {
					i, tr := i, tr
					rec := func(pts, dts int64, data [][]byte) {
						abs, ok := c.AbsoluteTime(tr)
						mu.Lock()
						if ended {
							obs.CallbackAfterEnd++
						}
						if opts.Progress != nil && i == 0 {
							atomic.AddInt64(opts.Progress, 1)
						}
						cp := make([][]byte, len(data))
						for k := range data {
							cp[k] = bytes.Clone(data[k])
						}
						obs.Units[i] = append(obs.Units[i], delivered{PTS: pts, DTS: dts, Data: cp, Abs: abs, AbsOK: ok, At: time.Since(start)})
						mu.Unlock()
					}
					switch tr.Codec.(type) {
					case *codecs.H264, *codecs.H265:
						c.OnDataH26x(tr, func(pts, dts int64, au [][]byte) { rec(pts, dts, au) })
					case *codecs.AV1:
						c.OnDataAV1(tr, func(pts int64, tu [][]byte) { rec(pts, pts, tu) })
					case *codecs.VP9:
						c.OnDataVP9(tr, func(pts int64, frame []byte) { rec(pts, pts, [][]byte{frame}) })
					case *codecs.MPEG4Audio:
						c.OnDataMPEG4Audio(tr, func(pts int64, aus [][]byte) { rec(pts, pts, aus) })
					case *codecs.Opus:
						c.OnDataOpus(tr, func(pts int64, pk [][]byte) { rec(pts, pts, pk) })
					}
				}
				return nil
			},
		}
		if err := c.Start(); err != nil {
			obs.WaitErr, obs.WaitGot = err, true
			return
		}
		closed := false
		for {
			synctest.Wait()
			select {
			case err := <-c.Wait():
				obs.WaitErr, obs.WaitGot = err, true
			default:
			}
			if obs.WaitGot {
				break
			}
			el := time.Since(start)
			if opts.CloseAt > 0 && !closed && el >= opts.CloseAt {
				c.Close()
				closed = true
				continue
			}
			if el > opts.Horizon {
				obs.Wedged = !closed
				break
			}
			step := 250 * time.Millisecond
			if el > 30*time.Second {
				step = 10 * time.Second
			}
			time.Sleep(step)
		}
		mu.Lock()
		ended = obs.WaitGot
		mu.Unlock()
		obs.Elapsed = time.Since(start)
		if !closed {
			c.Close()
		}
		synctest.Wait()
		if !obs.WaitGot {
			select {
			case err := <-c.Wait():
				obs.WaitErr, obs.WaitGot, obs.AfterClose = err, true, true
			default:
			}
		}
		c.Close() // any number of times
		synctest.Wait()
		select {
		case <-c.Wait():
			obs.SecondErr = true
		default:
		}
		obs.Reqs = srv.requests()
		srv.mu.Lock()
		obs.Storm = srv.storm
		srv.mu.Unlock()
	})
	return obs
}

// ---------- small playlist writer (independent of pkg/playlist) ----------

type plSeg struct {
	URI       string
	DurNS     int64
	DateTime  *time.Time
	ByteRange string
}

func fmtDur(ns int64) string {
	return fmt.Sprintf("%d.%05d", ns/1_000_000_000, (ns%1_000_000_000)/10_000)
}

func writeMediaPlaylist(version, target, mseq int, typ string, mapLine string, segs []plSeg, endlist bool, extra []string) string {
	var b strings.Builder
	fmt.Fprintf(&b, "#EXTM3U\n#EXT-X-VERSION:%d\n#EXT-X-TARGETDURATION:%d\n#EXT-X-MEDIA-SEQUENCE:%d\n", version, target, mseq)
	if typ != "" {
		fmt.Fprintf(&b, "#EXT-X-PLAYLIST-TYPE:%s\n", typ)
	}
	for _, e := range extra {
		b.WriteString(e + "\n")
	}
	if mapLine != "" {
		b.WriteString(mapLine + "\n")
	}
	for _, s := range segs {
		if s.DateTime != nil {
			fmt.Fprintf(&b, "#EXT-X-PROGRAM-DATE-TIME:%s\n", s.DateTime.Format("2006-01-02T15:04:05.000Z07:00"))
		}
		fmt.Fprintf(&b, "#EXTINF:%s,\n", fmtDur(s.DurNS))
		if s.ByteRange != "" {
			fmt.Fprintf(&b, "#EXT-X-BYTERANGE:%s\n", s.ByteRange)
		}
		b.WriteString(s.URI + "\n")
	}
	if endlist {
		b.WriteString("#EXT-X-ENDLIST\n")
	}
	return b.String()
}
