//go:build verif

package gohlslib

// Exploration side of engine E1: exhaustive enumeration of write sequences (words over a finite alphabet) on a
// configuration grid, full observation after every write, oracles of e1_oracle_test.go.

import (
	"bufio"
	"bytes"
	"encoding/json"
	"errors"
	"fmt"
	"github.com/bluenviron/gohlslib/v2/pkg/storage"
	"io"
	"os"
	"path/filepath"
	"strings"
	"testing"
	"testing/synctest"
	"time"

	"github.com/bluenviron/gohlslib/v2/internal/zzverif/vh"
)

// sym is one symbol of a write alphabet.
type sym struct {
	T  int    `json:"t"`           // track
	D  string `json:"d"`           // delta to the track's previous unit: 0 f h S- S S+ (video) / c (audio: contiguous) g (audio: gap of S)
	K  string `json:"k,omitempty"` // video: R (random access, parameters inline) r (random access, bare) n (non random access) N (n + switch parameter set) P (R + switch)
	N  int    `json:"n,omitempty"` // audio: access units in the write
	Sz int    `json:"sz,omitempty"`
}

func (s sym) String() string {
	if s.K != "" {
		return fmt.Sprintf("%s%d%s", s.K, s.T, s.D)
	}
	return fmt.Sprintf("a%d%sx%d", s.T, s.D, s.N)
}

type e1Scen struct {
	Prop    string `json:"prop"`
	Cfg     muxCfg `json:"cfg"`
	Alpha   []sym  `json:"alpha"`
	Depth   int    `json:"depth"`
	Mode    string `json:"mode"`            // tree | periodic | long
	Pre     int    `json:"pre,omitempty"`   // regular segments fed before the explored word
	Start   int64  `json:"start,omitempty"` // start time of every track in milliseconds (may be negative)
	Period  int    `json:"period,omitempty"`
	Len     int    `json:"len,omitempty"` // periodic / long: number of writes
	Query   string `json:"query,omitempty"`
	FaultAt int    `json:"fault_at,omitempty"` // mode "fault": index (1-based) of the rotation whose next segment file cannot be created; "paramfault": of the first of two random-access units with unparsable parameter sets
	Pending bool   `json:"pending,omitempty"`  // an index.m3u8 request is issued before the first Write and stays pending until content is available
	Shard   int    `json:"shard"`
	Shards  int    `json:"shards"`
	Name    string `json:"name"`
}

func (s e1Scen) name() string {
	var a []string
	for _, x := range s.Alpha {
		a = append(a, x.String())
	}
	return fmt.Sprintf("%s/%s {%s} %s depth=%d pre=%d start=%dms period=%d len=%d q=%q alpha=[%s] shard=%d/%d",
		s.Prop, s.Name, s.Cfg, s.Mode, s.Depth, s.Pre, s.Start, s.Period, s.Len, s.Query, strings.Join(a, " "), s.Shard, s.Shards)
}

// wordState tracks per-track time while a word is turned into writes.
type wordState struct {
	cfg   muxCfg
	last  []int64 // dts of the previous unit of each track
	nextA []int64 // audio: dts of the next contiguous access unit
	begun []bool
	// h264b (reordered frames): highest presentation time / picture order count so far, and the display slot an
	// "M" frame left open for the "b" frame that follows it in decode order
	top, hole       []int64
	topPOC, holePOC []int
	seq             int
	start           int64 // ms
}

const noHole = int64(-1) << 62

func newWordState(cfg muxCfg, startMS int64) *wordState {
	n := len(cfg.Tracks)
	ws := &wordState{cfg: cfg, last: make([]int64, n), nextA: make([]int64, n), begun: make([]bool, n), start: startMS,
		top: make([]int64, n), hole: make([]int64, n), topPOC: make([]int, n), holePOC: make([]int, n)}
	for i := range ws.hole {
		ws.hole[i] = noHole
	}
	return ws
}

func (ws *wordState) unit(s sym) wunit {
	t := ws.cfg.Tracks[s.T]
	clock := int64(t.clock())
	S := int64(ws.cfg.SegMinMS) * clock / 1000
	ws.seq++
	u := wunit{Track: s.T, Seq: ws.seq, Size: s.Sz}
	startTicks := ws.start * clock / 1000
	if t.video() {
		var d int64
		switch s.D {
		case "0":
			d = 0
		case "f":
			d = clock / 30 // one frame at 30 fps
		case "h":
			d = S / 2
		case "q":
			d = S / 4
		case "S-":
			d = S - 1
		case "S":
			d = S
		case "S+":
			d = S * 14 / 10
		case "i": // "irrational-looking" frame duration (29.97 fps)
			d = clock * 1001 / 30000
		case "j":
			d = S + clock*1501/90000
		}
		if t.Kind == "h265b" {
			// decode times advance like those of any other track; the presentation time handed to WriteH265 is ahead
			// of them by what the slice kind implies, so that a decode time can be derived for every word
			dt := startTicks
			if ws.begun[s.T] {
				dt = ws.last[s.T] + d
			}
			ws.begun[s.T] = true
			ws.last[s.T] = dt
			switch s.K {
			case "R", "r", "P":
				u.POC = 0
			case "M":
				u.POC = 2
			case "b":
				u.POC = 3
			default:
				u.POC = 1
			}
			u.DTS = dt + h265bLag[u.POC]
		} else if isH264B(t.Kind) {
			// frames are written in decode order; u.DTS is the presentation time handed to WriteH264
			T := s.T
			if !ws.begun[T] {
				ws.begun[T] = true
				ws.top[T] = startTicks - d
			}
			k := s.K
			if k == "b" && ws.hole[T] == noHole {
				k = "n"
			}
			switch k {
			case "R", "r", "P":
				u.DTS, u.POC = ws.top[T]+d, 0
				ws.top[T], ws.topPOC[T], ws.hole[T] = u.DTS, 0, noHole
			case "M": // displayed after a frame that is written later
				ws.hole[T], ws.holePOC[T] = ws.top[T]+d, ws.topPOC[T]+2
				u.DTS, u.POC = ws.top[T]+2*d, ws.topPOC[T]+4
				ws.top[T], ws.topPOC[T] = u.DTS, u.POC
			case "b": // fills the open display slot
				u.DTS, u.POC = ws.hole[T], ws.holePOC[T]
				ws.hole[T] = noHole
			default:
				u.DTS, u.POC = ws.top[T]+d, ws.topPOC[T]+2
				ws.top[T], ws.topPOC[T], ws.hole[T] = u.DTS, u.POC, noHole
			}
			ws.last[T] = ws.top[T]
		} else {
			if !ws.begun[s.T] {
				u.DTS = startTicks
				ws.begun[s.T] = true
			} else {
				u.DTS = ws.last[s.T] + d
			}
			ws.last[s.T] = u.DTS
		}
		switch s.K {
		case "R":
			u.RA, u.Params = true, 1
		case "r":
			u.RA = true
		case "n":
		case "N":
			u.Params = 2
		case "P":
			u.RA, u.Params = true, 2
		case "Q": // the other parameter set in an access unit of its own (no picture)
			u.Params, u.NoSlice = 2, true
		}
		return u
	}
	n := s.N
	if n <= 0 {
		n = 1
	}
	if !ws.begun[s.T] {
		ws.nextA[s.T] = startTicks
		ws.begun[s.T] = true
	}
	switch s.D {
	case "g":
		ws.nextA[s.T] += S
	case "G":
		ws.nextA[s.T] += S / 10
	}
	u.DTS = ws.nextA[s.T]
	u.NAU = n
	ws.nextA[s.T] += ws.cfg.audioSpan(t, n)
	ws.last[s.T] = u.DTS
	return u
}

// preamble feeds k regular segments: on the leading track a random-access unit every S with one more unit in
// between, the other tracks following in time.
func (ws *wordState) preamble(r *e1run, k int, after func()) bool {
	cfg := ws.cfg
	lead := cfg.leading()
	for i := 0; i < 4*k; i++ {
		if cfg.Tracks[lead].video() {
			kind := "n"
			if i%4 == 0 {
				kind = "R"
			}
			if !r.apply(ws.unit(sym{T: lead, D: "q", K: kind})) {
				return false
			}
			after()
		}
		for ti, t := range cfg.Tracks {
			if t.video() {
				continue
			}
			// audio up to the leading time (or half a segment per step when audio leads)
			clock := int64(t.clock())
			target := ws.last[lead]*clock/int64(cfg.Tracks[lead].clock()) + 1
			if !cfg.Tracks[lead].video() {
				target = ws.nextA[ti] + int64(cfg.SegMinMS)*clock/4000
			}
			for guard := 0; guard < 400 && (ws.nextA[ti] < target || !ws.begun[ti]); guard++ {
				if !r.apply(ws.unit(sym{T: ti, D: "c", N: 4})) {
					return false
				}
				after()
			}
		}
	}
	return true
}

// peek computes the unit a symbol would produce without advancing the word state.
func (ws *wordState) peek(s sym) wunit {
	c := *ws
	c.last = append([]int64{}, ws.last...)
	c.nextA = append([]int64{}, ws.nextA...)
	c.begun = append([]bool{}, ws.begun...)
	return c.unit(s)
}

// willRotate reports whether writing u will make the muxer rotate its segments (regular words only).
func willRotate(r *e1run, u wunit) bool {
	m := r.model
	if u.Track != m.lead || !u.RA || !m.segOpen && !r.faulted {
		return false
	}
	ls := r.mi.m.leadingStream
	if ls.nextSegment == nil {
		return false
	}
	var start time.Duration
	switch sg := ls.nextSegment.(type) {
	case *muxerSegmentFMP4:
		start = sg.startDTS
	case *muxerSegmentMPEGTS:
		start = sg.startDTS
	}
	off := m.offset(u.Track)
	return timestampToDuration(u.DTS+off, r.cfg.Tracks[u.Track].clock())-start >= time.Duration(r.cfg.SegMinMS)*time.Millisecond
}

const e1KnownWriteErr = "not received yet"

// runWord executes one word; it returns the run and the index of the first failing symbol (-1 if none).
var e1T *testing.T

func e1RunWord(sc e1Scen, word []sym, scratch string, props map[string]bool, sparsePre bool) (r *e1run, failed int, err error) {
	if e1Bubble[sc.Prop] || sc.Pending {
		inBubble(e1T, func() { r, failed, err = e1RunWordInner(sc, word, scratch, props, sparsePre) })
		return
	}
	return e1RunWordInner(sc, word, scratch, props, sparsePre)
}

func e1RunWordInner(sc e1Scen, word []sym, scratch string, props map[string]bool, sparsePre bool) (*e1run, int, error) {
	dir := ""
	if sc.Cfg.Disk {
		d, err := os.MkdirTemp(scratch, "e1-")
		if err != nil {
			return nil, -1, err
		}
		dir = d
		defer os.RemoveAll(dir)
	}
	r, err := newE1(sc.Cfg, dir)
	if err != nil && sc.Cfg.MayRefuse {
		// a configuration Start is entitled to refuse: nothing to explore
		return &e1run{cfg: sc.Cfg, model: newModel(sc.Cfg), uris: map[string]*uriInfo{}, writeErrAt: -1, closed: true, writeErr: "Start refused: " + err.Error()}, -1, nil
	}
	if err != nil {
		return nil, -1, fmt.Errorf("Start failed for %s: %v", sc.Cfg, err)
	}
	defer func() {
		if !r.closed { // Close is not specified to be callable twice
			if !r.mi.m.mutex.TryLock() {
				return // (a panic inside the muxer left its mutex locked: Close would hang and hide the panic)
			}
			r.mi.m.mutex.Unlock()
			r.mi.m.Close()
		}
	}()
	r.props = props
	r.query = sc.Query
	if h := e1Hooks[sc.Prop]; h != nil {
		h(r)
	}
	if sc.Mode != "tree" {
		r.fullFetch = false // listed URIs are re-fetched at ages 1, 2, 4, 8, ... observations instead of every time
	}
	ws := newWordState(sc.Cfg, sc.Start)
	var pend *respRec
	pendDone, pendChecked := false, false
	if sc.Pending {
		go func() {
			pend = r.safeGet("index.m3u8")
			pendDone = true
		}()
		synctest.Wait()
	}
	after := func() {
		if sc.Pending && !pendChecked {
			// the request that was pending since before the first Write: once answered, its answer is the one a request
			// issued now gets (it describes the stream as it is when the answer is produced, not as it was on arrival)
			synctest.Wait()
			if pendDone {
				pendChecked = true
				fresh := r.safeGet("index.m3u8")
				if pend.Status != fresh.Status || !bytes.Equal(pend.Body.Bytes(), fresh.Body.Bytes()) {
					r.add("C16", "pending-index-differs", "the index.m3u8 request pending since before the first write was answered after write %d with status %d:\n%s\na request issued at the same moment gets status %d:\n%s\nops %s", len(r.ops)-1, pend.Status, canon(pend.Body.String()), fresh.Status, canon(fresh.Body.String()), r.opsString())
				}
			}
		}
		r.observe()
		r.checkStep()
		if r.stepHook != nil {
			r.stepHook(r)
		}
	}
	if sc.Pre > 0 {
		preAfter := after
		if sparsePre {
			preAfter = func() {}
		}
		ok := ws.preamble(r, sc.Pre, preAfter)
		if ok && sparsePre {
			// the preamble is identical for every word of the scenario and was fully observed for the first one:
			// observe once and continue the per-segment bookkeeping from the first listed segment
			r.observe()
			r.resync()
			r.checkStep()
		}
		if !ok {
			if !strings.Contains(r.writeErr, "maximum segment size") { // (small SegmentMaxSize: the run ends at the refused Write)
				r.add("ALL", "write-error", "write %d of the preamble failed: %s", r.writeErrAt, r.writeErr)
			}
			return r, -1, nil
		}
	}
	if sc.Mode == "tree" && sc.Period == 1 && sc.Cfg.Tracks[0].video() {
		// size trees: the stream is started by one key frame carrying the parameter sets
		if r.apply(ws.unit(sym{T: 0, D: "f", K: "R"})) {
			if r.sizeHook != nil {
				r.sizeHook(r, true)
			}
			after()
		}
	}
	rotations := 0
	for i, s := range word {
		if sc.Mode == "partfault" {
			// environment fault: from write number FaultAt on the storage of the open part of the leading stream refuses
			// writes (a full disk), so the Write that completes that part fails in the middle of the part rotation
			if i >= sc.FaultAt && !r.faulted {
				if np := r.mi.m.leadingStream.nextPart; np != nil {
					if _, already := np.storage.(failingPart); !already {
						np.storage = failingPart{np.storage}
					}
				}
			}
			ok := r.apply(ws.unit(s))
			if !ok {
				if !strings.Contains(r.writeErr, "injected") {
					r.add("ALL", "write-error", "write %d (%s) failed: %s", r.writeErrAt, s, r.writeErr)
					return r, i, nil
				}
				r.faulted = true
				break // the word ends with the failed Write (what later writes do is not this mode's subject)
			}
			continue
		}
		if sc.Mode == "firstfault" {
			// environment fault: the first segment file of stream number FaultAt cannot be created (the streams before it
			// have got theirs); the Write that creates the first segments fails, later ones find the obstacle gone
			st := r.mi.m.streams[sc.FaultAt]
			blocker := filepath.Join(dir, vSegmentPath(st.prefix, st.id, st.nextSegmentID, sc.Cfg.Variant != "mpegts"))
			if i == 0 {
				os.Mkdir(blocker, 0o755)
			}
			if !r.apply(ws.unit(s)) && !r.faulted {
				os.Remove(blocker)
				r.faulted = true
				break // the word ends with the failed Write (a later Write panics on the half-created streams: not C07's subject)
			}
			if i == len(word)-1 {
				os.Remove(blocker)
				if !r.faulted {
					r.add("ALL", "fault-not-hit", "the injected storage fault at the first segment of stream %d was not hit", sc.FaultAt)
				}
			}
			continue
		}
		if sc.Mode == "paramfault" {
			// input fault: random-access units number FaultAt and FaultAt+1 of the leading track carry parameter sets that
			// cannot be parsed (the Write that has to build an init segment from them fails); the writer carries on
			u := ws.unit(s)
			if u.RA && u.Track == sc.Cfg.leading() {
				rotations++
				if rotations == sc.FaultAt || rotations == sc.FaultAt+1 || (sc.Period > 0 && rotations > sc.FaultAt && (rotations-sc.FaultAt)%sc.Period < 2) {
					u.Corrupt = true
					r.faulted = true
				}
			}
			ok := r.apply(u)
			if !ok && !r.faulted {
				r.add("ALL", "write-error", "write %d (%s) failed: %s", r.writeErrAt, s, r.writeErr)
				return r, i, nil
			}
			if !ok && sc.Prop == "C07" {
				break // Close follows the first Write that failed (a later Write panics on the missing segment: known finding of C18)
			}
			after()
			if len(r.viols) > 0 {
				break
			}
			continue
		}
		if sc.Mode == "flushfault" {
			// environment fault (MPEG-TS): the final flush of the finished segment fails (a full disk) at rotation number FaultAt
			// and at every fourth rotation after it; the writer carries on
			u := ws.peek(s)
			if willRotate(r, u) {
				rotations++
				if seg, isTS := r.mi.m.leadingStream.nextSegment.(*muxerSegmentMPEGTS); isTS && rotations >= sc.FaultAt && (rotations-sc.FaultAt)%4 == 0 {
					nb := bufio.NewWriter(failingWriter{})
					nb.WriteByte(0x47) // something to flush
					seg.bw = nb
					if r.apply(ws.unit(s)) {
						r.add("ALL", "fault-not-hit", "the injected flush fault at rotation %d was not hit", rotations)
					}
					r.faulted = true
					r.observe()
					r.checkStep()
					if len(r.viols) > 0 {
						break
					}
					continue
				}
			}
			if !r.apply(ws.unit(s)) && !r.faulted {
				r.add("ALL", "write-error", "write %d (%s) failed: %s", r.writeErrAt, s, r.writeErr)
				return r, i, nil
			}
			after()
			if len(r.viols) > 0 {
				break
			}
			continue
		}
		if sc.Mode == "fault" {
			// environment fault: the file of the next segment cannot be created at rotation number FaultAt
			u := ws.peek(s)
			if willRotate(r, u) {
				rotations++
				if rotations == sc.FaultAt {
					ls := r.mi.m.leadingStream
					blocker := filepath.Join(dir, vSegmentPath(ls.prefix, ls.id, ls.nextSegmentID+1, sc.Cfg.Variant != "mpegts"))
					os.Mkdir(blocker, 0o755)
					ok := r.apply(ws.unit(s))
					os.Remove(blocker)
					if ok {
						r.add("ALL", "fault-not-hit", "the injected storage fault at rotation %d was not hit", rotations)
					}
					r.faulted = true
					// C07 looks at Close only, not at what is served after the failed write; a Low-Latency playlist cannot be
					// served at all until the next Write has re-created the open segment (known finding of C18, which looks)
					if sc.Prop != "C07" && !(sc.Cfg.Variant == "ll" && sc.Prop != "C18") {
						r.observe()
						r.checkStep()
					}
					continue
				}
			}
			if !r.apply(ws.unit(s)) && !r.faulted {
				r.add("ALL", "write-error", "write %d (%s) failed: %s", r.writeErrAt, s, r.writeErr)
				return r, i, nil
			}
			if r.faulted && sc.Prop == "C07" {
				continue
			}
			after()
			if len(r.viols) > 0 {
				break
			}
			continue
		}
		if !r.apply(ws.unit(s)) {
			if r.pruned {
				return r, i, nil
			}
			if !strings.Contains(r.writeErr, e1KnownWriteErr) && !strings.Contains(r.writeErr, "maximum segment size") {
				r.add("ALL", "write-error", "write %d (%s) failed: %s; ops %s", r.writeErrAt, s, r.writeErr, r.opsString())
			}
			if r.sizeHook != nil {
				r.sizeHook(r, false)
			}
			return r, i, nil
		}
		if r.sizeHook != nil {
			r.sizeHook(r, true)
		}
		after()
		if len(r.viols) > 0 {
			break
		}
	}
	if sc.Mode == "flushfault" && sc.FaultAt == 0 {
		// the device fills up while the last segment is open: whatever is still buffered cannot be flushed any more
		if seg, isTS := r.mi.m.leadingStream.nextSegment.(*muxerSegmentMPEGTS); isTS {
			nb := bufio.NewWriter(failingWriter{})
			nb.WriteByte(0x47)
			seg.bw = nb
			r.mi.m.leadingStream.mpegtsSwitchableWriter.w = nb
		}
	}
	if r.finalHook != nil {
		r.finalHook(r)
	}
	return r, -1, nil
}

// failingPart is a storage.Part whose writer fails (injected fault of the partfault mode).
type failingPart struct{ storage.Part }

type failingWriter struct{}

func (failingWriter) Write([]byte) (int, error) {
	return 0, errors.New("injected: no space left on device")
}
func (failingWriter) Seek(int64, int) (int64, error) {
	return 0, errors.New("injected: no space left on device")
}

func (failingPart) Writer() io.WriteSeeker { return failingWriter{} }

type e1Replay struct {
	Scen e1Scen `json:"scen"`
	Word []sym  `json:"word"`
}

func (r *e1run) outcome() string {
	// canonical observation of the whole history: last playlists + segment/unit counts
	var b strings.Builder
	fmt.Fprintf(&b, "cuts=%d err=%v ", len(r.model.cuts), r.writeErr != "")
	if n := len(r.steps); n > 0 {
		for _, po := range r.steps[n-1].streams {
			if po.mp != nil {
				b.WriteString(canon(string(po.raw)))
			}
		}
	}
	for t := range r.model.emitted {
		fmt.Fprintf(&b, " t%d=%d", t, len(r.model.emitted[t]))
	}
	return b.String()
}

// e1Explore enumerates the words of one scenario.
func e1Explore(c *vh.Ctx, sc e1Scen) {
	props := map[string]bool{sc.Prop: true}
	report := func(r *e1run, word []sym) {
		c.Exec()
		c.AddSteps(int64(r.nObs))
		c.Count("writes", int64(len(r.ops)))
		c.Count("observations", int64(r.nObs))
		c.Count("uris_fetched", int64(len(r.uriList)))
		if r.nProbes > 0 {
			c.Count("requests_probed", int64(r.nProbes))
		}
		if r.pruned {
			c.Count("words_ended_by_underivable_dts", 1)
		}
		if k := sc.Cfg.Tracks[sc.Cfg.leading()].Kind; isH264B(k) || k == "h265b" {
			for _, us := range r.model.emitted {
				for _, u := range us {
					if u.ptsOff != 0 {
						c.Count("reordered_units_decoded_and_compared", 1)
					}
				}
			}
		}
		c.Outcome(sc.Cfg.String() + "|" + r.outcome())
		if c.WantSample() && len(r.model.cuts) >= 2 {
			c.Sample(map[string]any{"scenario": sc.Name, "config": sc.Cfg.String(), "ops": r.opsString(), "segments": len(r.model.cuts), "observations": r.nObs})
		}
		for _, v := range r.viols {
			c.Violation(v.sig, v.msg+"\nconfig: "+sc.Cfg.String()+"\nword: "+fmt.Sprint(word), e1Replay{Scen: sc, Word: word})
		}
	}
	shards := sc.Shards
	if shards <= 0 {
		shards = 1
	}
	if os.Getenv("VERIF_VERBOSE") != "" {
		t0 := time.Now()
		defer func() {
			c.Count("ms/"+sc.Name+" {"+sc.Cfg.String()+"}", time.Since(t0).Milliseconds())
		}()
	}
	switch sc.Mode {
	case "tree":
		A := len(sc.Alpha)
		idx := make([]int, sc.Depth)
		word := make([]sym, sc.Depth)
		n := 0
		for {
			// shard on the first two symbols
			key := idx[0]
			if sc.Depth > 1 {
				key = idx[0]*A + idx[1]
			}
			skipTo := -1
			if key%shards == sc.Shard {
				for i, x := range idx {
					word[i] = sc.Alpha[x]
				}
				r, failed, err := e1RunWord(sc, word, c.Scratch, props, n > 0)
				if err != nil {
					c.EngineError("%v", err)
					return
				}
				report(r, append([]sym{}, word...))
				n++
				if failed >= 0 {
					skipTo = failed // every word sharing word[:failed+1] fails the same way
				}
				if c.NViolations() > 0 {
					c.Cap(sc.Name + ": stopped after a violation")
					return
				}
				if n%64 == 0 && c.Expired() {
					c.Cap(fmt.Sprintf("%s: deadline reached after %d words of the depth-%d tree", sc.Name, n, sc.Depth))
					return
				}
			}
			// odometer
			pos := sc.Depth - 1
			if skipTo >= 0 {
				pos = skipTo
				for i := pos + 1; i < sc.Depth; i++ {
					idx[i] = 0
				}
			}
			for pos >= 0 {
				idx[pos]++
				if idx[pos] < A {
					break
				}
				idx[pos] = 0
				pos--
			}
			if pos < 0 {
				break
			}
		}
	case "periodic":
		A := len(sc.Alpha)
		n := 0
		for p := 1; p <= sc.Period; p++ {
			total := 1
			for i := 0; i < p; i++ {
				total *= A
			}
			for w := 0; w < total; w++ {
				n++
				if n%shards != sc.Shard {
					continue
				}
				base := make([]sym, p)
				x := w
				for i := 0; i < p; i++ {
					base[i] = sc.Alpha[x%A]
					x /= A
				}
				word := make([]sym, sc.Len)
				for i := range word {
					word[i] = base[i%p]
				}
				r, _, err := e1RunWord(sc, word, c.Scratch, props, false)
				if err != nil {
					c.EngineError("%v", err)
					return
				}
				report(r, base)
				if c.NViolations() > 0 {
					c.Cap(sc.Name + ": stopped after a violation")
					return
				}
				if c.Expired() {
					c.Cap(fmt.Sprintf("%s: deadline reached after %d periodic words", sc.Name, n))
					return
				}
			}
		}
	case "long", "fault", "partfault", "paramfault", "firstfault", "flushfault":
		word := make([]sym, sc.Len)
		for i := range word {
			word[i] = sc.Alpha[i%len(sc.Alpha)]
		}
		r, _, err := e1RunWord(sc, word, c.Scratch, props, false)
		if err != nil {
			c.EngineError("%v", err)
			return
		}
		report(r, sc.Alpha)
	}
}

func e1Run(c *vh.Ctx, scens []e1Scen) {
	e1T = c.T
	if c.Replay != nil {
		var rp e1Replay
		if err := json.Unmarshal(c.Replay, &rp); err != nil {
			c.EngineError("bad replay: %v", err)
			return
		}
		word := rp.Word
		sc := rp.Scen
		if sc.Mode != "tree" {
			full := make([]sym, sc.Len)
			for i := range full {
				full[i] = word[i%len(word)]
			}
			word = full
		}
		r, _, err := e1RunWord(sc, word, c.Scratch, map[string]bool{sc.Prop: true}, false)
		if err != nil {
			c.EngineError("%v", err)
			return
		}
		c.Exec()
		for _, v := range r.viols {
			c.Violation(v.sig, v.msg, rp)
		}
		return
	}
	for _, sc := range scens {
		if sc.name() == c.Scenario {
			e1Explore(c, sc)
			return
		}
	}
	c.EngineError("unknown scenario %q", c.Scenario)
}

func e1List(scens []e1Scen) []vh.Scenario {
	var out []vh.Scenario
	for _, s := range scens {
		w := 1
		switch s.Mode {
		case "tree":
			for i := 0; i < s.Depth; i++ {
				w *= len(s.Alpha)
			}
			w *= s.Depth + 2*s.Pre
		case "periodic":
			p := 1
			for i := 0; i < s.Period; i++ {
				p *= len(s.Alpha)
			}
			w = p * s.Len
		case "long":
			w = s.Len * 4
		}
		if s.Cfg.Disk {
			w *= 3
		}
		if s.Shards > 1 {
			w /= s.Shards
		}
		out = append(out, vh.Scenario{Name: s.name(), Weight: w + 1})
	}
	return out
}

// shard splits a scenario into n shards.
func e1Shard(sc e1Scen, n int) []e1Scen {
	var out []e1Scen
	for i := 0; i < n; i++ {
		s := sc
		s.Shard, s.Shards = i, n
		out = append(out, s)
	}
	return out
}
