//go:build verif

package gohlslib

// Reference model of the written stream (engine E1): which units exist, in which order, with which times,
// and where segment cuts are due. It knows nothing about containers, parts, playlists or storage.

import (
	"math/big"

	"github.com/bluenviron/mediacommon/v2/pkg/codecs/h264"
	"github.com/bluenviron/mediacommon/v2/pkg/codecs/h265"
)

type munit struct {
	w        wunit // the write that produced it
	k        int   // index inside a multi-AU audio write
	dts      int64 // in the track's clock rate, as written (no offset)
	ptsOff   int64 // presentation time minus decode time (non-zero only for reordered H264)
	ra       bool
	data     [][]byte // NALUs / OBUs / [frame] for video, [au] for audio
	dur      int64    // fMP4: duration = next.dts - this.dts (set when emitted)
	writeIdx int      // index of the Write call that *emitted* it (when it became part of the stream)
}

type mcut struct {
	atWrite    int   // index of the Write call that caused the cut
	counts     []int // per track: number of emitted units that belong to segments before the cut
	forced     bool  // caused by a parameter change
	timeNum    int64 // start time of the new segment in ticks of the leading track (with the fMP4 offset, if any)
	either     bool  // the elapsed time is within 2 ns of SegmentMinDuration and not exactly representable in ns: both outcomes are accepted
	prevStart  int64
	prevWrites int
}

type emodel struct {
	cfg           muxCfg
	lead          int
	fmp4          bool
	curParam      int // parameter set the writer uses (mirrors muxInst.vparam)
	codecPar      int // parameter set the muxer's codec object holds
	pending       bool
	seenRA        []bool
	next          []*munit // fMP4 look-ahead
	emitted       [][]*munit
	segOpen       bool
	segStart      int64 // ticks of the leading track (offset included for fMP4)
	firstStart    int64
	writesInSeg   int // audio-only MPEG-TS
	cuts          []mcut
	nwrites       int
	eitherNoCutAt int // write index at which the model decided "no cut" on an either decision (-1 none)
	// every unit accepted after the drop rules, in write order (fMP4: includes the look-ahead unit)
	accepted [][]*munit
	// h264b: decode times are derived from the written presentation times and picture order counts by mediacommon's
	// DTS extractor (an external dependency of the library, used here as the definition of "the written decode time")
	ext    []*h264.DTSExtractor
	ext265 []*h265.DTSExtractor // h265b, same role
	extErr error                // the extractor rejected a unit the muxer accepted
}

func newModel(cfg muxCfg) *emodel {
	n := len(cfg.Tracks)
	return &emodel{eitherNoCutAt: -1, cfg: cfg, lead: cfg.leading(), fmp4: cfg.Variant != "mpegts", seenRA: make([]bool, n),
		next: make([]*munit, n), emitted: make([][]*munit, n), accepted: make([][]*munit, n), ext: make([]*h264.DTSExtractor, n), ext265: make([]*h265.DTSExtractor, n)}
}

// offset10s is the constant added by the fMP4 variants, in the track's clock rate.
func (m *emodel) offset(track int) int64 {
	if !m.fmp4 {
		return 0
	}
	return 10 * int64(m.cfg.Tracks[track].clock())
}

// reached reports whether (t - segStart)/clock seconds >= SegmentMinDuration, in exact rational arithmetic.
// either is set when the answer hinges on less than 2 ns and one of the two instants is not a whole number of
// nanoseconds (the library computes in nanoseconds; the property cannot ask for more than that resolution).
func (m *emodel) reached(t int64) (bool, bool) {
	clock := int64(m.cfg.Tracks[m.lead].clock())
	e := new(big.Rat).SetFrac(big.NewInt((t-m.segStart)*1_000_000_000), big.NewInt(clock)) // ns
	s := new(big.Rat).SetInt64(int64(m.cfg.SegMinMS) * 1_000_000)
	d := new(big.Rat).Sub(e, s)
	exact := func(x int64) bool { return (x%clock)*1_000_000_000%clock == 0 }
	either := !(exact(t) && exact(m.segStart)) && d.Cmp(big.NewRat(2, 1)) < 0 && d.Cmp(big.NewRat(-2, 1)) > 0
	return e.Cmp(s) >= 0, either
}

func (m *emodel) counts() []int {
	c := make([]int, len(m.emitted))
	for i := range m.emitted {
		c[i] = len(m.emitted[i])
	}
	return c
}

func (m *emodel) emit(track int, u *munit) {
	u.writeIdx = m.nwrites
	m.emitted[track] = append(m.emitted[track], u)
}

// undoEitherCut removes the last cut if it was an "either" decision (the muxer decided not to cut).
func (m *emodel) undoEitherCut() bool {
	n := len(m.cuts)
	if n == 0 || !m.cuts[n-1].either || m.cuts[n-1].atWrite != m.nwrites-1 {
		return false
	}
	c := m.cuts[n-1]
	m.cuts = m.cuts[:n-1]
	m.segStart = c.prevStart
	m.writesInSeg = c.prevWrites + 1
	return true
}

// lastCutEither reports whether the write just applied made an "either" decision, and which way the model went.
func (m *emodel) lastDecisionEither() (either bool, cut bool) {
	if n := len(m.cuts); n > 0 && m.cuts[n-1].atWrite == m.nwrites-1 && m.cuts[n-1].either {
		return true, true
	}
	return m.eitherNoCutAt == m.nwrites-1, false
}

func (m *emodel) cut(forced bool, t int64, either bool) {
	m.cuts = append(m.cuts, mcut{atWrite: m.nwrites, counts: m.counts(), forced: forced, timeNum: t, either: either, prevStart: m.segStart, prevWrites: m.writesInSeg})
	m.segStart = t
	m.writesInSeg = 0
}

// write applies one Write call; data is what the harness passed to the muxer.
func (m *emodel) write(u wunit, data [][]byte) {
	defer func() { m.nwrites++ }()
	t := m.cfg.Tracks[u.Track]
	if t.video() {
		// parameter detection happens first, on whatever the unit carries
		carries := false
		switch t.Kind {
		case "h264", "h264b", "h264k", "h264bk", "h265", "h265b":
			carries = u.Params != 0
		case "av1", "vp9":
			carries = u.RA // sequence header / key-frame header always describe the parameters
		}
		if u.Params == 2 {
			m.curParam = 1 - m.curParam
		}
		if carries && m.curParam != m.codecPar {
			m.codecPar = m.curParam
			m.pending = true
		}
		if u.NoSlice {
			return // parameter sets only: noted above, nothing to mux
		}
		paramsChanged := false
		if u.RA && m.pending {
			m.pending = false
			paramsChanged = true
		}
		if !m.seenRA[u.Track] {
			if !u.RA {
				return
			}
			m.seenRA[u.Track] = true
		}
		dts := u.DTS
		if isH264B(t.Kind) {
			if m.ext[u.Track] == nil {
				m.ext[u.Track] = &h264.DTSExtractor{}
				m.ext[u.Track].Initialize()
			}
			d, err := m.ext[u.Track].Extract(data, u.DTS)
			if err != nil {
				m.extErr = err
				return
			}
			dts = d
		}
		if t.Kind == "h265b" {
			if m.ext265[u.Track] == nil {
				m.ext265[u.Track] = &h265.DTSExtractor{}
				m.ext265[u.Track].Initialize()
			}
			d, err := m.ext265[u.Track].Extract(data, u.DTS)
			if err != nil {
				m.extErr = err
				return
			}
			dts = d
		}
		unit := &munit{w: u, dts: dts, ptsOff: u.DTS - dts, ra: u.RA, data: data}
		m.accept(u.Track, unit, paramsChanged)
		return
	}
	// audio
	n := u.NAU
	if n <= 0 {
		n = 1
	}
	if !m.fmp4 {
		// MPEG-TS: one PES per write
		unit := &munit{w: u, dts: u.DTS, ra: true, data: data}
		m.accept(u.Track, unit, false)
		return
	}
	for k := 0; k < n; k++ {
		// MPEG-4 audio: 1024 samples per access unit (ClockRate == sample rate); Opus: the duration its TOC byte declares
		unit := &munit{w: u, k: k, dts: u.DTS + m.cfg.audioSpan(t, k), ra: true, data: [][]byte{data[k]}}
		m.accept(u.Track, unit, false)
	}
}

// dtsUnderivable reports whether the decode time of u cannot be derived (h264b): the Write call must fail and the word
// ends there. It consumes the extractor state, so nothing may be written afterwards.
func (m *emodel) dtsUnderivable(u wunit, data [][]byte) bool {
	if m.cfg.Tracks[u.Track].Kind == "h265b" && (m.seenRA[u.Track] || u.RA) {
		ext := m.ext265[u.Track]
		if ext == nil {
			ext = &h265.DTSExtractor{}
			ext.Initialize()
		}
		_, err := ext.Extract(data, u.DTS)
		return err != nil
	}
	if !isH264B(m.cfg.Tracks[u.Track].Kind) || (!m.seenRA[u.Track] && !u.RA) {
		return false
	}
	ext := m.ext[u.Track]
	if ext == nil {
		ext = &h264.DTSExtractor{}
		ext.Initialize()
	}
	_, err := ext.Extract(data, u.DTS)
	return err != nil
}

func (m *emodel) accept(track int, u *munit, paramsChanged bool) {
	lead := track == m.lead
	if m.fmp4 {
		if u.dts+m.offset(track) < 0 {
			return
		}
		if m.next[track] == nil && !u.ra {
			return // a track can only start with a random-access unit (the first one may have been rejected above)
		}
		m.accepted[track] = append(m.accepted[track], u)
		prev := m.next[track]
		m.next[track] = u
		if prev == nil {
			return
		}
		prev.dur = u.dts - prev.dts
		if lead {
			if !m.segOpen {
				m.segOpen = true
				m.segStart = prev.dts + m.offset(track)
				m.firstStart = m.segStart
			}
		} else if !m.segOpen {
			return
		}
		m.emit(track, prev)
		if lead && u.ra {
			re, either := m.reached(u.dts + m.offset(track))
			if paramsChanged || re || either {
				m.cut(paramsChanged, u.dts+m.offset(track), either && !paramsChanged)
			}
		}
		return
	}
	// MPEG-TS
	if lead {
		m.accepted[track] = append(m.accepted[track], u)
		if !m.segOpen {
			m.segOpen = true
			m.segStart = u.dts
			m.firstStart = u.dts
		} else if m.cfg.Tracks[track].video() {
			re, either := m.reached(u.dts)
			if u.ra && (re || either || paramsChanged) {
				m.cut(paramsChanged, u.dts, either && !paramsChanged)
			}
		} else if re, either := m.reached(u.dts); m.writesInSeg >= 100 && (re || either) {
			m.cut(false, u.dts, either)
		}
		m.writesInSeg++
		m.emit(track, u)
		return
	}
	if !m.segOpen {
		return
	}
	m.accepted[track] = append(m.accepted[track], u)
	m.emit(track, u)
}
