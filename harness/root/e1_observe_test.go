//go:build verif

package gohlslib

// Observation side of engine E1: after every write the harness fetches, through Muxer.Handle, the multivariant
// playlist, every stream's media playlist and every listed URI, decodes the media with mediacommon and keeps
// everything in a per-execution history on which the oracles of C01-C05, C16, C18 run.

import (
	"bytes"
	"context"
	"errors"
	"fmt"
	"net/http"
	"os"
	"runtime"
	"sort"
	"strings"

	"github.com/asticode/go-astits"
	"github.com/bluenviron/gohlslib/v2/internal/zzverif/m3u"
	"github.com/bluenviron/gohlslib/v2/pkg/playlist"
	"github.com/bluenviron/mediacommon/v2/pkg/codecs/h264"
	"github.com/bluenviron/mediacommon/v2/pkg/codecs/mpeg4audio"
	"github.com/bluenviron/mediacommon/v2/pkg/formats/fmp4"
)

// dunit is one decoded unit.
type dunit struct {
	track  int   // index into cfg.Tracks
	dts    int64 // fMP4: base time + accumulated durations (offset included); MPEG-TS: 90 kHz DTS
	ptsOff int64
	dur    int64
	sync   bool
	data   [][]byte
}

type dfrag struct {
	seq    uint32
	tracks []dfragTrack
}

type dfragTrack struct {
	track int
	id    int
	base  int64
	units []dunit
}

// dmedia is a decoded segment or part.
type dmedia struct {
	err           string
	frags         []dfrag // fMP4: one per moof; MPEG-TS: a single pseudo fragment
	tsPATPMTFirst bool
}

func (d *dmedia) unitsOf(track int) []dunit {
	var out []dunit
	for _, f := range d.frags {
		for _, t := range f.tracks {
			if t.track == track {
				out = append(out, t.units...)
			}
		}
	}
	return out
}

type uriInfo struct {
	uri      string // canonical
	raw      string
	kind     string // seg part init
	stream   int
	firstObs int
	lastObs  int
	body     []byte
	ct       string
	dec      *dmedia
	init     *fmp4.Init
	gone     bool
	checked  int
}

type plObs struct {
	status int
	raw    []byte
	mp     *m3u.Media
	errs   []string
	libErr error
	lib    *playlist.Media
}

type obsStep struct {
	write     int // index of the write after which this was observed
	avail     bool
	index     []byte
	idxStatus int
	multi     *m3u.Multi
	multiErrs []string
	streams   []*plObs
	pathTable int
	files     []string
}

type viol struct {
	prop string
	sig  string
	msg  string
}

type e1run struct {
	cfg        muxCfg
	mi         *muxInst
	model      *emodel
	ops        []wunit
	opData     [][][]byte
	steps      []*obsStep
	uris       map[string]*uriInfo // by canonical URI
	uriList    []*uriInfo
	viols      []viol
	query      string // raw query appended to playlist requests ("" none)
	writeErr   string
	writeErrAt int
	nObs       int
	mp         *e1maps
	c16        func(r *e1run, k int)
	sizeHook   func(r *e1run, ok bool)
	finalHook  func(r *e1run)
	fragSeq    map[int]map[int]uint32 // fMP4 variant: per stream, media sequence number -> sequence number of the segment's last fragment
	stepHook   func(r *e1run)
	// c06Hints: preload-hint URIs seen so far (C06) -> the bytes the first successful GET returned (nil: not fetched yet)
	c06Hints  map[string][]byte
	nProbes   int
	faulted   bool // a storage fault was injected: the reference model no longer applies, only retention rules do
	medNext   []int
	medCount  []map[int]int
	medEnd    []map[int]int64
	props     map[string]bool // which properties' oracles are evaluated (nil: all)
	fullFetch bool            // re-fetch every listed URI at every observation
	pruned    bool            // the word left the property's domain (a write that has to fail failed): not a violation
	closed    bool            // a hook has called Close
}

func (r *e1run) add(prop, sig, format string, a ...any) {
	if r.props != nil && !r.props[prop] && prop != "ALL" {
		return
	}
	if len(r.viols) >= 8 {
		return
	}
	r.viols = append(r.viols, viol{prop: prop, sig: prop + "/" + sig, msg: fmt.Sprintf(format, a...)})
}

func newE1(cfg muxCfg, dir string) (*e1run, error) {
	mi, err := newMux(cfg, dir)
	if err != nil {
		return nil, err
	}
	r := &e1run{cfg: cfg, mi: mi, model: newModel(cfg), uris: map[string]*uriInfo{}, fullFetch: true, writeErrAt: -1}
	mi.onEncodeError = r.midCallback
	return r, nil
}

func (r *e1run) streamIDs() []string {
	var ids []string
	for _, s := range r.mi.m.streams {
		ids = append(ids, s.id)
	}
	return ids
}

// streamTracks returns, for stream si, the cfg track indices it carries (in container order).
func (r *e1run) streamTracks(si int) []int {
	if r.cfg.Variant == "mpegts" {
		out := make([]int, len(r.cfg.Tracks))
		for i := range out {
			out[i] = i
		}
		return out
	}
	return []int{si}
}

// apply performs one write on the muxer and the model; it returns false if the write failed.
func (r *e1run) apply(u wunit) bool {
	var data [][]byte
	if r.cfg.Tracks[u.Track].video() {
		data = r.mi.videoData(u)
	} else {
		data = r.mi.audioData(u)
	}
	// videoData toggles the parameter set; undo so that write() computes the same data again
	if u.Params == 2 && r.cfg.Tracks[u.Track].video() {
		r.mi.vparam = 1 - r.mi.vparam
	}
	err := r.mi.write(u)
	r.ops = append(r.ops, u)
	if err != nil {
		r.writeErr = err.Error()
		r.writeErrAt = len(r.ops) - 1
		if strings.Contains(r.writeErr, "unable to extract DTS") && !r.faulted && r.model.dtsUnderivable(u, data) {
			r.pruned = true
		}
		return false
	}
	r.opData = append(r.opData, data)
	if r.faulted {
		return true
	}
	r.model.write(u, data)
	if r.model.extErr != nil {
		r.add("C01", "dts-derivation-diverged", "write %d was accepted although no decode time can be derived from the written sequence (%v): the muxer derived its decode times from something else than the written units; ops %s", len(r.ops)-1, r.model.extErr, r.opsString())
		r.model.extErr = nil
	}
	// a cut decision that hinges on less than 2 ns follows the muxer (either outcome satisfies the property)
	if n := len(r.model.cuts); n > 0 && r.model.cuts[n-1].either && r.model.cuts[n-1].atWrite == r.model.nwrites-1 {
		if int(r.mi.m.leadingStream.nextSegmentID)-r.msn0() == n-1 {
			r.model.undoEitherCut()
		}
	}
	return true
}

// safeGet is muxGet with a handler panic turned into a violation.
func (r *e1run) safeGet(path string) (rr *respRec) {
	defer func() {
		if p := recover(); p != nil {
			buf := make([]byte, 4096)
			buf = buf[:runtime.Stack(buf, false)]
			msg := fmt.Sprint(p)
			if len(msg) > 48 {
				msg = msg[:48]
			}
			r.add("ALL", "handler-panic:"+firstLibFrame(string(buf))+":"+msg, "GET %s panics after write %d (storage fault injected=%v): %v; ops %s\n%s", canon(path), len(r.ops)-1, r.faulted, p, r.opsString(), trimGoStack(string(buf)))
			rr = &respRec{Status: -3, Hdr: http.Header{}}
		}
	}()
	return muxGet(r.mi.m, path)
}

// firstLibFrame names the innermost library function of a stack dump.
func firstLibFrame(s string) string {
	for _, l := range strings.Split(s, "\n") {
		if i := strings.Index(l, "gohlslib/v2."); i >= 0 && !strings.Contains(l, "zz_verif") && !strings.Contains(l, "safeGet") && !strings.HasPrefix(strings.TrimSpace(l), "/") {
			f := l[i+len("gohlslib/v2."):]
			if j := strings.IndexByte(f, '('); j > 0 && !strings.HasPrefix(f, "(") {
				f = f[:j]
			} else if k := strings.Index(f, ")."); k > 0 {
				rest := f[k+2:]
				if j := strings.IndexByte(rest, '('); j > 0 {
					rest = rest[:j]
				}
				f = f[:k+2] + rest
			}
			return f
		}
	}
	return "?"
}

func trimGoStack(s string) string {
	var out []string
	for _, l := range strings.Split(s, "\n") {
		if strings.Contains(l, "gohlslib/v2.") && !strings.Contains(l, "zz_verif") {
			out = append(out, strings.TrimSpace(l))
		}
	}
	if len(out) > 6 {
		out = out[:6]
	}
	return strings.Join(out, " <- ")
}

func (r *e1run) get(path string) *respRec {
	if r.query != "" && strings.HasSuffix(strings.SplitN(path, "?", 2)[0], ".m3u8") &&
		!(strings.Contains(r.query, "\"") && strings.HasSuffix(strings.SplitN(path, "?", 2)[0], "index.m3u8")) {
		if strings.Contains(path, "?") {
			path += "&" + r.query
		} else {
			path += "?" + r.query
		}
	}
	return r.safeGet(path)
}

func stripQuery(u string) string {
	if i := strings.IndexByte(u, '?'); i >= 0 {
		return u[:i]
	}
	return u
}

// observe fetches everything that can be fetched without blocking.
func (r *e1run) observe() *obsStep {
	st := &obsStep{write: len(r.ops) - 1}
	r.nObs++
	m := r.mi.m
	st.avail = m.streams[0].hasContent()
	// all streams become available at the same write
	for _, s := range m.streams {
		if s.hasContent() != st.avail {
			sig := "streams-availability"
			if r.faulted {
				sig += ":after-failed-write"
			}
			r.add("C04", sig, "after write %d stream %s hasContent=%v but stream %s hasContent=%v (a Write has failed before=%v)", st.write, s.id, s.hasContent(), m.streams[0].id, st.avail, r.faulted)
		}
	}
	st.pathTable = len(m.server.pathHandlers)
	if r.mi.dir != "" {
		ents, _ := os.ReadDir(r.mi.dir)
		for _, e := range ents {
			st.files = append(st.files, e.Name())
		}
	}
	if st.avail {
		ir := r.get("index.m3u8")
		st.idxStatus, st.index = ir.Status, ir.Body.Bytes()
		if ir.Status == 200 {
			_, st.multi, st.multiErrs = m3u.Parse(st.index, m3u.Options{StrictUnknown: true})
			if ct := ir.Hdr.Get("Content-Type"); ct != "application/vnd.apple.mpegurl" {
				r.add("C05", "content-type", "index.m3u8 has content type %q", ct)
			}
		}
		for si, s := range m.streams {
			if !s.hasContent() {
				st.streams = append(st.streams, &plObs{status: -2})
				continue
			}
			pr := r.get(mediaPlaylistPath(s.id))
			po := &plObs{status: pr.Status, raw: pr.Body.Bytes()}
			if pr.Status == 200 {
				po.mp, _, po.errs = m3u.Parse(po.raw, m3u.Options{StrictUnknown: true})
				pl, err := playlist.Unmarshal(po.raw)
				po.libErr = err
				if err == nil {
					po.lib, _ = pl.(*playlist.Media)
				}
				if ct := pr.Hdr.Get("Content-Type"); ct != "application/vnd.apple.mpegurl" {
					r.add("C05", "content-type", "%s has content type %q", mediaPlaylistPath(s.id), ct)
				}
			}
			st.streams = append(st.streams, po)
			if po.mp != nil {
				r.fetchListed(si, po.mp, len(r.steps))
			}
		}
	}
	// formerly listed URIs must not serve media any more
	for _, ui := range r.uriList {
		if ui.lastObs < len(r.steps) && ui.kind != "init" {
			if ui.kind == "part" && !r.partExpired(ui) {
				continue // still belongs to a listed segment (parts are only *listed* under the last two segments)
			}
			rr := r.safeGet(ui.raw)
			if rr.Status == 200 && rr.Body.Len() > 0 {
				r.add("C05", "expired-uri-serves-media", "%s left the playlist at observation %d but still returns %d bytes with status 200 after write %d", ui.uri, ui.lastObs, rr.Body.Len(), st.write)
				r.add("C18", "expired-uri-serves-media", "%s left the playlist but still resolves after write %d", ui.uri, st.write)
			}
			// ... and must be gone from the URL table, whatever its handler would answer
			key := ui.raw
			if i := strings.IndexByte(key, '?'); i >= 0 {
				key = key[:i]
			}
			if m.server.getPathHandler(key) != nil {
				r.add("C18", "expired-uri-still-registered", "%s (%s) left the playlist with its segment but is still in the URL table after write %d (status of a GET: %d)", ui.uri, ui.kind, st.write, rr.Status)
			}
			ui.gone = true
		}
	}
	// URIs of the muxer's own naming scheme that have never been advertised must not serve media either
	if r.props == nil || r.props["C05"] {
		for _, s := range m.streams {
			mp4 := r.cfg.Variant != "mpegts"
			guesses := []string{
				vSegmentPath(s.prefix, s.id, s.nextSegmentID, mp4),   // the segment being written
				vSegmentPath(s.prefix, s.id, s.nextSegmentID+1, mp4), // the one after it
				vSegmentPath(s.prefix, s.id, s.nextSegmentID, !mp4),  // the other container's extension
			}
			if !mp4 {
				guesses = append(guesses, vInitFilePath(s.prefix, s.id))
			}
			if r.cfg.Variant != "ll" {
				// parts are an internal unit of the plain fMP4 variant: their URIs are never listed
				for k := uint64(0); k < s.nextPartID && k < 4; k++ {
					guesses = append(guesses, vPartPath(s.prefix, s.id, k), vPartPath(s.prefix, s.id, s.nextPartID-1-k))
				}
			} else {
				guesses = append(guesses, vPartPath(s.prefix, s.id, s.nextPartID+1)) // beyond the preload hint
			}
			for _, g := range guesses {
				if _, listed := r.uris[canon(g)]; listed {
					continue
				}
				if rr := r.safeGet(g); rr.Status == 200 && rr.Body.Len() > 0 {
					r.add("C05", "unadvertised-uri-serves-media", "%s has never been listed but returns %d bytes with status 200 after write %d", canon(g), rr.Body.Len(), st.write)
				}
			}
		}
	}
	r.steps = append(r.steps, st)
	return st
}

func (r *e1run) fetchListed(si int, mp *m3u.Media, obsIdx int) {
	type item struct{ uri, kind string }
	var items []item
	if mp.HasMap {
		items = append(items, item{mp.MapURI, "init"})
	}
	for _, s := range mp.Segments {
		if !s.Gap {
			items = append(items, item{s.URI, "seg"})
		}
		for _, p := range s.Parts {
			if !p.Gap {
				items = append(items, item{p.URI, "part"})
			}
		}
	}
	for _, p := range mp.Parts {
		items = append(items, item{p.URI, "part"})
	}
	for _, it := range items {
		key := canon(stripQuery(it.uri))
		ui := r.uris[key]
		if ui == nil {
			ui = &uriInfo{uri: key, raw: stripQuery(it.uri), kind: it.kind, stream: si, firstObs: obsIdx}
			r.uris[key] = ui
			r.uriList = append(r.uriList, ui)
		} else if ui.gone {
			r.add("C04", "uri-relisted", "%s was listed, left the playlist and is listed again", key)
			ui.gone = false
		}
		first := ui.body == nil && ui.firstObs == obsIdx && ui.lastObs == 0
		age := obsIdx - ui.firstObs
		if first || r.fullFetch || it.kind == "init" || (age&(age-1)) == 0 {
			rr := r.safeGet(it.uri)
			wantCT := "video/mp4"
			if r.cfg.Variant == "mpegts" {
				wantCT = "video/MP2T"
			}
			if rr.Status != 200 {
				sig := "listed-uri-not-200"
				if r.faulted && it.kind == "init" && ui.body == nil && rr.Status <= 0 {
					// the EXT-X-MAP of a stream whose init segment could never be built yet (the parameter sets in force since
					// before the first rotation cannot be parsed)
					sig += ":init-never-built"
				}
				r.add("C05", sig, "%s is listed after write %d but GET returns status %d; ops %s", key, len(r.ops)-1, rr.Status, r.opsString())
			} else {
				if ct := rr.Hdr.Get("Content-Type"); ct != wantCT {
					r.add("C05", "content-type", "%s has content type %q, want %q", key, ct, wantCT)
				}
				b := rr.Body.Bytes()
				if rr.TooBig {
					r.add("C05", "listed-uri-endless-body", "%s is listed after write %d and its body does not end (more than %d bytes served, a few hundred thousand were written); ops %s", key, len(r.ops)-1, respMaxBody, r.opsString())
				}
				if len(b) == 0 {
					r.add("C05", "listed-uri-empty", "%s is listed after write %d and GET returns status 200 with an empty body (no fragment, nothing to concatenate); ops %s", key, len(r.ops)-1, r.opsString())
				}
				if ui.body == nil {
					ui.body = bytes.Clone(b)
					ui.ct = rr.Hdr.Get("Content-Type")
					r.decode(ui)
				} else if !bytes.Equal(ui.body, b) {
					if it.kind == "init" {
						// the init segment may legitimately be regenerated (parameter change); keep the newest
						ui.body = bytes.Clone(b)
						r.decode(ui)
					} else {
						r.add("C05", "bytes-changed-while-listed", "%s returned %d bytes when first listed (observation %d) and %d different bytes at observation %d", key, len(ui.body), ui.firstObs, len(b), obsIdx)
					}
				}
			}
		}
		ui.lastObs = obsIdx + 1 // listed at observation obsIdx
	}
}

// decode parses a fetched body.
func (r *e1run) decode(ui *uriInfo) {
	if ui.kind == "init" {
		var in fmp4.Init
		if err := in.Unmarshal(bytes.NewReader(ui.body)); err != nil {
			r.add("C02", "init-undecodable", "%s: %v", ui.uri, err)
			ui.init = nil
			return
		}
		ui.init = &in
		return
	}
	d := &dmedia{}
	ui.dec = d
	tracks := r.streamTracks(ui.stream)
	if r.cfg.Variant != "mpegts" {
		var parts fmp4.Parts
		if err := parts.Unmarshal(ui.body); err != nil {
			d.err = err.Error()
			r.add("C01", "media-undecodable", "%s: %v", ui.uri, err)
			return
		}
		for _, p := range parts {
			f := dfrag{seq: p.SequenceNumber}
			for _, pt := range p.Tracks {
				if pt.ID < 1 || pt.ID > len(tracks) {
					r.add("C01", "unknown-track-id", "%s: fragment track id %d", ui.uri, pt.ID)
					continue
				}
				ti := tracks[pt.ID-1]
				ft := dfragTrack{track: ti, id: pt.ID, base: int64(pt.BaseTime)}
				dts := int64(pt.BaseTime)
				for _, s := range pt.Samples {
					du := dunit{track: ti, dts: dts, ptsOff: int64(s.PTSOffset), dur: int64(s.Duration), sync: !s.IsNonSyncSample}
					var err error
					switch r.cfg.Tracks[ti].Kind {
					case "h264", "h264b", "h264k", "h264bk":
						du.data, err = s.GetH264()
					case "h265", "h265b":
						du.data, err = s.GetH265()
					case "av1":
						du.data, err = s.GetAV1()
					default:
						du.data = [][]byte{s.Payload}
					}
					if err != nil {
						r.add("C01", "sample-undecodable", "%s: %v", ui.uri, err)
					}
					ft.units = append(ft.units, du)
					dts += int64(s.Duration)
				}
				f.tracks = append(f.tracks, ft)
			}
			d.frags = append(d.frags, f)
		}
		return
	}
	// MPEG-TS: every segment must be independently decodable
	if len(ui.body) >= 376 {
		pid := func(p []byte) int { return int(p[1]&0x1f)<<8 | int(p[2]) }
		d.tsPATPMTFirst = ui.body[0] == 0x47 && pid(ui.body[0:188]) == 0 && ui.body[188] == 0x47 && pid(ui.body[188:376]) != 0
	}
	// demultiplex with astits directly (mediacommon's Reader cannot initialise on a segment that lacks audio data)
	dem := astits.NewDemuxer(context.Background(), bytes.NewReader(ui.body), astits.DemuxerOptPacketSize(188))
	pidTrack := map[uint16]int{}
	byTrack := map[int]*dfragTrack{}
	sawPMT := false
	for {
		data, err := dem.NextData()
		if err != nil {
			if !errors.Is(err, astits.ErrNoMorePackets) {
				d.err = err.Error()
				r.add("C01", "media-undecodable", "%s: %v", ui.uri, err)
			}
			break
		}
		if data.PMT != nil {
			sawPMT = true
			for _, es := range data.PMT.ElementaryStreams {
				idx := -1
				for i, t := range r.cfg.Tracks {
					if (es.StreamType == astits.StreamTypeH264Video && isH264(t.Kind)) || (es.StreamType == astits.StreamTypeAACAudio && !t.video()) {
						idx = i
					}
				}
				if idx < 0 {
					r.add("C02", "ts-unknown-stream", "%s: PMT declares stream type %v", ui.uri, es.StreamType)
					continue
				}
				pidTrack[es.ElementaryPID] = idx
				if byTrack[idx] == nil {
					byTrack[idx] = &dfragTrack{track: idx}
				}
			}
			if len(data.PMT.ElementaryStreams) != len(r.cfg.Tracks) {
				r.add("C02", "ts-pmt-tracks", "%s: PMT declares %d streams, the muxer has %d tracks", ui.uri, len(data.PMT.ElementaryStreams), len(r.cfg.Tracks))
			}
			continue
		}
		if data.PES == nil {
			continue
		}
		if !sawPMT {
			r.add("C02", "ts-segment-not-independent", "%s: media data precedes the PMT", ui.uri)
		}
		idx, ok := pidTrack[data.PID]
		if !ok {
			continue
		}
		oh := data.PES.Header.OptionalHeader
		if oh == nil || oh.PTS == nil {
			r.add("C01", "ts-pes-without-pts", "%s: PES without PTS", ui.uri)
			continue
		}
		pts := oh.PTS.Base
		dts := pts
		if oh.DTS != nil {
			dts = oh.DTS.Base
		}
		ft := byTrack[idx]
		if r.cfg.Tracks[idx].video() {
			var au h264.AnnexB
			if err := au.Unmarshal(data.PES.Data); err != nil {
				r.add("C01", "ts-decode-error", "%s: %v", ui.uri, err)
				continue
			}
			// MPEG-TS time stamps live on a 33-bit circle (negative times wrap): the offset is taken on the circle
			off := (pts - dts) % (1 << 33)
			if off > 1<<32 {
				off -= 1 << 33
			} else if off < -(1 << 32) {
				off += 1 << 33
			}
			ft.units = append(ft.units, dunit{track: idx, dts: dts, ptsOff: off, data: au})
		} else {
			var pkts mpeg4audio.ADTSPackets
			if err := pkts.Unmarshal(data.PES.Data); err != nil {
				r.add("C01", "ts-decode-error", "%s: %v", ui.uri, err)
				continue
			}
			var aus [][]byte
			for _, p := range pkts {
				aus = append(aus, p.AU)
			}
			ft.units = append(ft.units, dunit{track: idx, dts: pts, data: aus, sync: true})
		}
	}
	f := dfrag{}
	var order []int
	for idx := range byTrack {
		order = append(order, idx)
	}
	sort.Ints(order)
	for _, idx := range order {
		f.tracks = append(f.tracks, *byTrack[idx])
	}
	d.frags = append(d.frags, f)
}

// partExpired reports whether the parent segment of a part has left the playlist (or is unknown).
func (r *e1run) partExpired(part *uriInfo) bool {
	for seg, parts := range r.maps().partsOf {
		for _, p := range parts {
			if p == part.uri {
				si := r.uris[seg]
				return si == nil || si.lastObs < len(r.steps)
			}
		}
	}
	// never seen under a complete segment: it belongs to the open segment
	return false
}

// segURI returns the info of the segment with media sequence number msn of stream si, if it was ever listed.
func (r *e1run) segOf(si int, msn int) *uriInfo {
	s := r.mi.m.streams[si]
	ext := ".mp4"
	if r.cfg.Variant == "mpegts" {
		ext = ".ts"
	}
	return r.uris[fmt.Sprintf("P_%s_seg%d%s", s.id, msn, ext)]
}
