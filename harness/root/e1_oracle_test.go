//go:build verif

package gohlslib

// Oracles of engine E1, evaluated after every write on the history of observations.
// Every rule is tagged with the property it belongs to; a check reports only the rules of its own property.

import (
	"bytes"
	"fmt"
	"math"
	"os"
	"path/filepath"
	"regexp"
	"strconv"
	"strings"
	"time"

	"github.com/bluenviron/gohlslib/v2/internal/zzverif/m3u"
	"github.com/bluenviron/mediacommon/v2/pkg/formats/fmp4"
)

var (
	segNumRe  = regexp.MustCompile(`_seg(\d+)\.(mp4|ts)$`)
	partNumRe = regexp.MustCompile(`_part(\d+)\.mp4$`)
)

type e1maps struct {
	segByMSN []map[int]string    // per stream: media sequence number -> canonical segment URI
	partsOf  map[string][]string // canonical segment URI -> canonical part URIs (longest listing seen)
	msnInfo  []map[int]string    // per stream: msn -> "uri|extinf|gap" (must never change)
	lastTD   []int
	lastPT   []int64
}

func (r *e1run) maps() *e1maps {
	if r.mp == nil {
		n := len(r.mi.m.streams)
		r.mp = &e1maps{partsOf: map[string][]string{}}
		for i := 0; i < n; i++ {
			r.mp.segByMSN = append(r.mp.segByMSN, map[int]string{})
			r.mp.msnInfo = append(r.mp.msnInfo, map[int]string{})
		}
		r.mp.lastTD = make([]int, n)
		r.mp.lastPT = make([]int64, n)
	}
	return r.mp
}

func (r *e1run) msn0() int {
	if r.cfg.Variant == "ll" {
		return 7
	}
	return 0
}

func (r *e1run) clockOf(track int) int64 { return int64(r.cfg.Tracks[track].clock()) }

// ticksToNS converts ticks of a track to nanoseconds (rounded down).
func ticksToNS(t int64, clock int64) int64 {
	return (t/clock)*1_000_000_000 + (t%clock)*1_000_000_000/clock
}

func abs64(a int64) int64 {
	if a < 0 {
		return -a
	}
	return a
}

func naluEqualIgnoringAUD(kind string, got, want [][]byte) bool {
	// (MPEG-TS: the container has delimiters of its own; those of the written unit and those of the decoded one are set aside)
	strip := func(in [][]byte) [][]byte {
		var out [][]byte
		for _, n := range in {
			if isH264(kind) && len(n) > 0 && n[0]&0x1f == 9 {
				continue
			}
			out = append(out, n)
		}
		return out
	}
	g, w := strip(got), strip(want)
	if len(g) != len(w) {
		return false
	}
	for i := range g {
		if !bytes.Equal(g[i], w[i]) {
			return false
		}
	}
	return true
}

// av1StripSizes removes the obu_size field the fMP4 container adds to every OBU (low-overhead bitstream format).
func av1StripSizes(obus [][]byte) [][]byte {
	var out [][]byte
	for _, o := range obus {
		if len(o) >= 2 && o[0]&0x02 != 0 && o[0]&0x04 == 0 {
			// LEB128 size
			i := 1
			for i < len(o) && o[i]&0x80 != 0 {
				i++
			}
			i++
			if i <= len(o) {
				n := append([]byte{o[0] &^ 0x02}, o[i:]...)
				out = append(out, n)
				continue
			}
		}
		out = append(out, o)
	}
	return out
}

func dataEqual(got, want [][]byte) bool {
	if len(got) != len(want) {
		return false
	}
	for i := range got {
		if !bytes.Equal(got[i], want[i]) {
			return false
		}
	}
	return true
}

func describeUnits(us []dunit, n int) string {
	var b strings.Builder
	for i, u := range us {
		if i >= n {
			b.WriteString("…")
			break
		}
		fmt.Fprintf(&b, "[dts=%d dur=%d sync=%v %x] ", u.dts, u.dur, u.sync, firstBytes(u.data))
	}
	return b.String()
}

func describeMUnits(us []*munit, n int) string {
	var b strings.Builder
	for i, u := range us {
		if i >= n {
			b.WriteString("…")
			break
		}
		fmt.Fprintf(&b, "[dts=%d dur=%d ra=%v %x] ", u.dts, u.dur, u.ra, firstBytes(u.data))
	}
	return b.String()
}

func firstBytes(d [][]byte) []byte {
	if len(d) == 0 {
		return nil
	}
	last := d[len(d)-1]
	if len(last) > 6 {
		return last[:6]
	}
	return last
}

// compareUnits checks decoded units against model units (same length expected by the caller).
func (r *e1run) compareUnits(prop, where string, track int, got []dunit, want []*munit) bool {
	kind := r.cfg.Tracks[track].Kind
	fmp4v := r.cfg.Variant != "mpegts"
	for i := range got {
		if i >= len(want) {
			break
		}
		g, w := got[i], want[i]
		gd := g.data
		if kind == "av1" {
			gd = av1StripSizes(gd)
		}
		okData := dataEqual(gd, w.data)
		if !fmp4v && isH264(kind) {
			okData = naluEqualIgnoringAUD(kind, g.data, w.data)
		}
		if !okData {
			r.add(prop, "unit-payload", "%s: track %d unit %d payload differs: decoded %x, written %x (decoded %s | written %s)", where, track, i, g.data, w.data, describeUnits(got, 6), describeMUnits(want, 6))
			return false
		}
		if fmp4v {
			if g.dts != w.dts+r.model.offset(track) {
				r.add(prop, "unit-dts", "%s: track %d unit %d has decode time %d, want %d (+10 s offset)", where, track, i, g.dts, w.dts+r.model.offset(track))
				return false
			}
			if g.dur != w.dur {
				r.add(prop, "unit-duration", "%s: track %d unit %d has duration %d, want %d", where, track, i, g.dur, w.dur)
				return false
			}
			wantSync := w.ra || !r.cfg.Tracks[track].video()
			if g.sync != wantSync {
				r.add(prop, "unit-sync-flag", "%s: track %d unit %d sync=%v, written random-access=%v", where, track, i, g.sync, w.ra)
				return false
			}
		} else {
			clock := r.clockOf(track)
			wd := (w.dts/clock)*90000 + (w.dts%clock)*90000/clock
			tol := int64(0)
			if clock != 90000 {
				tol = 1
			}
			// MPEG-TS time stamps are 33-bit: negative times wrap around
			diff := (g.dts - wd) % (1 << 33)
			if diff < 0 {
				diff += 1 << 33
			}
			if diff > 1<<32 {
				diff = 1<<33 - diff
			}
			if diff > tol {
				r.add(prop, "unit-dts", "%s: track %d unit %d has DTS %d, want %d", where, track, i, g.dts, wd)
				return false
			}
		}
		wantOff, offTol := w.ptsOff, int64(0)
		if !fmp4v {
			// MPEG-TS: presentation and decode time are converted to 90 kHz one by one
			clock := r.clockOf(track)
			conv := func(x int64) int64 { return (x/clock)*90000 + (x%clock)*90000/clock }
			wantOff = conv(w.dts+w.ptsOff) - conv(w.dts)
			if clock != 90000 {
				offTol = 1
			}
		}
		if d := g.ptsOff - wantOff; d > offTol || d < -offTol {
			r.add(prop, "unit-pts-offset", "%s: track %d unit %d has presentation offset %d, want %d", where, track, i, g.ptsOff, wantOff)
			return false
		}
	}
	return true
}

func roundHalfUp(ns int64) int {
	return int((ns + 500_000_000) / 1_000_000_000)
}

// checkStep evaluates all oracles on observation k (the last one).
func (r *e1run) checkStep() {
	k := len(r.steps) - 1
	st := r.steps[k]
	m := r.mi.m
	nseg := len(r.model.cuts)
	msn0 := r.msn0()

	if r.faulted {
		// after an injected storage fault only the retention rules are evaluated
		if st.avail {
			for si, po := range st.streams {
				if po.mp != nil {
					r.recordListing(si, k)
					r.checkC04(si, k)
				}
			}
		}
		r.checkC18Retention(k)
		return
	}
	// C02(b): cuts happen exactly when the rule says, observed through the muxer's own segment counter
	for si, s := range m.streams {
		got := int(s.nextSegmentID) - msn0
		if s.nextSegment == nil && got == 0 {
			continue
		}
		if got != nseg {
			why := ""
			if nseg > 0 {
				c := r.model.cuts[nseg-1]
				why = fmt.Sprintf(" (last expected cut at write %d, forced=%v)", c.atWrite, c.forced)
			}
			r.add("C02", "cut-mismatch", "after write %d stream %s has completed %d segment(s), the segmentation rule requires %d%s; ops %s", st.write, m.streams[si].id, got, nseg, why, r.opsString())
			break
		}
	}
	if !st.avail {
		return
	}

	for si, po := range st.streams {
		s := m.streams[si]
		if po.status != 200 || po.mp == nil {
			r.add("C05", "playlist-not-200", "playlist of stream %s returned status %d after write %d although content is available", s.id, po.status, st.write)
			continue
		}
		if len(po.errs) > 0 {
			r.add("C15", "muxer-playlist-grammar", "playlist of stream %s after write %d violates the grammar: %s\n%s", s.id, st.write, strings.Join(po.errs, "; "), canon(string(po.raw)))
		}
		// (po.libErr - the library's own decoder rejecting the playlist - is not a violation of C15, whose yardstick is the
		// independent grammar: e.g. a 33 ms segment forced by a parameter change gives EXT-X-TARGETDURATION:0, which the
		// grammar allows and the library's decoder refuses)
		r.recordListing(si, k)
		r.checkC04(si, k)
		r.checkC03(si, k)
		r.checkC18Listing(si, k)
	}
	r.checkCrossStream(k)
	r.checkMedia(k)
	r.checkInit(k)
	r.checkC18Retention(k)
	r.checkC16(k)
}

// recordListing notes which segment every listed media sequence number denotes and checks the clauses of C04 that
// relate a number to a segment (these hold whatever the writes were, also after a failed Write).
func (r *e1run) recordListing(si, k int) {
	st := r.steps[k]
	s := r.mi.m.streams[si]
	mp := r.maps()
	pl := st.streams[si].mp
	for i, seg := range pl.Segments {
		msn := pl.MediaSequence + i
		cu := canon(stripQuery(seg.URI))
		info := fmt.Sprintf("%s|%s|%v", cu, seg.DurationText, seg.Gap)
		if old, ok := mp.msnInfo[si][msn]; ok && old != info {
			r.add("C04", "msn-changed", "stream %s: media sequence number %d denoted %s and now %s (write %d)", s.id, msn, old, info, st.write)
		}
		mp.msnInfo[si][msn] = info
		if !seg.Gap {
			mp.segByMSN[si][msn] = cu
			if nm := segNumRe.FindStringSubmatch(cu); nm == nil || nm[1] != strconv.Itoa(msn) {
				r.add("C04", "uri-number-vs-msn", "stream %s: segment %s is listed at media sequence number %d", s.id, cu, msn)
			}
			if len(seg.Parts) > len(mp.partsOf[cu]) {
				var ps []string
				for _, p := range seg.Parts {
					ps = append(ps, canon(stripQuery(p.URI)))
				}
				mp.partsOf[cu] = ps
			}
		}
	}
}

func (r *e1run) opsString() string {
	var b strings.Builder
	for i, u := range r.ops {
		if i > 0 {
			b.WriteByte(' ')
		}
		k := "n"
		if u.RA {
			k = "R"
		}
		if !r.cfg.Tracks[u.Track].video() {
			k = "a"
		}
		fmt.Fprintf(&b, "%s%d@%d", k, u.Track, u.DTS)
		if u.Params != 0 {
			fmt.Fprintf(&b, "p%d", u.Params)
		}
		if u.NAU > 1 {
			fmt.Fprintf(&b, "x%d", u.NAU)
		}
		if k := r.cfg.Tracks[u.Track].Kind; isH264B(k) || k == "h265b" {
			fmt.Fprintf(&b, "poc%d", u.POC)
		}
	}
	return b.String()
}

// ---- C04: evolution of successive playlists of one stream ----

func (r *e1run) prevPL(si, k int) *m3u.Media {
	for j := k - 1; j >= 0; j-- {
		if r.steps[j].avail && si < len(r.steps[j].streams) && r.steps[j].streams[si].mp != nil {
			return r.steps[j].streams[si].mp
		}
	}
	return nil
}

func (r *e1run) checkC04(si, k int) {
	s := r.mi.m.streams[si]
	pl := r.steps[k].streams[si].mp
	w := r.steps[k].write
	if len(pl.Segments) > r.cfg.SegCount {
		r.add("C04", "too-many-segments", "stream %s lists %d segments after write %d, SegmentCount is %d", s.id, len(pl.Segments), w, r.cfg.SegCount)
		r.add("C18", "too-many-segments", "stream %s lists %d segments after write %d, SegmentCount is %d", s.id, len(pl.Segments), w, r.cfg.SegCount)
	}
	if len(pl.Segments) == 0 {
		r.add("C04", "empty-playlist", "stream %s lists no segment after write %d", s.id, w)
		return
	}
	ll := r.cfg.Variant == "ll"
	// parts only under the last two segments and the open one; part numbers consecutive
	var partNums []int
	for i, seg := range pl.Segments {
		if len(seg.Parts) > 0 && len(pl.Segments)-i > 2 {
			r.add("C04", "parts-under-old-segment", "stream %s: segment %s (position %d of %d) lists parts", s.id, canon(seg.URI), i, len(pl.Segments))
		}
		if ll && !seg.Gap && len(pl.Segments)-i <= 2 && len(seg.Parts) == 0 {
			r.add("C04", "parts-missing", "stream %s: one of the last two segments (%s) lists no parts", s.id, canon(seg.URI))
		}
		for _, p := range seg.Parts {
			if nm := partNumRe.FindStringSubmatch(stripQuery(p.URI)); nm != nil {
				n, _ := strconv.Atoi(nm[1])
				partNums = append(partNums, n)
			} else {
				r.add("C04", "part-uri", "stream %s: unexpected part URI %s", s.id, p.URI)
			}
		}
	}
	for _, p := range pl.Parts {
		if nm := partNumRe.FindStringSubmatch(stripQuery(p.URI)); nm != nil {
			n, _ := strconv.Atoi(nm[1])
			partNums = append(partNums, n)
		}
	}
	for i := 1; i < len(partNums); i++ {
		if partNums[i] != partNums[i-1]+1 {
			r.add("C04", "part-numbers", "stream %s: part numbers are not consecutive: %v (write %d)", s.id, partNums, w)
			break
		}
	}
	if ll {
		if len(pl.PreloadHints) != 1 || pl.PreloadHints[0].Type != "PART" {
			r.add("C04", "preload-hint-missing", "stream %s: no PART preload hint after write %d", s.id, w)
		} else if nm := partNumRe.FindStringSubmatch(stripQuery(pl.PreloadHints[0].URI)); nm == nil {
			r.add("C04", "preload-hint-uri", "stream %s: preload hint %s does not name a part", s.id, pl.PreloadHints[0].URI)
		} else if len(partNums) > 0 {
			if n, _ := strconv.Atoi(nm[1]); n != partNums[len(partNums)-1]+1 {
				r.add("C04", "preload-hint-number", "stream %s: preload hint names part %d, last listed part is %d", s.id, n, partNums[len(partNums)-1])
			}
		}
	} else if len(pl.PreloadHints) != 0 || len(pl.Parts) != 0 {
		r.add("C04", "unexpected-ll-tags", "stream %s lists parts or preload hints in a non-Low-Latency variant", s.id)
	}
	if ll && (r.props == nil || r.props["C04"]) {
		// the same history seen through Playlist Delta Updates: a media sequence number denotes the same segment there
		for _, skip := range []string{"YES", "v2"} {
			// (with the user's own query string, if the scenario has one: it comes back on every URI, spelled the same way
			// in every view)
			rr := r.get(mediaPlaylistPath(s.id) + "?_HLS_skip=" + skip)
			if rr.Status != 200 {
				continue
			}
			dp, _, _ := m3u.Parse(rr.Body.Bytes(), m3u.Options{})
			if dp == nil {
				continue
			}
			skipped := 0
			if dp.Skip != nil {
				skipped = *dp.Skip
			}
			// the preload hint belongs to the live edge, which a delta update never skips: the same single hint as in the full
			// playlist of the same instant
			if len(dp.PreloadHints) != len(pl.PreloadHints) || (len(pl.PreloadHints) == 1 && (dp.PreloadHints[0].Type != pl.PreloadHints[0].Type || canon(dp.PreloadHints[0].URI) != canon(pl.PreloadHints[0].URI))) {
				r.add("C04", "delta-preload-hint", "stream %s: a delta update (_HLS_skip=%s) carries %d preload hint(s), the full playlist of the same instant %d - or they name different parts (write %d)", s.id, skip, len(dp.PreloadHints), len(pl.PreloadHints), w)
			}
			if len(dp.Parts) != len(pl.Parts) {
				r.add("C04", "delta-parts", "stream %s: a delta update (_HLS_skip=%s) lists %d parts of the open segment, the full playlist of the same instant %d (write %d)", s.id, skip, len(dp.Parts), len(pl.Parts), w)
			}
			if dp.MediaSequence != pl.MediaSequence {
				r.add("C04", "delta-media-sequence", "stream %s: a delta update (_HLS_skip=%s) carries EXT-X-MEDIA-SEQUENCE %d, the full playlist of the same instant %d (write %d)", s.id, skip, dp.MediaSequence, pl.MediaSequence, w)
			}
			for i, seg := range dp.Segments {
				msn := dp.MediaSequence + skipped + i
				j := msn - pl.MediaSequence
				if j < 0 || j >= len(pl.Segments) || canon(pl.Segments[j].URI) != canon(seg.URI) || pl.Segments[j].Gap != seg.Gap || pl.Segments[j].DurationText != seg.DurationText {
					r.add("C04", "delta-msn-denotes-other-segment", "stream %s: in a delta update (_HLS_skip=%s, MEDIA-SEQUENCE %d, SKIPPED-SEGMENTS %d) media sequence number %d denotes %s, in the full playlist of the same instant it does not (write %d)", s.id, skip, dp.MediaSequence, skipped, msn, canon(seg.URI), w)
					break
				}
			}
		}
	}
	prev := r.prevPL(si, k)
	if prev == nil {
		return
	}
	if pl.MediaSequence < prev.MediaSequence {
		r.add("C04", "media-sequence-decreased", "stream %s: EXT-X-MEDIA-SEQUENCE went from %d to %d at write %d", s.id, prev.MediaSequence, pl.MediaSequence, w)
	}
	// new = old minus a prefix plus a suffix
	prevEnd := prev.MediaSequence + len(prev.Segments)
	end := pl.MediaSequence + len(pl.Segments)
	if end < prevEnd {
		r.add("C04", "tail-removed", "stream %s: last listed media sequence number went from %d to %d at write %d", s.id, prevEnd-1, end-1, w)
	}
	if pl.MediaSequence > prevEnd {
		r.add("C04", "window-jumped", "stream %s: playlist jumped from [%d,%d) to [%d,%d) at write %d", s.id, prev.MediaSequence, prevEnd, pl.MediaSequence, end, w)
	}
}

// ---- C03: durations, target durations, date-times ----

func (r *e1run) segSpanTicks(j int) (int64, bool) {
	cuts := r.model.cuts
	if j < 0 || j >= len(cuts) {
		return 0, false
	}
	start := r.model.firstStart
	if j > 0 {
		start = cuts[j-1].timeNum
	}
	return cuts[j].timeNum - start, true
}

func (r *e1run) firstLeadUnit(j int) *munit {
	lead := r.model.lead
	idx := 0
	if j > 0 {
		idx = r.model.cuts[j-1].counts[lead]
	}
	if idx < len(r.model.emitted[lead]) {
		return r.model.emitted[lead][idx]
	}
	// fMP4: the first unit of the open segment may still be in the look-ahead slot
	if r.model.next[lead] != nil && idx == len(r.model.emitted[lead]) {
		return r.model.next[lead]
	}
	return nil
}

func (r *e1run) unitNTP(u *munit) time.Time {
	t := r.mi.ntpOf(u.w)
	if u.k > 0 {
		clock := r.clockOf(u.w.Track)
		t = t.Add(time.Duration(ticksToNS(u.dts-u.w.DTS, clock)))
	}
	return t
}

func (r *e1run) checkC03(si, k int) {
	s := r.mi.m.streams[si]
	pl := r.steps[k].streams[si].mp
	w := r.steps[k].write
	lead := r.model.lead
	clock := r.clockOf(lead)
	msn0 := r.msn0()
	mp := r.maps()
	if !pl.HasTargetDuration {
		return
	}
	if pl.TargetDuration < mp.lastTD[si] {
		r.add("C03", "targetduration-decreased", "stream %s: EXT-X-TARGETDURATION went from %d to %d at write %d", s.id, mp.lastTD[si], pl.TargetDuration, w)
	}
	mp.lastTD[si] = pl.TargetDuration
	for i, seg := range pl.Segments {
		msn := pl.MediaSequence + i
		if roundHalfUp(seg.DurationNS) > pl.TargetDuration {
			r.add("C03", "targetduration-too-small", "stream %s: segment %d has EXTINF %s but EXT-X-TARGETDURATION is %d (write %d)", s.id, msn, seg.DurationText, pl.TargetDuration, w)
		}
		if seg.Gap {
			continue
		}
		j := msn - msn0
		if span, ok := r.segSpanTicks(j); ok {
			spanNS := ticksToNS(span, clock)
			if abs64(spanNS-seg.DurationNS) >= 10_000 {
				r.add("C03", "extinf-vs-media", "stream %s: segment %d has EXTINF %s but the leading track spans %d ticks (%.6f s) there (write %d); ops %s", s.id, msn, seg.DurationText, span, float64(spanNS)/1e9, w, r.opsString())
			}
			if seg.DateTime != nil {
				if u := r.firstLeadUnit(j); u != nil {
					want := r.unitNTP(u)
					d := seg.DateTime.Sub(want)
					if d < 0 {
						d = -d
					}
					if d >= time.Millisecond {
						r.add("C03", "program-date-time", "stream %s: segment %d has EXT-X-PROGRAM-DATE-TIME %s, the wall-clock time given with its first unit is %s (write %d)", s.id, msn, seg.DateTime.UTC().Format(time.RFC3339Nano), want.UTC().Format(time.RFC3339Nano), w)
					}
				}
			}
		}
		if r.cfg.Variant == "mpegts" && seg.DateTime == nil {
			r.add("C03", "program-date-time-missing", "stream %s: segment %d has no EXT-X-PROGRAM-DATE-TIME", s.id, msn)
		}
		// parts add up to EXTINF
		if len(seg.Parts) > 0 {
			var sum int64
			for _, p := range seg.Parts {
				sum += p.DurationNS
			}
			if abs64(sum-seg.DurationNS) > int64(len(seg.Parts)+1)*5_000 {
				r.add("C03", "parts-sum-vs-extinf", "stream %s: parts of segment %d add up to %d ns, EXTINF is %s (write %d)", s.id, msn, sum, seg.DurationText, w)
			}
		}
	}
	if r.cfg.Variant != "ll" {
		return
	}
	if pl.PartTargetNS == nil || pl.ServerControl == nil {
		r.add("C03", "ll-tags-missing", "stream %s: EXT-X-PART-INF or EXT-X-SERVER-CONTROL missing", s.id)
		return
	}
	pt := *pl.PartTargetNS
	check := func(p m3u.Part, where string) {
		if p.DurationNS > pt+5_000 {
			r.add("C03", "part-target-too-small", "stream %s: part %s (%s) lasts %d ns, PART-TARGET is %d ns (write %d)", s.id, canon(p.URI), where, p.DurationNS, pt, w)
		}
	}
	for _, seg := range pl.Segments {
		for _, p := range seg.Parts {
			check(p, "complete segment")
		}
	}
	for _, p := range pl.Parts {
		check(p, "open segment")
	}
	if pl.ServerControl.PartHoldBackNS == nil || *pl.ServerControl.PartHoldBackNS < 2*pt {
		r.add("C03", "part-hold-back", "stream %s: PART-HOLD-BACK %v is less than twice PART-TARGET %d ns", s.id, pl.ServerControl.PartHoldBackNS, pt)
	}
	if pl.ServerControl.CanSkipUntilNS == nil || *pl.ServerControl.CanSkipUntilNS < 6*int64(pl.TargetDuration)*1_000_000_000 {
		r.add("C03", "can-skip-until", "stream %s: CAN-SKIP-UNTIL is less than six times TARGETDURATION %d", s.id, pl.TargetDuration)
	}
	if r.props == nil || r.props["C03"] {
		// the header of a Playlist Delta Update of the same instant obeys the same clauses (it is the same header)
		for _, skip := range []string{"YES", "v2"} {
			rr := r.get(mediaPlaylistPath(s.id) + "?_HLS_skip=" + skip)
			if rr.Status != 200 {
				continue
			}
			dp, _, _ := m3u.Parse(rr.Body.Bytes(), m3u.Options{})
			if dp == nil || dp.ServerControl == nil || dp.PartTargetNS == nil {
				r.add("C03", "delta-ll-tags-missing", "stream %s: the delta update (_HLS_skip=%s) of write %d lacks EXT-X-PART-INF or EXT-X-SERVER-CONTROL", s.id, skip, w)
				continue
			}
			if dp.TargetDuration != pl.TargetDuration || *dp.PartTargetNS != pt {
				r.add("C03", "delta-header-differs", "stream %s: the delta update (_HLS_skip=%s) of write %d announces TARGETDURATION %d / PART-TARGET %d ns, the full playlist of the same instant %d / %d ns", s.id, skip, w, dp.TargetDuration, *dp.PartTargetNS, pl.TargetDuration, pt)
			}
			if dp.ServerControl.CanSkipUntilNS == nil || *dp.ServerControl.CanSkipUntilNS < 6*int64(dp.TargetDuration)*1_000_000_000 {
				v := int64(-1)
				if dp.ServerControl.CanSkipUntilNS != nil {
					v = *dp.ServerControl.CanSkipUntilNS
				}
				r.add("C03", "can-skip-until/delta", "stream %s: in the delta update (_HLS_skip=%s) of write %d CAN-SKIP-UNTIL is %d ns, less than six times TARGETDURATION %d", s.id, skip, w, v, dp.TargetDuration)
			}
			if dp.ServerControl.PartHoldBackNS == nil || *dp.ServerControl.PartHoldBackNS < 2*(*dp.PartTargetNS) {
				r.add("C03", "part-hold-back/delta", "stream %s: in the delta update (_HLS_skip=%s) of write %d PART-HOLD-BACK is less than twice PART-TARGET", s.id, skip, w)
			}
		}
	}
}

// ---- cross-stream agreement (C04 last sentence, C02 "all streams cut at the same instant", C03 for renditions) ----

// midCallback runs inside OnEncodeError, i.e. in user code the muxer calls in the middle of a Write. If requests can be
// served at that moment (the muxer mutex is free), what they show is observable at one and the same time: all streams must
// expose the same media sequence numbers and durations (C04), the writer being stopped inside the callback.
func (r *e1run) midCallback(error) {
	m := r.mi.m
	// a stream whose own mutex is free while the callback runs serves its playlist to concurrent readers right now: what
	// they get must satisfy the clauses that relate the tags of one response to each other
	if !r.faulted {
		for _, s := range m.streams {
			if !s.mutex.TryLock() {
				continue
			}
			has := s.hasContent()
			s.mutex.Unlock()
			if !has {
				continue
			}
			p, _, _ := m3u.Parse(muxGet(m, mediaPlaylistPath(s.id)).Body.Bytes(), m3u.Options{})
			if p == nil || !p.HasTargetDuration {
				continue
			}
			for i, seg := range p.Segments {
				if roundHalfUp(seg.DurationNS) > p.TargetDuration {
					r.add("C03", "targetduration-too-small-inside-callback", "inside OnEncodeError during write %d (stream %s answers requests: its mutex is free) segment %d is listed with EXTINF %s under EXT-X-TARGETDURATION %d; ops %s",
						len(r.ops)-1, s.id, p.MediaSequence+i, seg.DurationText, p.TargetDuration, r.opsString())
				}
				for _, pt := range seg.Parts {
					if p.PartTargetNS != nil && pt.DurationNS > *p.PartTargetNS+10_000 {
						r.add("C03", "part-target-too-small-inside-callback", "inside OnEncodeError during write %d (stream %s answers requests: its mutex is free) part %s lasts %d ns under PART-TARGET %d ns; ops %s",
							len(r.ops)-1, s.id, canon(pt.URI), pt.DurationNS, *p.PartTargetNS, r.opsString())
					}
				}
			}
		}
	}
	if r.faulted || len(m.streams) < 2 || !m.mutex.TryLock() {
		return // requests would block until the callback has returned
	}
	m.mutex.Unlock()
	var lead *m3u.Media
	for _, s := range m.streams {
		if s.isLeading && s.hasContent() {
			lead, _, _ = m3u.Parse(muxGet(m, mediaPlaylistPath(s.id)).Body.Bytes(), m3u.Options{})
		}
	}
	if lead == nil {
		return
	}
	for _, s := range m.streams {
		if s.isLeading || !s.hasContent() {
			continue
		}
		p, _, _ := m3u.Parse(muxGet(m, mediaPlaylistPath(s.id)).Body.Bytes(), m3u.Options{})
		if p == nil {
			continue
		}
		same := p.MediaSequence == lead.MediaSequence && len(p.Segments) == len(lead.Segments)
		for i := 0; same && i < len(p.Segments); i++ {
			same = p.Segments[i].DurationNS == lead.Segments[i].DurationNS && p.Segments[i].Gap == lead.Segments[i].Gap
		}
		if !same {
			r.add("C04", "streams-differ-inside-callback", "inside OnEncodeError during write %d (requests are being served: the muxer mutex is free) stream %s lists media sequence numbers [%d,%d), the leading stream [%d,%d), or their durations differ; ops %s",
				len(r.ops)-1, s.id, p.MediaSequence, p.MediaSequence+len(p.Segments), lead.MediaSequence, lead.MediaSequence+len(lead.Segments), r.opsString())
		}
	}
}

func (r *e1run) checkCrossStream(k int) {
	st := r.steps[k]
	if len(st.streams) < 2 {
		return
	}
	li := 0
	for i, s := range r.mi.m.streams {
		if s.isLeading {
			li = i
		}
	}
	lp := st.streams[li].mp
	if lp == nil {
		return
	}
	for si, po := range st.streams {
		if si == li || po.mp == nil {
			continue
		}
		s := r.mi.m.streams[si]
		p := po.mp
		if p.MediaSequence != lp.MediaSequence || len(p.Segments) != len(lp.Segments) {
			r.add("C04", "streams-differ", "after write %d stream %s lists media sequence numbers [%d,%d) but the leading stream lists [%d,%d)", st.write, s.id, p.MediaSequence, p.MediaSequence+len(p.Segments), lp.MediaSequence, lp.MediaSequence+len(lp.Segments))
			r.add("C02", "streams-cut-differently", "after write %d stream %s lists %d segments from %d, the leading stream %d from %d", st.write, s.id, len(p.Segments), p.MediaSequence, len(lp.Segments), lp.MediaSequence)
			continue
		}
		for i := range p.Segments {
			if p.Segments[i].DurationNS != lp.Segments[i].DurationNS || p.Segments[i].Gap != lp.Segments[i].Gap {
				r.add("C04", "streams-differ", "after write %d segment %d of stream %s has EXTINF %s, the leading stream's has %s", st.write, p.MediaSequence+i, s.id, p.Segments[i].DurationText, lp.Segments[i].DurationText)
			}
			a, b := p.Segments[i].DateTime, lp.Segments[i].DateTime
			if (a == nil) != (b == nil) || (a != nil && !a.Equal(*b)) {
				r.add("C03", "streams-date-time-differ", "after write %d segment %d of stream %s and of the leading stream carry different EXT-X-PROGRAM-DATE-TIME", st.write, p.MediaSequence+i, s.id)
			}
			if len(p.Segments[i].Parts) != len(lp.Segments[i].Parts) {
				r.add("C04", "streams-differ", "after write %d segment %d of stream %s lists %d parts, the leading stream's %d", st.write, p.MediaSequence+i, s.id, len(p.Segments[i].Parts), len(lp.Segments[i].Parts))
				continue
			}
			for j := range p.Segments[i].Parts {
				if p.Segments[i].Parts[j].DurationNS != lp.Segments[i].Parts[j].DurationNS {
					r.add("C03", "rendition-part-duration", "after write %d part %d of segment %d of stream %s lasts %d ns, the leading stream's %d ns", st.write, j, p.MediaSequence+i, s.id, p.Segments[i].Parts[j].DurationNS, lp.Segments[i].Parts[j].DurationNS)
				}
			}
		}
		if len(p.Parts) != len(lp.Parts) {
			r.add("C04", "streams-differ", "after write %d stream %s lists %d parts of the open segment, the leading stream %d", st.write, s.id, len(p.Parts), len(lp.Parts))
		}
		if p.TargetDuration != lp.TargetDuration {
			r.add("C03", "rendition-targetduration", "after write %d stream %s announces TARGETDURATION %d, the leading stream %d", st.write, s.id, p.TargetDuration, lp.TargetDuration)
		}
		if (p.PartTargetNS == nil) != (lp.PartTargetNS == nil) || (p.PartTargetNS != nil && *p.PartTargetNS != *lp.PartTargetNS) {
			r.add("C03", "rendition-part-target", "after write %d stream %s and the leading stream announce different PART-TARGET", st.write, s.id)
		}
	}
}

// ---- media: C01 (units preserved), C02 (segments start on random access, per-segment contents), C03 (part durations), C05 (parts vs segment) ----

func (r *e1run) checkMedia(k int) {
	st := r.steps[k]
	mp := r.maps()
	msn0 := r.msn0()
	nseg := len(r.model.cuts)
	lead := r.model.lead
	fmp4v := r.cfg.Variant != "mpegts"
	if r.medNext == nil {
		n := len(r.mi.m.streams)
		r.medNext = make([]int, n)
		r.medCount = make([]map[int]int, n)
		r.medEnd = make([]map[int]int64, n)
		for i := range r.medCount {
			r.medCount[i] = map[int]int{}
			r.medEnd[i] = map[int]int64{}
		}
	}
	for si := range st.streams {
		s := r.mi.m.streams[si]
		tracks := r.streamTracks(si)
		if st.streams[si].mp == nil {
			continue
		}
		// every complete segment is processed exactly once, in order, when it is first available
		for r.medNext[si] < nseg {
			j := r.medNext[si]
			cu, ok := mp.segByMSN[si][msn0+j]
			if !ok {
				if st.streams[si].mp.MediaSequence > msn0+j {
					r.add("ALL", "segment-never-observed", "stream %s: segment %d left the playlist without ever having been listed in an observation (write %d)", s.id, msn0+j, st.write)
					r.medNext[si] = nseg
				}
				break
			}
			ui := r.uris[cu]
			if ui == nil || ui.dec == nil || ui.dec.err != "" {
				break
			}
			r.medNext[si]++
			where := fmt.Sprintf("stream %s segment %d after write %d (ops %s)", s.id, msn0+j, st.write, r.opsString())
			for _, t := range tracks {
				us := ui.dec.unitsOf(t)
				// C01: the decoded units continue the emitted sequence exactly
				cnt := r.medCount[si][t]
				want := r.model.emitted[t]
				if cnt+len(us) > len(want) {
					r.add("C01", "units-invented", "%s: track %d: %d units decoded so far, only %d were emitted", where, t, cnt+len(us), len(want))
				} else {
					r.compareUnits("C01", where, t, us, want[cnt:cnt+len(us)])
				}
				r.medCount[si][t] = cnt + len(us)
				// C02(b/c): per-segment contents are exactly the units between two cuts
				lo := 0
				if j > 0 {
					lo = r.model.cuts[j-1].counts[t]
				}
				hi := r.model.cuts[j].counts[t]
				if len(us) != hi-lo || cnt != lo {
					r.add("C02", "segment-contents", "%s: holds %d units of track %d starting at emitted unit %d, the cut rule puts units [%d,%d) there; decoded %s | expected %s", where, len(us), t, cnt, lo, hi, describeUnits(us, 5), describeMUnits(r.model.emitted[t][min(lo, len(r.model.emitted[t])):min(hi, len(r.model.emitted[t]))], 5))
				}
				if t == lead && len(us) > 0 {
					first := us[0]
					isSync := first.sync
					if !fmp4v {
						isSync = !r.cfg.Tracks[t].video()
						for _, n := range first.data {
							if len(n) > 0 && n[0]&0x1f == 5 {
								isSync = true
							}
						}
					}
					if !isSync {
						r.add("C02", "segment-starts-without-random-access", "%s: starts with a non-random-access unit of the leading track", where)
					}
				}
				if t == lead && len(us) == 0 {
					r.add("C02", "segment-without-leading-unit", "%s: holds no unit of the leading track", where)
				}
				// contiguous base times across fragments (fMP4)
				if fmp4v {
					for _, f := range ui.dec.frags {
						for _, ft := range f.tracks {
							if ft.track != t {
								continue
							}
							if end, ok := r.medEnd[si][t]; ok && ft.base != end {
								r.add("C01", "base-times-not-contiguous", "%s: track %d fragment %d has base time %d, the previous fragment ended at %d", where, t, f.seq, ft.base, end)
							}
							end := ft.base
							for _, u := range ft.units {
								end += u.dur
							}
							r.medEnd[si][t] = end
						}
					}
				}
			}
			if !fmp4v && !ui.dec.tsPATPMTFirst {
				r.add("C02", "ts-segment-without-pat-pmt", "%s: does not start with PAT and PMT packets", where)
			}
			r.checkSegmentParts(si, ui, msn0+j)
			r.checkDiskFile(ui)
		}
		// nothing may be missing at the tail either
		if r.medNext[si] == nseg && nseg > 0 && r.cutsAgree() {
			for _, t := range tracks {
				if need := r.model.cuts[nseg-1].counts[t]; r.medCount[si][t] < need {
					r.add("C01", "units-lost", "stream %s track %d: the complete segments hold %d units, %d were emitted before the last cut (write %d); ops %s", s.id, t, r.medCount[si][t], need, st.write, r.opsString())
				}
			}
		}
		// C03: part durations of the leading stream against the decoded media
		if r.cfg.Variant == "ll" && s.isLeading {
			pl := st.streams[si].mp
			clock := r.clockOf(lead)
			check := func(p m3u.Part) {
				pi := r.uris[canon(stripQuery(p.URI))]
				if pi == nil || pi.dec == nil || pi.checked > 0 {
					return
				}
				pi.checked = 1
				var ticks int64
				for _, u := range pi.dec.unitsOf(lead) {
					ticks += u.dur
				}
				if abs64(ticksToNS(ticks, clock)-p.DurationNS) >= 10_000 {
					r.add("C03", "part-duration-vs-media", "stream %s: part %s is listed with DURATION %d ns, the leading track spans %d ticks in it (write %d)", s.id, canon(p.URI), p.DurationNS, ticks, st.write)
				}
			}
			for _, sg := range pl.Segments {
				for _, p := range sg.Parts {
					check(p)
				}
			}
			for _, p := range pl.Parts {
				check(p)
			}
		}
	}
}

// cutsAgree reports whether the muxer has cut as many segments as the model (C02 reports otherwise).
func (r *e1run) cutsAgree() bool {
	s := r.mi.m.leadingStream
	return int(s.nextSegmentID)-r.msn0() == len(r.model.cuts)
}

// checkSegmentParts: a segment's bytes are the concatenation of its parts' bytes, its parts decode to the same
// units, each part is one fragment whose sequence number is the part number, and part DURATIONs match the media.
func (r *e1run) checkSegmentParts(si int, seg *uriInfo, msn int) {
	if r.cfg.Variant == "fmp4" && seg.dec != nil && len(seg.dec.frags) > 0 {
		// fMP4 variant: a segment is one part; the fragments of consecutive segments are numbered consecutively (the part
		// numbers run on from segment to segment)
		if r.fragSeq == nil {
			r.fragSeq = map[int]map[int]uint32{}
		}
		if r.fragSeq[si] == nil {
			r.fragSeq[si] = map[int]uint32{}
		}
		first := seg.dec.frags[0].seq
		if prev, ok := r.fragSeq[si][msn-1]; ok && first != prev+1 && !r.faulted {
			r.add("C05", "fragment-sequence-number", "stream %s: segment %d starts with fragment sequence number %d, the previous segment ended with %d", r.mi.m.streams[si].id, msn, first, prev)
		}
		r.fragSeq[si][msn] = seg.dec.frags[len(seg.dec.frags)-1].seq
	}
	if r.cfg.Variant != "ll" {
		return
	}
	mp := r.maps()
	parts := mp.partsOf[seg.uri]
	if len(parts) == 0 {
		return
	}
	s := r.mi.m.streams[si]
	var cat []byte
	nfr := 0
	for _, pu := range parts {
		pi := r.uris[pu]
		if pi == nil || pi.body == nil {
			return
		}
		cat = append(cat, pi.body...)
		if pi.dec != nil {
			nfr += len(pi.dec.frags)
			if len(pi.dec.frags) != 1 {
				r.add("C05", "part-not-one-fragment", "stream %s: part %s holds %d fragments", s.id, pu, len(pi.dec.frags))
			} else if nm := partNumRe.FindStringSubmatch(pu); nm != nil {
				if n, _ := strconv.Atoi(nm[1]); uint32(n) != pi.dec.frags[0].seq {
					r.add("C05", "fragment-sequence-number", "stream %s: part %s carries fragment sequence number %d", s.id, pu, pi.dec.frags[0].seq)
				}
			}
		}
	}
	if !bytes.Equal(cat, seg.body) {
		r.add("C05", "segment-vs-parts", "stream %s: segment %d (%d bytes) is not the concatenation of its %d parts (%d bytes)", s.id, msn, len(seg.body), len(parts), len(cat))
	}
	if seg.dec != nil && nfr != len(seg.dec.frags) {
		r.add("C01", "parts-vs-segment-units", "stream %s: segment %d holds %d fragments, its parts %d", s.id, msn, len(seg.dec.frags), nfr)
	}
}

func (r *e1run) checkDiskFile(ui *uriInfo) {
	if r.mi.dir == "" {
		return
	}
	b, err := os.ReadFile(filepath.Join(r.mi.dir, ui.raw))
	if err != nil {
		r.add("C05", "disk-file-missing", "%s is listed but its file cannot be read: %v", ui.uri, err)
		return
	}
	if !bytes.Equal(b, ui.body) {
		r.add("C05", "disk-file-differs", "%s: the file in Directory (%d bytes) differs from the served bytes (%d bytes)", ui.uri, len(b), len(ui.body))
	}
}

// ---- init segment (C02 d) ----

func (r *e1run) checkInit(k int) {
	if r.cfg.Variant == "mpegts" {
		return
	}
	st := r.steps[k]
	for si, po := range st.streams {
		if po.mp == nil {
			continue
		}
		s := r.mi.m.streams[si]
		if !po.mp.HasMap {
			r.add("C02", "map-missing", "stream %s: playlist has no EXT-X-MAP (write %d)", s.id, st.write)
			continue
		}
		ui := r.uris[canon(stripQuery(po.mp.MapURI))]
		if ui == nil || ui.init == nil {
			continue
		}
		tracks := r.streamTracks(si)
		if len(ui.init.Tracks) != len(tracks) {
			r.add("C02", "init-tracks", "stream %s: init segment declares %d tracks, the stream has %d", s.id, len(ui.init.Tracks), len(tracks))
			continue
		}
		for i, it := range ui.init.Tracks {
			t := r.cfg.Tracks[tracks[i]]
			if it.ID != i+1 {
				r.add("C02", "init-track-id", "stream %s: init track %d has id %d", s.id, i, it.ID)
			}
			if int(it.TimeScale) != t.clock() {
				r.add("C02", "init-timescale", "stream %s: init track %d has timescale %d, want %d", s.id, i, it.TimeScale, t.clock())
			}
			kindOK := false
			var psOK = true
			par := r.model.codecPar
			switch c := it.Codec.(type) {
			case *fmp4.CodecH264:
				kindOK = isH264(t.Kind)
				psOK = bytes.Equal(c.SPS, r.cfg.pset(t.Kind, par).sps) && bytes.Equal(c.PPS, r.cfg.pset(t.Kind, par).pps)
			case *fmp4.CodecH265:
				kindOK = isH265(t.Kind)
				psOK = bytes.Equal(c.SPS, r.cfg.pset(t.Kind, par).sps) && bytes.Equal(c.PPS, r.cfg.pset(t.Kind, par).pps) && bytes.Equal(c.VPS, r.cfg.pset(t.Kind, par).vps)
			case *fmp4.CodecAV1:
				kindOK = t.Kind == "av1"
				psOK = bytes.Equal(av1StripSizes([][]byte{c.SequenceHeader})[0], r.cfg.pset(t.Kind, par).seqHdr)
			case *fmp4.CodecVP9:
				kindOK = t.Kind == "vp9"
				ps := r.cfg.pset("vp9", par)
				psOK = c.Width == ps.width && c.Height == ps.height && int(c.Profile) == ps.profile && int(c.BitDepth) == ps.bitDepth &&
					int(c.ChromaSubsampling) == ps.chroma && c.ColorRange == ps.colorRange
			case *fmp4.CodecMPEG4Audio:
				kindOK = strings.HasPrefix(t.Kind, "aac")
				if c.Config.SampleRate != t.clock() {
					r.add("C02", "init-audio-config", "stream %s: init declares sample rate %d", s.id, c.Config.SampleRate)
				}
			case *fmp4.CodecOpus:
				kindOK = t.Kind == "opus"
			}
			if !kindOK {
				r.add("C02", "init-codec", "stream %s: init track %d has codec %T, the track is %s", s.id, i, it.Codec, t.Kind)
				continue
			}
			if t.video() && !psOK && r.initSettled() {
				r.add("C02", "init-stale-parameters", "stream %s: init segment does not carry parameter set %d although the first complete segment encoded with it is listed and no change is pending (write %d); ops %s", s.id, par, st.write, r.opsString())
			}
		}
	}
}

// initSettled: no change pending and the segment started at the last forced cut is complete.
func (r *e1run) initSettled() bool {
	if r.model.pending {
		return false
	}
	cuts := r.model.cuts
	// the parameters the writer uses now must have been introduced by a forced cut whose segment is complete,
	// or have been in use from the start
	for j := len(cuts) - 1; j >= 0; j-- {
		if cuts[j].forced {
			return j < len(cuts)-1
		}
	}
	return true
}

// ---- C18 ----

func (r *e1run) checkC18Listing(si, k int) {}

func (r *e1run) checkC18Retention(k int) {
	st := r.steps[k]
	ns := len(r.mi.m.streams)
	if r.mi.dir != "" {
		if len(st.files) > (r.cfg.SegCount+1)*ns {
			r.add("C18", "too-many-files", "Directory holds %d files after write %d, at most (SegmentCount+1) x streams = %d are expected: %s", len(st.files), st.write, (r.cfg.SegCount+1)*ns, canon(strings.Join(st.files, " ")))
		}
	}
	// URL table: index + per stream (playlist, init, SegmentCount segments, their parts, the open segment's parts, one preload hint)
	maxParts := 0
	for _, po := range st.streams {
		if po.mp == nil {
			continue
		}
		n := len(po.mp.Parts)
		for _, s := range po.mp.Segments {
			n += len(s.Parts)
		}
		if n > maxParts {
			maxParts = n
		}
	}
	// parts of segments that are listed without their parts are still registered until the segment expires
	bound := 1 + ns*(2+r.cfg.SegCount+1) + ns*(r.maxPartsPerSegment()*(r.cfg.SegCount+1)+1)
	if st.pathTable > bound {
		r.add("C18", "url-table-grows", "the URL table holds %d entries after write %d, bound %d", st.pathTable, st.write, bound)
	}
}

func (r *e1run) maxPartsPerSegment() int {
	if r.cfg.Variant != "ll" {
		return 0
	}
	mx := 0
	for _, ps := range r.maps().partsOf {
		if len(ps) > mx {
			mx = len(ps)
		}
	}
	for _, st := range r.steps {
		for _, po := range st.streams {
			if po.mp != nil && len(po.mp.Parts) > mx {
				mx = len(po.mp.Parts)
			}
		}
	}
	return mx + 1
}

var _ = math.Round

// checkC16 is filled in by the C16 harness.
func (r *e1run) checkC16(k int) {
	if r.c16 != nil {
		r.c16(r, k)
	}
}

// resync continues the per-segment media bookkeeping from the first segment listed now (used after a preamble that
// was run without intermediate observations; the skipped segments were checked when the preamble was observed fully).
func (r *e1run) resync() {
	k := len(r.steps) - 1
	st := r.steps[k]
	n := len(r.mi.m.streams)
	r.medNext = make([]int, n)
	r.medCount = make([]map[int]int, n)
	r.medEnd = make([]map[int]int64, n)
	for si := 0; si < n; si++ {
		r.medCount[si] = map[int]int{}
		r.medEnd[si] = map[int]int64{}
		if !st.avail || si >= len(st.streams) || st.streams[si].mp == nil {
			continue
		}
		j0 := st.streams[si].mp.MediaSequence - r.msn0()
		// skip gap entries at the head (Low-Latency start)
		for _, sg := range st.streams[si].mp.Segments {
			if !sg.Gap {
				break
			}
			j0++
		}
		if j0 < 0 {
			j0 = 0
		}
		if j0 > len(r.model.cuts) {
			j0 = len(r.model.cuts)
		}
		r.medNext[si] = j0
		if j0 > 0 {
			for t, c := range r.model.cuts[j0-1].counts {
				r.medCount[si][t] = c
			}
		}
	}
}
