//go:build verif

package gohlslib

// Scenario lists of the properties decided by engine E1.

import (
	"fmt"
	"github.com/bluenviron/gohlslib/v2/internal/zzverif/m3u"
	"github.com/bluenviron/gohlslib/v2/internal/zzverif/vh"
)

func init() {
	for _, p := range []string{"C01", "C02", "C03", "C04", "C05"} {
		p := p
		verifProps[p] = vh.Prop{
			List: func(tier string) []vh.Scenario { return e1List(e1Scens(p, tier)) },
			Run:  func(c *vh.Ctx) { e1Run(c, e1Scens(p, c.Tier)) },
		}
	}
}

func tr(kinds ...string) []trackSpec {
	var out []trackSpec
	for _, k := range kinds {
		out = append(out, trackSpec{Kind: k})
	}
	return out
}

func mcfg(variant string, disk bool, segCount int, tracks ...string) muxCfg {
	c := muxCfg{Variant: variant, Tracks: tr(tracks...), SegCount: segCount, SegMinMS: 1000, Disk: disk}
	if variant == "ll" {
		c.PartMS = 200
	}
	for _, t := range c.Tracks {
		if t.Kind == "opus" {
			c.OpusMix = true
		}
	}
	return c
}

// alphabets
func alphaTiming(t int) []sym {
	var a []sym
	for _, d := range []string{"f", "S", "S-", "S+", "0"} {
		for _, k := range []string{"R", "n"} {
			a = append(a, sym{T: t, D: d, K: k})
		}
	}
	return a
}

func alphaParams(t int) []sym {
	var a []sym
	for _, d := range []string{"f", "S"} {
		for _, k := range []string{"R", "n", "r", "P", "N"} {
			a = append(a, sym{T: t, D: d, K: k})
		}
	}
	return a
}

// alphaParamsQ adds the parameter-sets-only access unit (H264 / H265).
func alphaParamsQ(cfg muxCfg) []sym {
	t := cfg.leading()
	a := alphaParams(t)
	// (H264 only: the muxer drops such units explicitly; what becomes of them for H265 is not specified)
	if k := cfg.Tracks[t].Kind; isH264(k) {
		a = append(a, sym{T: t, D: "f", K: "Q"})
	}
	return a
}

// alphaReorder: H264 with reordered frames ("M" is written before the "b" frame that is displayed ahead of it).
func alphaReorder(t int) []sym {
	var a []sym
	for _, d := range []string{"f", "S"} {
		for _, k := range []string{"R", "n", "M", "b"} {
			a = append(a, sym{T: t, D: d, K: k})
		}
	}
	return append(a, sym{T: t, D: "S-", K: "R"}, sym{T: t, D: "f", K: "P"})
}

// alphaZero: zero-duration segments (two random-access units with the same time stamp, with and without a parameter change).
func alphaZero(t int) []sym {
	var a []sym
	for _, d := range []string{"0", "f", "S"} {
		for _, k := range []string{"R", "P", "n"} {
			a = append(a, sym{T: t, D: d, K: k})
		}
	}
	return a
}

// paramDeltas lists (video kind, component) pairs: the writer's two parameter sets differ in that component only.
func paramDeltas() [][2]string {
	return [][2]string{{"h264", "pps"}, {"h264", "sps"}, {"h264", "notiming"}, {"h264", "constraint"}, {"h265", "vps"}, {"h265", "sps"}, {"h265", "pps"},
		{"vp9", "width"}, {"vp9", "height"}, {"vp9", "profile"}, {"vp9", "bitdepth"}, {"vp9", "chroma"}, {"vp9", "range"}, {"av1", "color"}}
}

func alphaInterleave(cfg muxCfg) []sym {
	var a []sym
	for i, t := range cfg.Tracks {
		if t.video() {
			for _, d := range []string{"f", "S"} {
				for _, k := range []string{"R", "n"} {
					a = append(a, sym{T: i, D: d, K: k})
				}
			}
		} else if t.Kind == "opus" {
			// three packets: with OpusMix their durations differ (20, 10, 40 ms)
			a = append(a, sym{T: i, D: "c", N: 1}, sym{T: i, D: "c", N: 3})
		} else {
			a = append(a, sym{T: i, D: "c", N: 1}, sym{T: i, D: "c", N: 2})
		}
	}
	return a
}

func alphaAudio(cfg muxCfg) []sym {
	var a []sym
	for i, t := range cfg.Tracks {
		if !t.video() {
			a = append(a, sym{T: i, D: "c", N: 1}, sym{T: i, D: "c", N: 3}, sym{T: i, D: "g", N: 1}, sym{T: i, D: "G", N: 2})
		}
	}
	return a
}

type e1Grid struct {
	cfg   muxCfg
	alpha string // timing params inter audio
}

func (g e1Grid) alphabet() []sym {
	switch g.alpha {
	case "timing":
		return alphaTiming(g.cfg.leading())
	case "params":
		return alphaParamsQ(g.cfg)
	case "inter":
		return alphaInterleave(g.cfg)
	case "reorder":
		return alphaReorder(g.cfg.leading())
	case "zero":
		return alphaZero(g.cfg.leading())
	}
	return alphaAudio(g.cfg)
}

func e1BaseGrid(tier string) []e1Grid {
	g := []e1Grid{
		{mcfg("mpegts", false, 3, "h264"), "timing"},
		{mcfg("mpegts", false, 3, "h264"), "params"},
		{mcfg("mpegts", true, 3, "h264", "aac44"), "inter"},
		{mcfg("mpegts", false, 3, "aac48", "h264"), "inter"},
		{mcfg("fmp4", false, 3, "h264"), "timing"},
		{mcfg("fmp4", false, 3, "h264"), "params"},
		{mcfg("fmp4", true, 3, "h264", "aac44"), "inter"},
		{mcfg("fmp4", false, 3, "aac44", "h264"), "inter"},
		{mcfg("fmp4", false, 3, "h265"), "params"},
		{mcfg("fmp4", false, 3, "av1"), "params"},
		{mcfg("fmp4", true, 3, "vp9"), "params"},
		{mcfg("fmp4", false, 3, "h265", "opus"), "inter"},
		{mcfg("fmp4", false, 3, "aac48", "opus"), "audio"},
		{mcfg("ll", false, 7, "h264"), "timing"},
		{mcfg("ll", true, 7, "h264"), "params"},
		{mcfg("ll", false, 7, "h264", "aac44"), "inter"},
		{mcfg("ll", true, 7, "aac44", "h264", "opus"), "inter"},
		{mcfg("ll", false, 7, "av1"), "timing"},
		{mcfg("ll", false, 9, "h264"), "params"},
		{mcfg("ll", false, 7, "aac44"), "audio"},
		{mcfg("mpegts", false, 3, "h264b"), "reorder"},
		{mcfg("fmp4", false, 3, "h264b"), "reorder"},
		{mcfg("ll", false, 7, "h264b"), "reorder"},
		{mcfg("mpegts", true, 3, "h264", "aac48k90"), "inter"},
		{mcfg("mpegts", false, 3, "h264k"), "timing"},
		{mcfg("mpegts", false, 3, "h264bk"), "reorder"},
		{mcfg("mpegts", false, 3, "h264k", "aac44"), "inter"},
		{mcfg("fmp4", false, 3, "h264", "aacsbr"), "inter"},
		// a small SegmentMaxSize: words end at the Write that is refused (a Write that returns nil has stored its units)
		{func() muxCfg { c := mcfg("fmp4", false, 3, "h264", "aac44"); c.MaxSize = 60; return c }(), "inter"},
		{func() muxCfg { c := mcfg("ll", false, 7, "h264", "opus"); c.MaxSize = 90; return c }(), "inter"},
		{mcfg("ll", false, 7, "aacsbr"), "audio"},
		{mcfg("fmp4", false, 3, "h265b"), "reorder"},
		{mcfg("ll", false, 7, "h265b", "aac44"), "reorder"},
		// reordered H264 whose parameter switch changes the PPS only (the SPS is repeated unchanged)
		{func() muxCfg { c := mcfg("fmp4", false, 3, "h264b"); c.ParamDelta = "pps"; return c }(), "reorder"},
		{func() muxCfg { c := mcfg("mpegts", false, 3, "h264b", "aac44"); c.ParamDelta = "pps"; return c }(), "reorder"},
		// Opus as the leading track (audio only): writes of three packets that last 20, 10 and 40 ms
		{mcfg("fmp4", false, 3, "opus"), "audio"},
		{mcfg("ll", false, 7, "opus", "aac44"), "audio"},
		{mcfg("mpegts", false, 3, "h264"), "zero"},
		{mcfg("fmp4", false, 3, "h264"), "zero"},
		{mcfg("ll", false, 7, "h264", "aac44"), "zero"},
	}
	// other SegmentMinDuration / PartMinDuration / SegmentCount values
	with := func(c muxCfg, segMS, partMS int) muxCfg {
		c.SegMinMS, c.PartMS = segMS, partMS
		return c
	}
	g = append(g,
		e1Grid{with(mcfg("ll", false, 8, "h264"), 500, 100), "timing"},
		e1Grid{with(mcfg("fmp4", false, 4, "h264", "aac48"), 2000, 0), "inter"},
		e1Grid{with(mcfg("mpegts", false, 5, "h264"), 250, 0), "timing"},
		// SegmentMinDuration below PartMinDuration (its default of 200 ms where none is given, or an explicit larger one)
		e1Grid{with(mcfg("fmp4", false, 4, "h264"), 100, 0), "timing"},
		e1Grid{with(mcfg("ll", false, 8, "h264", "aac44"), 100, 200), "inter"},
		e1Grid{with(mcfg("fmp4", false, 3, "aac48"), 60, 0), "audio"},
	)
	if tier == "thorough" {
		g = append(g,
			e1Grid{mcfg("fmp4", false, 5, "vp9"), "timing"},
			e1Grid{mcfg("fmp4", false, 3, "av1"), "timing"},
			e1Grid{mcfg("fmp4", false, 3, "h265"), "timing"},
			e1Grid{mcfg("ll", false, 9, "h265"), "params"},
			e1Grid{mcfg("ll", false, 7, "vp9", "aac48"), "inter"},
			e1Grid{mcfg("ll", true, 7, "h264", "aac44", "aac48"), "inter"},
			e1Grid{mcfg("fmp4", true, 3, "aac44", "aac44"), "audio"},
			e1Grid{mcfg("mpegts", true, 5, "h264"), "timing"},
		)
	}
	return g
}

func e1Scens(prop, tier string) []e1Scen {
	var out []e1Scen
	depth := 4
	shards := 2
	if tier == "thorough" {
		depth = 5 // 10-symbol alphabets: 10^5 words per configuration; depth 6 for alphabets of at most 6 symbols
		shards = 16
	}
	for gi, g := range e1BaseGrid(tier) {
		alpha := g.alphabet()
		d := depth
		if len(alpha) <= 6 {
			d = depth + 1
		}
		name := g.alpha
		sc := e1Scen{Prop: prop, Cfg: g.cfg, Alpha: alpha, Depth: d, Mode: "tree", Name: name + "-tree"}
		out = append(out, e1Shard(sc, shards)...)
		// from a non-initial state: window already full and sliding
		pre := g.cfg.SegCount + 1
		sc2 := sc
		sc2.Pre, sc2.Depth, sc2.Name = pre, d-1, name+"-tree-after-preamble"
		out = append(out, e1Shard(sc2, shards)...)
		// negative start times (fMP4 rejects what is earlier than -10 s)
		if gi%3 == 0 || tier == "thorough" {
			for _, st := range []int64{-1000, -10000, -10034} {
				sc3 := sc
				sc3.Start, sc3.Depth, sc3.Name = st, d-1, name+"-tree-negative-start"
				out = append(out, sc3)
			}
		}
		// a stream that has been running for 28.5 hours: the time stamps pass 2^63 ns / 1e9 ticks within the word
		// (directly, and with the +10 s of the fMP4 variants)
		if g.alpha == "timing" || g.alpha == "params" {
			for _, st := range []int64{102_481_000, 102_471_400} {
				sc4 := sc
				sc4.Start, sc4.Depth, sc4.Name = st, d-1, name+"-tree-long-running"
				out = append(out, sc4)
			}
		}
		// periodic words: the window slides many times
		per := e1Scen{Prop: prop, Cfg: g.cfg, Alpha: alpha, Mode: "periodic", Period: 2, Len: 6 * g.cfg.SegCount * 2, Name: name + "-periodic"}
		if tier == "thorough" {
			per.Period = 3
			per.Len = 8 * g.cfg.SegCount * 2
		}
		out = append(out, e1Shard(per, shards)...)
	}
	// parameter sets that differ in exactly one of the components the muxer watches
	for _, kd := range paramDeltas() {
		variant := "fmp4"
		if kd[0] == "h264" && kd[1] == "pps" {
			variant = "mpegts"
		}
		cfg := mcfg(variant, false, 3, kd[0])
		cfg.ParamDelta = kd[1]
		sc := e1Scen{Prop: prop, Cfg: cfg, Alpha: alphaParams(0), Depth: depth - 1, Mode: "tree", Name: "param-delta-tree"}
		out = append(out, sc)
	}
	llp := mcfg("ll", false, 7, "h264")
	llp.ParamDelta = "pps"
	out = append(out, e1Scen{Prop: prop, Cfg: llp, Alpha: alphaParams(0), Depth: depth - 1, Mode: "tree", Name: "param-delta-tree"})
	// long groups of pictures with one audio access unit per write: more than a hundred audio writes land in a segment before
	// the next key frame (key frames every 3 s, SegmentMinDuration 1 s)
	for _, variant := range []string{"mpegts", "fmp4", "ll"} {
		cfg := mcfg(variant, false, 3, "h264", "aac44")
		if variant == "ll" {
			cfg.SegCount = 7
		}
		var gop []sym
		for k := 0; k < 3; k++ {
			kind := "n"
			if k == 0 {
				kind = "R"
			}
			gop = append(gop, sym{T: 0, D: "S", K: kind})
			for a := 0; a < 43; a++ {
				gop = append(gop, sym{T: 1, D: "c", N: 1})
			}
		}
		out = append(out, e1Scen{Prop: prop, Cfg: cfg, Alpha: gop, Mode: "long", Len: 5 * len(gop), Name: "long-gop-many-audio-writes"})
	}
	if prop == "C05" || prop == "C01" {
		// access units of 70 kB: a part (and a segment) takes several reads of the copy loop behind every response
		for _, variant := range []string{"mpegts", "fmp4", "ll"} {
			for _, disk := range []bool{false, true} {
				cfg := mcfg(variant, disk, 3, "h264", "aac44")
				if variant == "ll" {
					cfg.SegCount = 7
				}
				word := []sym{{T: 0, D: "q", K: "R", Sz: 70000}, {T: 1, D: "c", N: 5}, {T: 0, D: "q", K: "n", Sz: 70000}, {T: 0, D: "q", K: "n", Sz: 33000}, {T: 1, D: "c", N: 5}, {T: 0, D: "q", K: "n", Sz: 70000}}
				out = append(out, e1Scen{Prop: prop, Cfg: cfg, Alpha: word, Mode: "long", Len: 6 * 6, Name: "large-access-units"})
			}
		}
	}
	if prop == "C05" {
		// what is listed stays fetchable after a Write that failed in the middle of a rotation (the next segment's file
		// could not be created) and after the writer has carried on; Low-Latency is left out: its playlist cannot be
		// served at all in that state (known finding of C18)
		for _, variant := range []string{"mpegts", "fmp4"} {
			for _, tracks := range [][]string{{"h264"}, {"h264", "aac44"}} {
				cfg := mcfg(variant, true, 3, tracks...)
				word := []sym{{T: 0, D: "q", K: "R"}, {T: 0, D: "q", K: "n"}, {T: 0, D: "q", K: "n"}, {T: 0, D: "q", K: "n"}}
				for fa := 1; fa <= 6; fa++ {
					out = append(out, e1Scen{Prop: prop, Cfg: cfg, Alpha: word, Mode: "fault", Len: 4 * (fa + 3), FaultAt: fa, Name: fmt.Sprintf("listed-after-rotation-fault-%d", fa)})
				}
			}
		}
	}
	if prop == "C04" || prop == "C18" || prop == "C03" {
		// fields left at their zero values: Start fills in Low-Latency, 1 s segments, 200 ms parts - and the rules of
		// that variant apply, to SegmentCount too (3..6: Start may refuse; if it accepts, never more than SegmentCount
		// segments are listed)
		for n := 3; n <= 8; n++ {
			cfg := mcfg("ll", n%2 == 0, n, "h264", "aac44")
			cfg.SegMinMS, cfg.PartMS = 1000, 200
			cfg.Defaults, cfg.MayRefuse = true, n < 7
			out = append(out, e1Scen{Prop: prop, Cfg: cfg, Alpha: alphaInterleave(cfg), Mode: "periodic", Period: 2, Len: 6 * 8 * 2, Name: "zero-valued-configuration-periodic"})
		}
	}
	if prop == "C05" {
		// ... and after a Write that failed because the init segment could not be rebuilt from unparsable parameter sets
		// (the finished segment is already listed then): what is listed stays fetchable and unchanged while the writer carries on
		word := []sym{{T: 0, D: "q", K: "R"}, {T: 0, D: "q", K: "n"}, {T: 0, D: "q", K: "n"}, {T: 0, D: "q", K: "n"}}
		for _, disk := range []bool{false, true} {
			for _, codec := range []string{"h264", "h265", "av1"} {
				cfg := mcfg("fmp4", disk, 3, codec)
				for fa := 1; fa <= 5; fa++ {
					out = append(out, e1Scen{Prop: prop, Cfg: cfg, Alpha: word, Mode: "paramfault", Len: 4 * (fa + 6), FaultAt: fa, Name: fmt.Sprintf("listed-after-bad-parameter-sets-%d", fa)})
				}
			}
		}
	}
	if prop == "C04" || prop == "C03" {
		// NTSC video (3003 ticks per frame, 30-frame groups of pictures) next to 44.1 kHz audio: segment boundaries that are
		// not on a tick of the audio clock; every stream lists the same durations for the same sequence number
		for _, variant := range []string{"fmp4", "ll"} {
			cfg := mcfg(variant, false, 3, "h264", "aac44")
			if variant == "ll" {
				cfg.SegCount = 7
			}
			var gop []sym
			for t, n := range []int{4, 4, 5, 4, 4, 5, 4, 4, 5, 4} {
				for k := 0; k < 3; k++ {
					kind := "n"
					if t == 0 && k == 0 {
						kind = "R"
					}
					gop = append(gop, sym{T: 0, D: "i", K: kind})
				}
				gop = append(gop, sym{T: 1, D: "c", N: n})
			}
			out = append(out, e1Scen{Prop: prop, Cfg: cfg, Alpha: gop, Mode: "long", Len: 16 * len(gop), Name: "ntsc-video-44k-audio"})
		}
	}
	if prop == "C04" {
		// a user query string that is not in canonical form (keys out of order, an escape): every view of the history
		// - plain reloads, delta updates - spells the URI of a media sequence number the same way
		for _, q := range []string{"user=myuser&pass=mypass", "b=2&a=1%20x", "token"} {
			cfg := mcfg("ll", false, 7, "h264")
			out = append(out, e1Scen{Prop: prop, Cfg: cfg, Alpha: alphaTiming(0), Mode: "periodic", Period: 2, Len: 6 * 7 * 2, Query: q, Name: "query-periodic"})
		}
	}
	if prop == "C04" {
		// the numbering clauses hold whatever happens to a Write: a rotation that fails on storage (the next segment's
		// file cannot be created), and random-access units whose parameter sets cannot be parsed, so that the Write that
		// has to build the init segment from them fails; the writer carries on in both cases. Low-Latency is left
		// out: its playlist cannot be served at all after a failed rotation (known finding of C18, which runs these
		// Low-Latency scenarios)
		word := []sym{{T: 0, D: "q", K: "R"}, {T: 0, D: "q", K: "n"}, {T: 0, D: "q", K: "n"}, {T: 0, D: "q", K: "n"}}
		for _, variant := range []string{"mpegts", "fmp4"} {
			for _, cfg := range []muxCfg{mcfg(variant, true, 3, "h264"), mcfg(variant, true, 3, "h264", "aac44")} {
				for fa := 1; fa <= 6; fa++ {
					out = append(out, e1Scen{Prop: prop, Cfg: cfg, Alpha: word, Mode: "fault", Len: 4 * (fa + 5), FaultAt: fa, Name: fmt.Sprintf("numbering-after-rotation-fault-%d", fa)})
				}
			}
		}
		// Low-Latency, one stream: observed again from the Write after the failed one on (the open segment exists again)
		for fa := 1; fa <= 9; fa++ {
			cfg := mcfg("ll", true, 7, "h264")
			out = append(out, e1Scen{Prop: prop, Cfg: cfg, Alpha: word, Mode: "fault", Len: 4 * (fa + 9), FaultAt: fa, Name: fmt.Sprintf("numbering-after-rotation-fault-%d", fa)})
		}
		for _, variant := range []string{"mpegts", "fmp4"} {
			for _, codec := range []string{"h264", "h265", "av1"} {
				if variant == "mpegts" && codec != "h264" {
					continue
				}
				n := 3
				for _, cfg := range []muxCfg{mcfg(variant, false, n, codec), mcfg(variant, false, n, codec, "aac44")} {
					for fa := 1; fa <= 6; fa++ {
						out = append(out, e1Scen{Prop: prop, Cfg: cfg, Alpha: word, Mode: "paramfault", Len: 4 * (fa + 6), FaultAt: fa, Name: fmt.Sprintf("numbering-after-bad-parameter-sets-%d", fa)})
					}
				}
			}
		}
	}
	// audio-only MPEG-TS starts a new segment only after 100 writes: periodic words long enough for four segments
	tsa := mcfg("mpegts", false, 3, "aac44")
	per := e1Scen{Prop: prop, Cfg: tsa, Alpha: alphaAudio(tsa), Mode: "periodic", Period: 2, Len: 430, Name: "ts-audio-only-periodic"}
	out = append(out, e1Shard(per, shards)...)
	// the same with time stamps on a clock that is not the sample rate (90 kHz for 48 kHz audio)
	tsa90 := mcfg("mpegts", false, 3, "aac48k90")
	out = append(out, e1Scen{Prop: prop, Cfg: tsa90, Alpha: alphaAudio(tsa90)[:2], Mode: "periodic", Period: 2, Len: 330, Name: "ts-audio-only-other-clock-periodic"})
	// the same with 16 kHz audio and SegmentMinDuration = 100 access units exactly (6.4 s): the duration condition is met
	// with equality at the very write that meets the count condition
	tsa16 := mcfg("mpegts", false, 3, "aac16")
	tsa16.SegMinMS = 6400
	out = append(out, e1Scen{Prop: prop, Cfg: tsa16, Alpha: alphaAudio(tsa16)[:2], Mode: "periodic", Period: 2, Len: 330, Name: "ts-audio-only-boundary-periodic"})
	return out
}

// c05AfterClose: the clause "at the moment a playlist is served, every URI in it can be fetched" also covers the
// moment right after Close: a media playlist that is still answered with 200 then must not list what Close has removed.
func c05AfterClose(r *e1run) {
	if r.closed || r.faulted || len(r.steps) == 0 || !r.steps[len(r.steps)-1].avail {
		return
	}
	inBubble(e1T, func() {
		m := r.mi.m
		r.closed = true
		m.Close()
		for _, s := range m.streams {
			path := mediaPlaylistPath(s.id)
			rr, blocked := r.probe(path)
			if blocked || rr == nil || rr.Status != 200 {
				continue // not served (what a request after Close gets is C07's subject)
			}
			mp, _, _ := m3u.Parse(rr.Body.Bytes(), m3u.Options{})
			if mp == nil {
				continue
			}
			var uris []string
			if mp.HasMap {
				uris = append(uris, mp.MapURI)
			}
			for _, sg := range mp.Segments {
				if !sg.Gap {
					uris = append(uris, sg.URI)
				}
				for _, pt := range sg.Parts {
					uris = append(uris, pt.URI)
				}
			}
			for _, u := range uris {
				fr, fblocked := r.probe(u)
				if fblocked || fr == nil || fr.Status != 200 || fr.Body.Len() == 0 {
					st := -1
					if fr != nil {
						st = fr.Status
					}
					r.add("C05", "listed-uri-not-200-after-close", "after Close %s is still served with status 200 and lists %s, which cannot be fetched (status %d, blocked=%v); ops %s", canon(path), canon(u), st, fblocked, r.opsString())
					return
				}
			}
		}
	})
}

func init() {
	e1Hooks["C05"] = func(r *e1run) { r.finalHook = c05AfterClose }
}
