//go:build verif

package gohlslib

import (
	"testing"

	"github.com/bluenviron/gohlslib/v2/internal/zzverif/vh"
)

var verifProps = map[string]vh.Prop{}

func TestVerif(t *testing.T) {
	vh.Main(t, verifProps)
}

// lockHeld reports whether a (cooperative) mutex is held; always false for real sync primitives (free-running build).
func lockHeld(m any) bool {
	if h, ok := m.(interface{ Held() bool }); ok {
		return h.Held()
	}
	return false
}
