//go:build verif

package gohlslib

// Shared toolkit of the muxer harnesses: configurations, fresh tracks per execution (the muxer mutates
// Track.Codec in place), deterministic unit payloads for every codec, in-process requests.

import (
	"bytes"
	"errors"
	"fmt"
	"net/http"
	"net/url"
	"regexp"
	"strconv"
	"strings"
	"time"

	"github.com/bluenviron/gohlslib/v2/internal/zzverif/vsched"
	"github.com/bluenviron/gohlslib/v2/pkg/codecs"
	"github.com/bluenviron/mediacommon/v2/pkg/codecs/h264"
	"github.com/bluenviron/mediacommon/v2/pkg/codecs/mpeg4audio"
)

// ---- parameter sets with known ground truth (mediacommon's own test vectors) ----

type paramSet struct {
	sps, pps, vps []byte // h264 / h265
	seqHdr        []byte // av1
	keyHdr        []byte // vp9 key frame header
	width, height int
	fps           string // as FRAME-RATE would print it, "" if none
	codecStr      string // RFC 6381
	// vp9 (generated headers): the fields the muxer tracks
	profile, bitDepth, chroma int
	colorRange                bool
}

// vp9Key builds the uncompressed header of a VP9 key frame (up to frame_size; the rest is payload).
func vp9Key(profile int, twelveBit bool, colorRange bool, ssx, ssy bool, width, height int) paramSet {
	w := &bitWriter{}
	w.bits(2, 2) // frame_marker
	w.bit(uint32(profile & 1))
	w.bit(uint32(profile >> 1))
	if profile == 3 {
		w.bit(0)
	}
	w.bit(0) // show_existing_frame
	w.bit(0) // frame_type: key frame
	w.bit(1) // show_frame
	w.bit(0) // error_resilient_mode
	w.bits(0x498342, 24)
	depth := 8
	if profile >= 2 {
		depth = 10
		if twelveBit {
			w.bit(1)
			depth = 12
		} else {
			w.bit(0)
		}
	}
	w.bits(2, 3) // color_space BT.709
	if colorRange {
		w.bit(1)
	} else {
		w.bit(0)
	}
	chroma := 1
	if profile == 1 || profile == 3 {
		b := func(v bool) uint32 {
			if v {
				return 1
			}
			return 0
		}
		w.bit(b(ssx))
		w.bit(b(ssy))
		w.bit(0)
		switch {
		case !ssx && !ssy:
			chroma = 3
		case ssx && !ssy:
			chroma = 2
		}
	}
	w.bits(uint32(width-1), 16)
	w.bits(uint32(height-1), 16)
	w.bits(0, 7)
	return paramSet{keyHdr: append(w.b, 0x00), width: width, height: height, profile: profile, bitDepth: depth, chroma: chroma, colorRange: colorRange}
}

// pset returns parameter set p (0 or 1) of a video track kind for this configuration. ParamDelta selects pairs of sets
// that differ in exactly one of the components the muxer watches ("" = the two reference sets, which differ in all).
func (c muxCfg) pset(kind string, p int) paramSet {
	switch kind {
	case "h264", "h264b", "h264k", "h264bk":
		base := h264ParamsOf(kind)
		out := base[0]
		if p == 1 {
			switch c.ParamDelta {
			case "pps":
				out.pps = base[1].pps
			case "sps":
				out = base[1]
				out.pps = base[0].pps
			case "constraint":
				// the same SPS with constraint_set4_flag and constraint_set5_flag set as well (the whole constraint byte belongs to
				// the RFC 6381 string)
				out = base[0]
				out.sps = bytes.Clone(out.sps)
				out.sps[2] |= 0x0c
				out.codecStr = fmt.Sprintf("avc1.%02x%02x%02x", out.sps[1], out.sps[2], out.sps[3])
			case "notiming":
				// a minimal SPS without VUI (no timing info, so no frame rate): Baseline 3.0, 352x288, written out bit by bit:
				// sps_id 0, log2_max_frame_num 4, poc type 2, 1 reference frame, 22x18 macroblocks, frame_mbs_only, no cropping, no VUI
				out = paramSet{sps: []byte{0x67, 0x42, 0xc0, 0x1e, 0xda, 0x05, 0x82, 0x59}, pps: base[0].pps, width: 352, height: 288, fps: "", codecStr: "avc1.42c01e"}
			default:
				out = base[1]
			}
		}
		return out
	case "h265b":
		out := h265bParams
		if p == 1 {
			out.vps = bytes.Clone(out.vps)
			out.vps[len(out.vps)-1] ^= 0x10 // the decode-time derivation reads the SPS and PPS only
		}
		return out
	case "h265":
		out := h265Params[0]
		if p == 1 {
			switch c.ParamDelta {
			case "vps":
				out.vps = h265Params[1].vps
			case "pps":
				out.pps = []byte{0x44, 0x01, 0xc1, 0x72, 0xb4, 0x62, 0x41}
			case "sps":
				out = h265Params[1]
				out.vps, out.pps = h265Params[0].vps, h265Params[0].pps
			default:
				out = h265Params[1]
			}
		}
		return out
	case "av1":
		if c.ParamDelta == "color" && p == 1 {
			return av1HDRParams
		}
		return av1Params[p]
	case "vp9":
		switch c.ParamDelta {
		case "width":
			return vp9Key(0, false, false, true, true, []int{1920, 1280}[p], 804)
		case "height":
			return vp9Key(0, false, false, true, true, 1920, []int{804, 1080}[p])
		case "profile":
			return vp9Key(p, false, false, true, true, 1920, 804) // profile 1 with 4:2:0: same chroma format
		case "bitdepth":
			return vp9Key(2, p == 1, false, true, true, 1920, 804)
		case "chroma":
			return vp9Key(1, false, false, true, p == 0, 1920, 804)
		case "range":
			return vp9Key(0, false, p == 1, true, true, 1920, 804)
		case "width+fullrange": // both sets full range, profile 1 with 4:4:4: every field differs from the type's zero value
			return vp9Key(1, false, true, false, false, []int{1920, 1280}[p], 804)
		}
		ps := vp9Params[p]
		ps.profile, ps.bitDepth, ps.chroma = 0, 8, 1
		return ps
	}
	return paramSet{}
}

var h264Params = []paramSet{
	{sps: []byte{0x67, 0x42, 0xc0, 0x28, 0xd9, 0x00, 0x78, 0x02, 0x27, 0xe5, 0x84, 0x00, 0x00, 0x03, 0x00, 0x04, 0x00, 0x00, 0x03, 0x00, 0xf0, 0x3c, 0x60, 0xc9, 0x20},
		pps: []byte{0x68, 0x01, 0x80}, width: 1920, height: 1080, fps: "30.000", codecStr: "avc1.42c028"}, // one byte longer than the PPS of the second set
	// same stream with another level_idc (3.1 -> different SPS bytes, same geometry)
	{sps: []byte{0x67, 0x42, 0xc0, 0x1f, 0xd9, 0x00, 0x78, 0x02, 0x27, 0xe5, 0x84, 0x00, 0x00, 0x03, 0x00, 0x04, 0x00, 0x00, 0x03, 0x00, 0xf0, 0x3c, 0x60, 0xc9, 0x20},
		pps: []byte{0x68, 0x02}, width: 1920, height: 1080, fps: "30.000", codecStr: "avc1.42c01f"},
}

// High profile, pic_order_cnt_type 0 (log2_max_frame_num 4, log2_max_pic_order_cnt_lsb 6): frames may be reordered and
// the muxer derives the decode time from the picture order count of each slice (kind "h264b").
var h264bParams = []paramSet{
	{sps: []byte{0x67, 0x64, 0x00, 0x28, 0xac, 0xd9, 0x40, 0x78, 0x02, 0x27, 0xe5, 0x84, 0x00, 0x00, 0x03, 0x00, 0x04, 0x00, 0x00, 0x03, 0x00, 0xf0, 0x3c, 0x60, 0xc6, 0x58},
		pps: []byte{0x68, 0xeb, 0xe3, 0xcb, 0x22, 0xc0}, width: 1920, height: 1080, fps: "30.000", codecStr: "avc1.640028"},
	{sps: []byte{0x67, 0x64, 0x00, 0x1f, 0xac, 0xd9, 0x40, 0x78, 0x02, 0x27, 0xe5, 0x84, 0x00, 0x00, 0x03, 0x00, 0x04, 0x00, 0x00, 0x03, 0x00, 0xf0, 0x3c, 0x60, 0xc6, 0x58},
		pps: []byte{0x68, 0xeb, 0xe3, 0xcb, 0x22, 0xc1}, width: 1920, height: 1080, fps: "30.000", codecStr: "avc1.64001f"},
}

const (
	h264bLog2FrameNum = 4
	h264bLog2POC      = 6
)

func init() {
	for _, p := range h264bParams {
		var sp h264.SPS
		if err := sp.Unmarshal(p.sps); err != nil || sp.PicOrderCntType != 0 || !sp.FrameMbsOnlyFlag ||
			sp.Log2MaxFrameNumMinus4+4 != h264bLog2FrameNum || sp.Log2MaxPicOrderCntLsbMinus4+4 != h264bLog2POC {
			panic(fmt.Sprintf("h264bParams: unexpected SPS contents: %v %+v", err, sp))
		}
	}
}

func isH264(kind string) bool {
	return kind == "h264" || kind == "h264b" || kind == "h264k" || kind == "h264bk"
}

// isH264B: H264 with reordered frames (h264bk: on a millisecond clock, MPEG-TS only).
func isH264B(kind string) bool { return kind == "h264b" || kind == "h264bk" }

func h264ParamsOf(kind string) []paramSet {
	if isH264B(kind) {
		return h264bParams
	}
	return h264Params
}

type bitWriter struct {
	b []byte
	n int
}

func (w *bitWriter) bit(v uint32) {
	if w.n%8 == 0 {
		w.b = append(w.b, 0)
	}
	if v&1 != 0 {
		w.b[len(w.b)-1] |= 1 << (7 - uint(w.n%8))
	}
	w.n++
}

func (w *bitWriter) bits(v uint32, n int) {
	for i := n - 1; i >= 0; i-- {
		w.bit(v >> uint(i))
	}
}

func (w *bitWriter) ue(v uint32) {
	v++
	n := 0
	for x := v; x > 1; x >>= 1 {
		n++
	}
	w.bits(0, n)
	w.bits(v, n+1)
}

// h264bSlice builds a slice NALU whose header carries pic_order_cnt_lsb = poc (the rest of the NALU is the payload tail).
func h264bSlice(idr bool, poc uint32, tail []byte) []byte {
	w := &bitWriter{}
	w.ue(0) // first_mb_in_slice
	w.ue(7) // slice_type
	w.ue(0) // pic_parameter_set_id
	w.bits(0, h264bLog2FrameNum)
	if idr {
		w.ue(0) // idr_pic_id
	}
	w.bits(poc&(1<<h264bLog2POC-1), h264bLog2POC)
	w.bit(1)
	hdr := byte(0x41)
	if idr {
		hdr = 0x65
	}
	return append(append([]byte{hdr}, w.b...), tail...)
}

var h265Params = []paramSet{
	{vps: []byte{0x40, 0x01, 0x0c, 0x01}, pps: []byte{0x44, 0x01, 0xc1, 0x72, 0xb4, 0x62, 0x40},
		sps:   []byte{0x42, 0x01, 0x01, 0x04, 0x08, 0x00, 0x00, 0x03, 0x00, 0x98, 0x08, 0x00, 0x00, 0x03, 0x00, 0x00, 0x5d, 0x90, 0x00, 0x50, 0x10, 0x05, 0xa2, 0x29, 0x4b, 0x74, 0x94, 0x98, 0x5f, 0xfe, 0x00, 0x02, 0x00, 0x02, 0xd4, 0x04, 0x04, 0x04, 0x10, 0x00, 0x00, 0x03, 0x00, 0x10, 0x00, 0x00, 0x03, 0x01, 0xe0, 0x80},
		width: 1280, height: 720},
	{vps: []byte{0x40, 0x01, 0x0c, 0x02}, pps: []byte{0x44, 0x01, 0xc1, 0x72, 0xb4, 0x62, 0x40},
		sps:   []byte{0x42, 0x01, 0x01, 0x01, 0x40, 0x00, 0x00, 0x03, 0x00, 0x00, 0x03, 0x00, 0x00, 0x03, 0x00, 0x00, 0x03, 0x00, 0x7b, 0xa0, 0x03, 0xc0, 0x80, 0x11, 0x07, 0xcb, 0x96, 0xb4, 0xa4, 0x25, 0x92, 0xe3, 0x01, 0x6a, 0x02, 0x02, 0x02, 0x08, 0x00, 0x00, 0x03, 0x00, 0x08, 0x00, 0x00, 0x03, 0x01, 0xe3, 0x00, 0x2e, 0xf2, 0x88, 0x00, 0x07, 0x27, 0x0c, 0x00, 0x00, 0x98, 0x96, 0x82},
		width: 1920, height: 1080, fps: "60.000"},
}

// H265 with reordered pictures (kind "h265b"): parameter sets (sps_max_num_reorder_pics = 2, VUI timing 30 fps) and
// slice headers of mediacommon's DTS-extractor test stream. The decode time the muxer derives for an access unit is its
// presentation time minus a number of frames that depends on the slice header alone: 2 for an IDR, 4 for the first
// kind of TRAIL_R slice ("P"), 2 for the second ("B"), 0 for the TRAIL_N slice ("b").
var h265bParams = paramSet{
	vps: []byte{0x40, 0x01, 0x0c, 0x01, 0xff, 0xff, 0x01, 0x60, 0x00, 0x00, 0x03, 0x00, 0x90, 0x00, 0x00, 0x03, 0x00, 0x00, 0x03, 0x00, 0x78, 0x99, 0x98, 0x09},
	sps: []byte{0x42, 0x01, 0x01, 0x01, 0x60, 0x00, 0x00, 0x03, 0x00, 0x90, 0x00, 0x00, 0x03, 0x00, 0x00, 0x03, 0x00, 0x78, 0xa0, 0x03, 0xc0, 0x80, 0x10, 0xe5,
		0x96, 0x66, 0x69, 0x24, 0xca, 0xe0, 0x10, 0x00, 0x00, 0x03, 0x00, 0x10, 0x00, 0x00, 0x03, 0x01, 0xe0, 0x80},
	pps:   []byte{0x44, 0x01, 0xc1, 0x72, 0xb4, 0x62, 0x40},
	width: 1920, height: 1080,
}

var h265bSlices = [4][]byte{
	{0x26, 0x01, 0xaf, 0x08, 0x42, 0x23, 0x48, 0x8a, 0x43, 0xe2},                                                             // IDR_W_RADL
	{0x02, 0x01, 0xd0, 0x19, 0x5f, 0x8c, 0xb4, 0x42, 0x49, 0x20, 0x40, 0x11, 0x16, 0x92, 0x93, 0xea, 0x54, 0x57, 0x4e, 0x0a}, // TRAIL_R, 4 frames
	{0x02, 0x01, 0xe0, 0x44, 0x97, 0xe0, 0x81, 0x20, 0x44, 0x52, 0x62, 0x7a, 0x1b, 0x88, 0x0b, 0x21, 0x26, 0x5f, 0x10, 0x9c}, // TRAIL_R, 2 frames
	{0x00, 0x01, 0xe0, 0x24, 0xff, 0xfa, 0x24, 0x0a, 0x42, 0x25, 0x8c, 0x18, 0xe6, 0x1c, 0xea, 0x5a, 0x5d, 0x07, 0xc1, 0x8f}, // TRAIL_N, 0 frames
}

// h265bLag is the number of 90 kHz ticks by which the presentation time of a slice of kind k exceeds its decode time.
var h265bLag = [4]int64{6000, 12000, 6000, 0}

func isH265(kind string) bool { return kind == "h265" || kind == "h265b" }

var av1Params = []paramSet{
	{seqHdr: []byte{8, 0, 0, 0, 66, 167, 191, 228, 96, 13, 0, 64}, width: 1920, height: 804},
	{seqHdr: []byte{0x8, 0x0, 0x0, 0x0, 0x42, 0xab, 0xbf, 0xc3, 0x71, 0xab, 0xe6, 0x1}, width: 1920, height: 1080},
}

// av1HDRParams: main profile, level index 14, 8 bit 4:2:0, colour description present with primaries 9 (BT.2020), transfer
// characteristics 16 (PQ), matrix coefficients 9 - three values that differ from one another, so their order in CODECS shows.
var av1HDRParams = paramSet{seqHdr: []byte{
	0x08, 0x04, 0x00, 0x00, 0x00, 0x04, 0x00, 0x00, 0x00, 0xf3, 0x00, 0x00, 0x0e, 0x55, 0x77, 0xf8,
	0x73, 0xd0, 0x02, 0x7d, 0x10, 0x91, 0x00, 0x90, 0x40,
}, width: 1920, height: 1082}

var vp9Params = []paramSet{
	{keyHdr: []byte{0x82, 0x49, 0x83, 0x42, 0x00, 0x77, 0xf0, 0x32, 0x34, 0x30, 0x38, 0x24, 0x1c, 0x19, 0x40, 0x18, 0x03, 0x40, 0x5f, 0xb4}, width: 1920, height: 804},
	{keyHdr: []byte{0x82, 0x49, 0x83, 0x42, 0x40, 0xef, 0xf0, 0x86, 0xf4, 0x04, 0x21, 0xa0, 0xe0, 0x00, 0x30, 0x70, 0x00, 0x00, 0x00, 0x01}, width: 3840, height: 2160},
}

// ---- configuration ----

type trackSpec struct {
	Kind    string `json:"kind"` // h264 h264b h265 h265b vp9 av1 aac44 aac48 aac16 aacsbr opus
	Name    string `json:"name,omitempty"`
	Lang    string `json:"lang,omitempty"`
	Default bool   `json:"default,omitempty"`
}

func (t trackSpec) video() bool {
	switch t.Kind {
	case "h264", "h264b", "h264k", "h264bk", "h265", "h265b", "vp9", "av1":
		return true
	}
	return false
}

func (t trackSpec) clock() int {
	switch t.Kind {
	case "aac44":
		return 44100
	case "aac48", "opus", "aacps":
		return 48000
	case "aac16":
		return 16000
	case "aac48k90": // 48 kHz AAC with time stamps on a 90 kHz clock (MPEG-TS only: the muxer rescales)
		return 90000
	case "h264k", "h264bk": // H264 on a millisecond clock (MPEG-TS only: the muxer rescales to 90 kHz; fMP4 tracks keep their timescale)
		return 1000
	case "aacsbr": // HE-AAC, explicit SBR signalling: 24 kHz core (the track's clock and timescale), 48 kHz extension
		return 24000
	}
	return 90000
}

type muxCfg struct {
	Variant   string      `json:"variant"` // mpegts fmp4 ll
	Tracks    []trackSpec `json:"tracks"`
	SegCount  int         `json:"seg_count"`
	SegMinMS  int         `json:"seg_min_ms"`
	PartMS    int         `json:"part_min_ms"`
	Disk      bool        `json:"disk,omitempty"`
	MaxSize   uint64      `json:"max_size,omitempty"`
	Filler    bool        `json:"filler,omitempty"`      // h264: the extra payload bytes of a unit travel in a filler data NAL unit (type 12), as constant-bit-rate encoders emit them
	OpusTicks int         `json:"opus_ticks,omitempty"`  // Opus packet duration in 48 kHz ticks (default 960 = 20 ms)
	NTPStepMS int         `json:"ntp_step_ms,omitempty"` // the publisher's clock is stepped once per second of media: units of second k carry NTP = T0 + time + k*k*NTPStepMS ms
	OpusMix   bool        `json:"opus_mix,omitempty"`    // packet k of one WriteOpus call lasts 20, 10, 40 ms (k mod 3)
	// ParamDelta: the two video parameter sets of the writer differ in exactly this component (h264: sps pps; h265: vps sps
	// pps; vp9: width height profile bitdepth chroma range); "" = the reference sets, which differ in every component
	ParamDelta string `json:"param_delta,omitempty"`
	// Defaults: Variant, SegmentMinDuration and PartMinDuration are left at their zero values, so that Start fills in the
	// documented defaults (Low-Latency, 1 s, 200 ms - which is what Variant / SegMinMS / PartMS of this configuration say);
	// MayRefuse: Start may refuse the configuration (then there is nothing to check)
	Defaults  bool `json:"defaults,omitempty"`
	MayRefuse bool `json:"may_refuse,omitempty"`
}

// opusDur is the duration in 48 kHz ticks of packet k of one WriteOpus call.
func (c muxCfg) opusDur(k int) int64 {
	if c.OpusMix {
		return [3]int64{960, 480, 1920}[k%3]
	}
	if c.OpusTicks != 0 {
		return int64(c.OpusTicks)
	}
	return 960
}

// audioSpan is the duration in clock ticks of the first n access units of one audio write on track t.
func (c muxCfg) audioSpan(t trackSpec, n int) int64 {
	if t.Kind == "aac48k90" {
		return int64(n) * 1920 // 1024 samples at 48 kHz on the 90 kHz clock
	}
	if t.Kind != "opus" {
		return int64(n) * 1024
	}
	var d int64
	for k := 0; k < n; k++ {
		d += c.opusDur(k)
	}
	return d
}

func (c muxCfg) String() string {
	var ts []string
	for _, t := range c.Tracks {
		s := t.Kind
		if t.Default {
			s += "*"
		}
		if t.Name != "" || t.Lang != "" {
			s += "(" + t.Name + "/" + t.Lang + ")"
		}
		ts = append(ts, s)
	}
	d := "ram"
	if c.Disk {
		d = "disk"
	}
	s := fmt.Sprintf("%s[%s] n=%d S=%dms P=%dms %s", c.Variant, strings.Join(ts, "+"), c.SegCount, c.SegMinMS, c.PartMS, d)
	if c.MaxSize != 0 {
		s += fmt.Sprintf(" max=%d", c.MaxSize)
	}
	if c.Filler {
		s += " filler"
	}
	if c.NTPStepMS != 0 {
		s += fmt.Sprintf(" ntp-step=%dms", c.NTPStepMS)
	}
	if c.OpusMix {
		s += " opus-mix"
	}
	if c.Defaults {
		s += " zero-valued-fields"
	}
	if c.ParamDelta != "" {
		s += " delta=" + c.ParamDelta
	}
	return s
}

func (c muxCfg) variant() MuxerVariant {
	switch c.Variant {
	case "mpegts":
		return MuxerVariantMPEGTS
	case "fmp4":
		return MuxerVariantFMP4
	}
	return MuxerVariantLowLatency
}

// leading returns the index of the leading track.
func (c muxCfg) leading() int {
	for i, t := range c.Tracks {
		if t.video() {
			return i
		}
	}
	return 0
}

func newTrack(t trackSpec) *Track { return newTrackCfg(muxCfg{}, t) }

func newTrackCfg(c muxCfg, t trackSpec) *Track {
	tr := &Track{ClockRate: t.clock(), Name: t.Name, Language: t.Lang, IsDefault: t.Default}
	if c.ParamDelta != "" && t.Kind == "vp9" {
		ps := c.pset("vp9", 0)
		tr.Codec = &codecs.VP9{Width: ps.width, Height: ps.height, Profile: uint8(ps.profile), BitDepth: uint8(ps.bitDepth), ChromaSubsampling: uint8(ps.chroma), ColorRange: ps.colorRange}
		return tr
	}
	switch t.Kind {
	case "h264", "h264k":
		tr.Codec = &codecs.H264{SPS: bytes.Clone(h264Params[0].sps), PPS: bytes.Clone(h264Params[0].pps)}
	case "h264b", "h264bk":
		tr.Codec = &codecs.H264{SPS: bytes.Clone(h264bParams[0].sps), PPS: bytes.Clone(h264bParams[0].pps)}
	case "h265":
		tr.Codec = &codecs.H265{VPS: bytes.Clone(h265Params[0].vps), SPS: bytes.Clone(h265Params[0].sps), PPS: bytes.Clone(h265Params[0].pps)}
	case "h265b":
		tr.Codec = &codecs.H265{VPS: bytes.Clone(h265bParams.vps), SPS: bytes.Clone(h265bParams.sps), PPS: bytes.Clone(h265bParams.pps)}
	case "av1":
		tr.Codec = &codecs.AV1{SequenceHeader: bytes.Clone(av1Params[0].seqHdr)}
	case "vp9":
		tr.Codec = &codecs.VP9{Width: 1920, Height: 804, Profile: 0, BitDepth: 8, ChromaSubsampling: 1, ColorRange: false}
	case "aac44", "aac48", "aac16":
		tr.Codec = &codecs.MPEG4Audio{Config: mpeg4audio.Config{Type: 2, SampleRate: t.clock(), ChannelCount: 2}}
	case "aac48k90":
		tr.Codec = &codecs.MPEG4Audio{Config: mpeg4audio.Config{Type: 2, SampleRate: 48000, ChannelCount: 2}}
	case "aacps": // audio object type 29 (parametric stereo) given as the main type: another RFC 6381 string, mp4a.40.29
		tr.Codec = &codecs.MPEG4Audio{Config: mpeg4audio.Config{Type: 29, SampleRate: t.clock(), ChannelCount: 2}}
	case "aacsbr":
		tr.Codec = &codecs.MPEG4Audio{Config: mpeg4audio.Config{Type: 2, SampleRate: t.clock(), ChannelCount: 2,
			ExtensionType: mpeg4audio.ObjectTypeSBR, ExtensionSampleRate: 2 * t.clock()}}
	case "opus":
		tr.Codec = &codecs.Opus{ChannelCount: 2}
	}
	return tr
}

type muxInst struct {
	cfg     muxCfg
	m       *Muxer
	tracks  []*Track
	dir     string
	encErrs []string
	vparam  int // parameter-set version currently in use by the writer (video)
	// onEncodeError, if set, runs inside the user's OnEncodeError callback (on the writer goroutine)
	onEncodeError func(err error)
}

func newMux(cfg muxCfg, dir string) (*muxInst, error) {
	mi := &muxInst{cfg: cfg, dir: dir}
	for _, t := range cfg.Tracks {
		mi.tracks = append(mi.tracks, newTrackCfg(cfg, t))
	}
	mi.m = &Muxer{
		Variant:            cfg.variant(),
		Tracks:             mi.tracks,
		SegmentCount:       cfg.SegCount,
		SegmentMinDuration: time.Duration(cfg.SegMinMS) * time.Millisecond,
		PartMinDuration:    time.Duration(cfg.PartMS) * time.Millisecond,
		SegmentMaxSize:     cfg.MaxSize,
		OnEncodeError: func(err error) {
			mi.encErrs = append(mi.encErrs, err.Error())
			if mi.onEncodeError != nil {
				mi.onEncodeError(err)
			}
		},
	}
	if cfg.Defaults {
		mi.m.Variant, mi.m.SegmentMinDuration, mi.m.PartMinDuration = 0, 0, 0
	}
	if cfg.Disk {
		mi.m.Directory = dir
	}
	if err := mi.m.Start(); err != nil {
		return nil, err
	}
	return mi, nil
}

// ---- units ----

// wunit is one Write call.
type wunit struct {
	Track   int   `json:"t"`
	DTS     int64 `json:"dts"`               // in the track's clock rate (pts == dts unless PTSOff)
	RA      bool  `json:"ra,omitempty"`      // video: random access unit
	Params  int   `json:"p,omitempty"`       // video: 0 none inline, 1 current parameter set inline, 2 switch to the other parameter set (inline)
	NAU     int   `json:"n,omitempty"`       // audio: access units / packets in this write (default 1)
	NoSlice bool  `json:"noslice,omitempty"` // h264 / h265: the access unit carries parameter sets only (the muxer takes note of them and drops the unit)
	POC     int   `json:"poc,omitempty"`     // h264b: picture order count of the frame; h265b: slice kind (0 IDR, 1 P, 2 B, 3 b); DTS is then the *presentation* time passed to Write
	Corrupt bool  `json:"corrupt,omitempty"` // video: the unit carries parameter sets of the right type that cannot be parsed (h264 h265 av1)
	Seq     int   `json:"seq"`               // unique id, encoded in the payload
	Size    int   `json:"size,omitempty"`    // extra payload bytes
}

var verifT0 = time.Date(2023, 5, 17, 10, 20, 30, 123_000_000, time.FixedZone("X", 2*3600))

func (mi *muxInst) ntpOf(u wunit) time.Time {
	clock := int64(mi.cfg.Tracks[u.Track].clock())
	t := verifT0.Add(time.Duration(u.DTS/clock)*time.Second + time.Duration(u.DTS%clock)*time.Second/time.Duration(clock))
	if mi.cfg.NTPStepMS != 0 && u.DTS >= 0 {
		k := u.DTS / clock
		t = t.Add(time.Duration(k*k*int64(mi.cfg.NTPStepMS)) * time.Millisecond)
	}
	return t
}

func payloadTail(u wunit, k int) []byte {
	b := []byte{byte(u.Seq >> 8), byte(u.Seq), byte(u.Track), byte(k)}
	for i := 0; i < u.Size; i++ {
		b = append(b, byte(0x80+i%100))
	}
	return b
}

// videoNALUs builds the access unit / temporal unit / frame of a video write. It also returns the parameter set now in use.
func (mi *muxInst) videoData(u wunit) [][]byte {
	kind := mi.cfg.Tracks[u.Track].Kind
	if u.Params == 2 {
		mi.vparam = 1 - mi.vparam
	}
	p := mi.vparam
	var au [][]byte
	if u.Corrupt {
		// a parameter set NALU / OBU of the right type whose contents end too early; the picture itself is in order
		switch kind {
		case "h264", "h264k":
			return [][]byte{{0x67, 0x42}, mi.cfg.pset(kind, p).pps, append([]byte{0x65}, payloadTail(u, 0)...)}
		case "h265":
			return [][]byte{mi.cfg.pset(kind, p).vps, {0x42, 0x01, 0x01}, mi.cfg.pset(kind, p).pps, append([]byte{19 << 1, 0x01}, payloadTail(u, 0)...)}
		case "av1":
			return [][]byte{{0x0a, 0x01, 0xff}, append([]byte{6 << 3}, payloadTail(u, 0)...)}
		}
	}
	if u.NoSlice {
		ps := mi.cfg.pset(kind, p)
		switch kind {
		case "h264", "h264b", "h264k", "h264bk":
			return [][]byte{ps.sps, ps.pps}
		case "h265", "h265b":
			return [][]byte{ps.vps, ps.sps, ps.pps}
		}
	}
	switch kind {
	case "h264b", "h264bk":
		if u.Params != 0 {
			au = append(au, mi.cfg.pset(kind, p).sps, mi.cfg.pset(kind, p).pps)
		}
		au = append(au, h264bSlice(u.RA, uint32(u.POC), append([]byte{0xff}, payloadTail(u, 0)...)))
	case "h264", "h264k":
		if u.Params != 0 {
			au = append(au, mi.cfg.pset(kind, p).sps, mi.cfg.pset(kind, p).pps)
		}
		if u.RA {
			au = append(au, append([]byte{0x65}, payloadTail(u, 0)...))
		} else {
			if u.Seq%4 == 3 {
				// every fourth ordinary picture starts with an access unit delimiter, as encoders and MPEG-TS sources deliver them
				au = append(au, []byte{0x09, 0xf0})
			}
			if u.Seq%3 == 1 {
				// every third ordinary picture comes with an SEI NAL unit carrying a recovery_point message (open-GOP
				// encoders mark the pictures a decoder could start from this way): it is not an IDR picture all the same
				au = append(au, []byte{0x06, 0x06, 0x01, 0xc4, 0x80})
			}
			au = append(au, append([]byte{0x41}, payloadTail(u, 0)...))
		}
		if mi.cfg.Filler && u.Size > 0 {
			// the same number of bytes, but as stuffing behind a picture without extra payload
			last := len(au) - 1
			au[last] = au[last][:len(au[last])-u.Size]
			au = append(au, append([]byte{0x0c}, bytes.Repeat([]byte{0xff}, u.Size-1)...))
		}
	case "h265b":
		if u.Params != 0 {
			au = append(au, mi.cfg.pset(kind, p).vps, mi.cfg.pset(kind, p).sps, mi.cfg.pset(kind, p).pps)
		}
		// u.POC selects the slice header; the payload tail follows the bytes the decode-time derivation reads
		au = append(au, append(bytes.Clone(h265bSlices[u.POC]), payloadTail(u, 0)...))
	case "h265":
		if u.Params != 0 {
			au = append(au, mi.cfg.pset(kind, p).vps, mi.cfg.pset(kind, p).sps, mi.cfg.pset(kind, p).pps)
		}
		if u.RA {
			// every kind of random-access picture: IDR_W_RADL, IDR_N_LP, CRA_NUT
			au = append(au, append([]byte{byte([3]int{19, 20, 21}[u.Seq%3]) << 1, 0x01}, payloadTail(u, 0)...))
		} else {
			// every kind of picture that is not a random-access point: TRAIL, TSA, STSA, RADL, RASL (_N and _R)
			au = append(au, append([]byte{byte([10]int{1, 0, 3, 2, 5, 4, 7, 6, 9, 8}[u.Seq%10]) << 1, 0x01}, payloadTail(u, 0)...))
		}
	case "av1":
		// every other temporal unit opens with a temporal delimiter, as in a raw AV1 bit stream
		if u.Seq%2 == 1 {
			au = append(au, []byte{0x10})
		}
		// a temporal unit is random access iff it carries a sequence header
		if u.RA {
			au = append(au, mi.cfg.pset(kind, p).seqHdr)
		}
		au = append(au, append([]byte{6 << 3}, payloadTail(u, 0)...))
	case "vp9":
		if u.RA {
			hdr := bytes.Clone(mi.cfg.pset(kind, p).keyHdr)
			if u.Seq%3 == 0 && mi.cfg.pset(kind, p).profile != 3 {
				hdr[0] &^= 0x02 // every third key frame is a hidden one (show_frame = 0): a key frame all the same
			}
			au = append(au, append(hdr, payloadTail(u, 0)...))
		} else {
			au = append(au, append([]byte{0x86, 0x00}, payloadTail(u, 0)...))
		}
	}
	return au
}

func (mi *muxInst) audioData(u wunit) [][]byte {
	n := u.NAU
	if n <= 0 {
		n = 1
	}
	var out [][]byte
	for k := 0; k < n; k++ {
		if mi.cfg.Tracks[u.Track].Kind == "opus" {
			// TOC: one frame of the configured duration (default CELT FB 20 ms)
			out = append(out, append([]byte{opusTOC(int(mi.cfg.opusDur(k)))}, payloadTail(u, k)...))
		} else {
			out = append(out, append([]byte{0x21}, payloadTail(u, k)...))
		}
	}
	return out
}

// write performs one Write call.
func (mi *muxInst) write(u wunit) error {
	tr := mi.tracks[u.Track]
	ntp := mi.ntpOf(u)
	switch mi.cfg.Tracks[u.Track].Kind {
	case "h264", "h264b", "h264k", "h264bk":
		return mi.m.WriteH264(tr, ntp, u.DTS, mi.videoData(u))
	case "h265", "h265b":
		return mi.m.WriteH265(tr, ntp, u.DTS, mi.videoData(u))
	case "av1":
		return mi.m.WriteAV1(tr, ntp, u.DTS, mi.videoData(u))
	case "vp9":
		return mi.m.WriteVP9(tr, ntp, u.DTS, mi.videoData(u)[0])
	case "opus":
		return mi.m.WriteOpus(tr, ntp, u.DTS, mi.audioData(u))
	default:
		return mi.m.WriteMPEG4Audio(tr, ntp, u.DTS, mi.audioData(u))
	}
}

// ---- requests ----

type respRec struct {
	Status int
	Hdr    http.Header
	Body   bytes.Buffer
	// stallUntil, if set, makes the client stop taking the response body until the condition holds (controlled
	// executions only): the handler's first Write blocks
	stallUntil func() bool
	stalled    bool
	nWrites    int
	TooBig     bool // the body passed respMaxBody and the response was cut off
}

func (w *respRec) Header() http.Header { return w.Hdr }

// respSlowClient makes WriteHeader a scheduling point of the controlled executions (a client that is slow to take the
// response: other threads may run between the handler's WriteHeader and its Write). Set by the harnesses that want it.
var respSlowClient bool

func (w *respRec) WriteHeader(s int) {
	if w.Status == 0 {
		w.Status = s
	}
	if respSlowClient {
		vsched.Yield("ResponseWriter.WriteHeader")
	}
}
func (w *respRec) Write(p []byte) (int, error) {
	if w.Status == 0 {
		w.Status = 200
	}
	// (slow client: other threads may also run between two Writes of one body)
	if respSlowClient && w.nWrites > 0 {
		vsched.Yield("ResponseWriter.Write")
	}
	w.nWrites++
	if w.stallUntil != nil && !w.stalled {
		w.stalled = true
		vsched.ParkUntil(w.stallUntil, "a client that does not take the response body")
	}
	if w.Body.Len()+len(p) > respMaxBody {
		// a response that never ends (a reader that makes no progress): the client hangs up
		w.TooBig = true
		return 0, errors.New("verif: response body larger than the harness takes, connection closed")
	}
	return w.Body.Write(p)
}

// respMaxBody: no scenario of the harnesses serves anything near this size.
const respMaxBody = 48 << 20

// muxGet issues an in-process GET; Status 0 means the muxer wrote nothing at all (unknown path).
func muxGet(m *Muxer, pathAndQuery string) *respRec { return muxGetStalled(m, pathAndQuery, nil) }

// muxGetStalled: the client stops taking the response body until stallUntil holds (nil: never stalls).
func muxGetStalled(m *Muxer, pathAndQuery string, stallUntil func() bool) *respRec {
	u, err := url.Parse("http://localhost/" + pathAndQuery)
	if err != nil {
		return &respRec{Status: -1}
	}
	w := &respRec{Hdr: http.Header{}, stallUntil: stallUntil}
	m.Handle(w, &http.Request{Method: "GET", URL: u, Header: http.Header{}})
	return w
}

var prefixRe = regexp.MustCompile(`[0-9a-f]{12}_`)

// canon replaces the random URI prefix of a muxer by "P_".
func canon(s string) string { return prefixRe.ReplaceAllString(s, "P_") }

func opusTOC(ticks int) byte {
	switch ticks {
	case 120:
		return 28 << 3
	case 240:
		return 29 << 3
	case 480:
		return 30 << 3
	case 1920:
		return 2 << 3
	case 2880:
		return 3 << 3
	}
	return 31 << 3
}

func msDur(ms int) time.Duration { return time.Duration(ms) * time.Millisecond }

// setAACRate gives an MPEG-4 Audio track another sample rate (ClockRate == sample rate).
func setAACRate(t *Track, rate int) {
	t.ClockRate = rate
	t.Codec.(*codecs.MPEG4Audio).Config.SampleRate = rate
}

// The naming scheme of the muxer's resources as observed on the pinned tree; the harness spells it out itself (to guess
// names that were never advertised, to block a file that is about to be created) instead of calling the library's helpers.
func vSegmentPath(prefix, streamID string, id uint64, mp4 bool) string {
	ext := ".ts"
	if mp4 {
		ext = ".mp4"
	}
	return prefix + "_" + streamID + "_seg" + strconv.FormatUint(id, 10) + ext
}

func vInitFilePath(prefix, streamID string) string { return prefix + "_" + streamID + "_init.mp4" }

func vPartPath(prefix, streamID string, id uint64) string {
	return prefix + "_" + streamID + "_part" + strconv.FormatUint(id, 10) + ".mp4"
}
