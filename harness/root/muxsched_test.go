//go:build verif

package gohlslib

// E2 harness over the real Muxer: one writer thread (optionally closing the muxer at the end), n requester
// threads, sequential warm-up, sequential epilogue. Shared by C06, C07, C08.

import (
	"encoding/json"
	"fmt"
	"os"
	"path/filepath"
	"sort"
	"strconv"
	"strings"
	"sync"
	"time"

	"github.com/bluenviron/gohlslib/v2/internal/zzverif/m3u"
	"github.com/bluenviron/gohlslib/v2/internal/zzverif/vh"
	"github.com/bluenviron/gohlslib/v2/internal/zzverif/vsched"
)

type msScen struct {
	Prop    string     `json:"prop"`
	Cfg     muxCfg     `json:"cfg"`
	Warm    int        `json:"warm"`               // video frames (or audio writes) fed sequentially before the threads start
	Writes  int        `json:"writes"`             // frames fed by the writer thread
	Close   bool       `json:"close"`              // writer calls Close at the end
	LongSeg int        `json:"long_seg,omitempty"` // 1: the writer skips key frames so that its second segment is three times as long
	Params  int        `json:"params"`             // frame index (relative to the writer's first) that switches the parameter set; 0 none
	Big     int        `json:"big,omitempty"`      // extra payload bytes per video frame (responses that take several Writes)
	Zero    int        `json:"zero,omitempty"`     // frame index (relative to the writer's first, 1-based) of a key frame that is followed by another key frame with new parameter sets and the same time stamp: a segment of zero duration
	Reqs    [][]string `json:"reqs"`               // per requester thread, request symbols
	Bound   int        `json:"bound"`
	Shard   int        `json:"shard"`
	Shards  int        `json:"shards"`
}

func (s msScen) name() string {
	var rs []string
	for _, r := range s.Reqs {
		rs = append(rs, strings.Join(r, ">"))
	}
	big := ""
	if s.Big != 0 {
		big = fmt.Sprintf(" big=%d", s.Big)
	}
	if s.Zero != 0 {
		big += fmt.Sprintf(" zero=%d", s.Zero)
	}
	return fmt.Sprintf("%s {%s} warm=%d writes=%d close=%v params=%d long=%d%s reqs=[%s] bound=%d shard=%d/%d",
		s.Prop, s.Cfg, s.Warm, s.Writes, s.Close, s.Params, s.LongSeg, big, strings.Join(rs, " | "), s.Bound, s.Shard, s.Shards)
}

// frame feeder: video frame i at i*frameMS, random access every gop frames (one SegmentMinDuration); audio access
// units in between. frameMS is half the part duration in Low-Latency mode, else a quarter of the segment duration.

type msFeeder struct {
	mi        *muxInst
	vtrack    int
	frameMS   int64
	gop       int
	next      int   // next video frame index
	audioN    []int // per audio track: next access unit index
	seq       int
	jumpMS    int64 // the next key frame is delayed by this much (one long segment)
	offMS     int64
	skipArmed bool
	skipRA    int // number of upcoming key frames to write as ordinary frames (makes a long segment)
	big       int // extra payload bytes per video frame
	zeroNext  bool
}

func newFeeder(mi *muxInst) *msFeeder {
	f := &msFeeder{mi: mi, vtrack: -1, audioN: make([]int, len(mi.cfg.Tracks))}
	f.frameMS = int64(mi.cfg.SegMinMS) / 4
	if mi.cfg.Variant == "ll" {
		f.frameMS = int64(mi.cfg.PartMS) / 2
	}
	f.gop = int(int64(mi.cfg.SegMinMS) / f.frameMS)
	for i, t := range mi.cfg.Tracks {
		if t.video() {
			f.vtrack = i
		}
	}
	return f
}

// feed writes the next frame (and the audio that precedes it); switchParams makes it a parameter change.
func (f *msFeeder) feed(switchParams bool) error {
	i := f.next
	f.next++
	if f.jumpMS != 0 && f.vtrack >= 0 && i%f.gop == 0 && i > 0 {
		// the key frame arrives late: the segment it closes is that much longer
		f.offMS += f.jumpMS
		f.jumpMS = 0
	}
	tms := int64(i)*f.frameMS + f.offMS // time of this frame in ms
	for ti, t := range f.mi.cfg.Tracks {
		if t.video() {
			continue
		}
		clock := int64(t.clock())
		samples := int64(1024)
		if t.Kind == "opus" {
			samples = 960
		}
		for {
			dts := int64(f.audioN[ti]) * samples
			if f.vtrack >= 0 && dts*1000 >= tms*clock {
				break
			}
			f.seq++
			if err := f.mi.write(wunit{Track: ti, DTS: dts, Seq: f.seq}); err != nil {
				return err
			}
			f.audioN[ti]++
			if f.vtrack < 0 {
				// audio-only: one write per feed on the first audio track, others follow the same clock
				break
			}
		}
	}
	if f.vtrack >= 0 {
		f.seq++
		u := wunit{Track: f.vtrack, DTS: tms * 90, RA: i%f.gop == 0, Seq: f.seq, Size: f.big}
		if u.RA && f.skipRA > 0 && f.skipArmed {
			f.skipRA--
			u.RA = false
		}
		if u.RA {
			u.Params = 1
			f.skipArmed = true
		}
		if switchParams {
			u.RA, u.Params = true, 2
		}
		if err := f.mi.write(u); err != nil {
			return err
		}
		if f.zeroNext && u.RA {
			// a second key frame at the same instant, with the other parameter set: the segment between the two has no duration
			f.zeroNext = false
			f.seq++
			return f.mi.write(wunit{Track: f.vtrack, DTS: tms * 90, RA: true, Params: 2, Seq: f.seq})
		}
		return nil
	}
	return nil
}

type msReqLog struct {
	Thread         string
	Sym            string
	URL            string
	Issued         int // writer progress when issued
	Done           int // writer progress when completed (-1: never completed)
	Finished       bool
	Status         int
	CT             string
	Body           []byte
	WaitingAtClose bool
}

type msState struct {
	mu         sync.Mutex // protects the harness's own bookkeeping (free-running pass)
	sc         msScen
	mi         *muxInst
	feeder     *msFeeder
	dir        string
	progress   int
	closeStart bool
	closed     bool
	writerDone bool // the writer thread has finished (Close included, if the scenario closes)
	writeErr   error
	logs       []*msReqLog
	epilogue   []*msReqLog
	epiPanic   string
	filesLeft  []string
	snaps      []msSnap // muxer state after warm-up and after every write of the writer
}

type msSnap struct {
	first int // media sequence number of the first listed segment
	open  int // media sequence number (id) of the open segment
}

func (st *msState) snap() {
	ls := st.leadingStream()
	st.mu.Lock()
	st.snaps = append(st.snaps, msSnap{first: ls.segmentDeleteCount, open: int(ls.nextSegmentID)})
	st.mu.Unlock()
}

func (st *msState) leadingStream() *muxerStream { return st.mi.m.leadingStream }

// resolve turns a request symbol into a URL using the muxer state at this moment.
func (st *msState) resolve(sym string, prev *msReqLog) string {
	// muxer internals are read under the muxer's own mutex (the writer updates them under it)
	st.mi.m.mutex.Lock()
	defer st.mi.m.mutex.Unlock()
	ls := st.leadingStream()
	plPath := mediaPlaylistPath(ls.id)
	open := ls.nextSegmentID
	published := uint64(0)
	// (before the stream has content the writer creates the first segment without the muxer mutex - no handler looks at
	// it then, and neither does the harness)
	if ls.hasContent() {
		if seg, ok := ls.nextSegment.(*muxerSegmentFMP4); ok && seg != nil {
			published = uint64(len(seg.parts))
		}
	}
	br := func(m uint64, p int64) string {
		if p < 0 {
			return fmt.Sprintf("%s?_HLS_msn=%d", plPath, m)
		}
		return fmt.Sprintf("%s?_HLS_msn=%d&_HLS_part=%d", plPath, m, p)
	}
	switch {
	case sym == "IDX":
		return "index.m3u8"
	case sym == "PL":
		return plPath
	case sym == "PLQ":
		return plPath + "?token=a%20b&x=1"
	case sym == "PL0": // playlist of the first stream (an audio rendition when the audio track is listed before the video track)
		return mediaPlaylistPath(st.mi.m.streams[0].id)
	case sym == "PLA": // playlist of the last (audio rendition) stream
		return mediaPlaylistPath(st.mi.m.streams[len(st.mi.m.streams)-1].id)
	case sym == "DELTA":
		return plPath + "?_HLS_skip=YES"
	case sym == "BR": // the part that is being produced (next to be published)
		return br(open, int64(published))
	case sym == "BR+1": // the part after it
		return br(open, int64(published)+1)
	case sym == "BRPUB": // last published part (answer needs no blocking) if any
		if published > 0 {
			return br(open, int64(published)-1)
		}
		return br(open-1, 0)
	case sym == "BRSEG": // the open segment, complete
		return br(open, -1)
	case sym == "BRNEXT": // the segment after the open one
		return br(open+1, -1)
	case sym == "BRNEXT0":
		return br(open+1, 0)
	case sym == "BRFAR":
		return br(open+2, -1)
	case sym == "BROLD":
		return br(open-uint64(len(ls.segments)), -1)
	case sym == "BRPAST": // part index past the end of the last complete segment -> part 0 of the open one
		return br(open-1, 99)
	case sym == "BRA": // blocking reload on the audio rendition
		s := st.mi.m.streams[len(st.mi.m.streams)-1]
		return fmt.Sprintf("%s?_HLS_msn=%d&_HLS_part=%d", mediaPlaylistPath(s.id), open, published)
	case sym == "PH":
		return vPartPath(ls.prefix, ls.id, ls.nextPartID)
	case sym == "PH+1":
		return vPartPath(ls.prefix, ls.id, ls.nextPartID+1)
	case sym == "INIT":
		return vInitFilePath(ls.prefix, ls.id)
	case sym == "SEG": // newest complete segment
		for i := len(ls.segments) - 1; i >= 0; i-- {
			if p := ls.segments[i].getPath(); p != "" {
				return p
			}
		}
		return "none.mp4"
	case sym == "OLD": // oldest listed segment (expires first)
		for _, s := range ls.segments {
			if p := s.getPath(); p != "" {
				return p
			}
		}
		return "none.mp4"
	case sym == "PART": // newest published part
		if ls.nextPartID > 0 {
			return vPartPath(ls.prefix, ls.id, ls.nextPartID-1)
		}
		return "none.mp4"
	case sym == "PARTA" || sym == "PARTB": // first / second part of the newest complete segment
		for i := len(ls.segments) - 1; i >= 0; i-- {
			if sg, ok := ls.segments[i].(*muxerSegmentFMP4); ok && len(sg.parts) >= 2 {
				if sym == "PARTA" {
					return sg.parts[0].path
				}
				return sg.parts[1].path
			}
		}
		return "none.mp4"
	case sym == "UNK":
		return "nonexistent_seg99.mp4"
	case strings.HasPrefix(sym, "FOLLOW"):
		// a URI taken from the previous playlist response of this thread
		if prev != nil && prev.Status == 200 {
			if mp, _, _ := m3u.Parse(prev.Body, m3u.Options{}); mp != nil {
				switch sym {
				case "FOLLOWSEG":
					for i := len(mp.Segments) - 1; i >= 0; i-- {
						if !mp.Segments[i].Gap {
							return mp.Segments[i].URI
						}
					}
				case "FOLLOWOLD":
					for _, s := range mp.Segments {
						if !s.Gap {
							return s.URI
						}
					}
				case "FOLLOWPART":
					if n := len(mp.Parts); n > 0 {
						return mp.Parts[n-1].URI
					}
					for i := len(mp.Segments) - 1; i >= 0; i-- {
						if n := len(mp.Segments[i].Parts); n > 0 {
							return mp.Segments[i].Parts[n-1].URI
						}
					}
				case "FOLLOWHINT":
					if len(mp.PreloadHints) > 0 {
						return mp.PreloadHints[0].URI
					}
				case "FOLLOWINIT":
					if mp.HasMap {
						return mp.MapURI
					}
				}
			}
		}
		return "nonexistent_follow.mp4"
	}
	return sym
}

func msSetup(sc msScen, scratch string) func(s *vsched.Sched) any {
	return func(s *vsched.Sched) any {
		st := &msState{sc: sc}
		if sc.Cfg.Disk {
			d, err := os.MkdirTemp(scratch, "ms-")
			if err != nil {
				panic(err)
			}
			st.dir = d
		}
		mi, err := newMux(sc.Cfg, st.dir)
		if err != nil {
			panic(err)
		}
		st.mi = mi
		st.feeder = newFeeder(mi)
		st.feeder.big = sc.Big
		for i := 0; i < sc.Warm; i++ {
			if err := st.feeder.feed(false); err != nil {
				panic(fmt.Sprintf("warm-up write failed: %v", err))
			}
		}
		st.snap()
		if sc.LongSeg != 0 {
			st.feeder.jumpMS = 2 * int64(sc.Cfg.SegMinMS)
		}
		vsched.GoNamed("writer", func() {
			for i := 0; i < sc.Writes; i++ {
				st.feeder.zeroNext = sc.Zero != 0 && i == sc.Zero-1
				if err := st.feeder.feed(sc.Params != 0 && i == sc.Params-1); err != nil {
					st.writeErr = err
					break
				}
				st.snap()
				st.mu.Lock()
				st.progress++
				st.mu.Unlock()
			}
			if sc.Close {
				st.closeStart = true
				// requests waiting inside the muxer when Close starts
				waiting := map[string]bool{}
				for _, n := range condWaiters(st.mi.m.cond) {
					waiting[n] = true
				}
				st.mi.m.Close()
				// ... and requests that have not come back from their wait when Close returns (woken earlier, e.g. by new
				// content, but not yet run): they re-acquire the muxer mutex after Close and must see it closed
				for _, n := range condInWait(st.mi.m.cond) {
					waiting[n] = true
				}
				st.mu.Lock()
				for _, l := range st.logs {
					if waiting[l.Thread] && !l.Finished {
						l.WaitingAtClose = true
					}
				}
				st.closed = true
				st.mu.Unlock()
			}
			st.writerDone = true
		})
		for ri, syms := range sc.Reqs {
			name := fmt.Sprintf("req%d", ri)
			syms := syms
			vsched.GoNamed(name, func() {
				var prev *msReqLog
				for _, sym := range syms {
					l := &msReqLog{Thread: name, Sym: sym, Done: -1, Issued: st.getProgress()}
					// "SYM!stall": the client stops taking the response body until the writer has finished (Close included)
					var stall func() bool
					if strings.HasSuffix(sym, "!stall") {
						sym = strings.TrimSuffix(sym, "!stall")
						l.Sym = sym
						stall = func() bool { return st.writerDone }
					}
					l.URL = st.resolve(sym, prev)
					st.addLog(l)
					r := muxGetStalled(st.mi.m, l.URL, stall)
					p := st.getProgress()
					st.mu.Lock()
					l.Status, l.Body, l.CT = r.Status, r.Body.Bytes(), r.Hdr.Get("Content-Type")
					l.Done = p
					l.Finished = true
					st.mu.Unlock()
					prev = l
				}
			})
		}
		return st
	}
}

func (st *msState) getProgress() int {
	st.mu.Lock()
	defer st.mu.Unlock()
	return st.progress
}

func (st *msState) addLog(l *msReqLog) {
	st.mu.Lock()
	st.logs = append(st.logs, l)
	st.mu.Unlock()
}

// condWaiters returns the names of the threads waiting on a (cooperative) condition variable.
func condWaiters(c any) []string {
	if w, ok := c.(interface{ Waiters() []string }); ok {
		return w.Waiters()
	}
	return nil
}

// condInWait returns the threads that are inside Wait: still waiting for a signal, or signalled and not yet back.
func condInWait(c any) []string {
	if w, ok := c.(interface{ InWait() []string }); ok {
		return w.InWait()
	}
	return nil
}

// msEpilogue issues one request of every kind sequentially after the threads have ended; a request that would
// block (solo code cannot wait) is reported through epiPanic.
func (st *msState) msEpilogue(syms []string) {
	defer func() {
		if r := recover(); r != nil {
			st.epiPanic = fmt.Sprint(r)
		}
	}()
	for _, sym := range syms {
		l := &msReqLog{Thread: "epilogue", Sym: sym, Issued: st.progress, Done: -1}
		l.URL = st.resolve(sym, nil)
		st.epilogue = append(st.epilogue, l)
		r := muxGet(st.mi.m, l.URL)
		l.Status, l.Body, l.CT = r.Status, r.Body.Bytes(), r.Hdr.Get("Content-Type")
		l.Finished = true
	}
}

func (st *msState) cleanup() {
	if st.dir != "" {
		ents, _ := os.ReadDir(st.dir)
		for _, e := range ents {
			st.filesLeft = append(st.filesLeft, e.Name())
		}
		sort.Strings(st.filesLeft)
		os.RemoveAll(st.dir)
	}
}

func stuckClass(desc string) string {
	switch {
	case strings.Contains(desc, "cond"):
		return "cond"
	case strings.Contains(desc, "mutex"):
		return "mutex"
	}
	return "other"
}

// runMuxSched runs / replays one scenario with the given oracle.
func runMuxSched(c *vh.Ctx, scens []msScen, check func(st *msState, s *vsched.Sched, tr *vsched.Trace) (string, []vsched.Viol)) {
	mk := func(sc msScen) vsched.Harness {
		return vsched.Harness{
			Setup: msSetup(sc, c.Scratch),
			Check: func(s *vsched.Sched, tr *vsched.Trace, sti any) (string, []vsched.Viol) {
				return check(sti.(*msState), s, tr)
			},
		}
	}
	if c.Replay != nil {
		var rp schedReplay
		if err := json.Unmarshal(c.Replay, &rp); err != nil {
			c.EngineError("bad replay: %v", err)
			return
		}
		var sc msScen
		json.Unmarshal(rp.Scen, &sc)
		ex := &vsched.Explorer{T: c.T, H: mk(sc)}
		tr, _, viols := ex.Replay(rp.Choices)
		c.Exec()
		if tr.EngineErr != "" {
			c.EngineError("%s", tr.EngineErr)
			return
		}
		for _, v := range viols {
			c.Violation(v.Sig, v.Msg, rp)
		}
		return
	}
	for _, sc := range scens {
		if sc.name() == c.Scenario {
			if b, ok := c.Params["bound"]; ok {
				sc.Bound, _ = strconv.Atoi(b)
			}
			if os.Getenv("VERIF_FREE") != "" {
				msFree(c, sc)
				return
			}
			runSched(c, sc, mk(sc), sc.Bound, false, sc.Shard, sc.Shards)
			return
		}
	}
	c.EngineError("unknown scenario %q", c.Scenario)
}

// msFree is the free-running body of the -race pass: same threads, real goroutines, no scheduler.
func msFree(c *vh.Ctx, sc msScen) {
	for it := 0; it < 40 && !c.Expired(); it++ {
		var st *msState
		vsched.RunFree(10*time.Second, func() {
			st = msSetup(sc, c.Scratch)(nil).(*msState)
		}, func(finished bool) {
			st.mu.Lock()
			closed := st.closed
			st.mu.Unlock()
			if !finished && !closed {
				st.mi.m.Close()
			}
		})
		st.cleanup()
		c.Exec()
	}
}

func msListScenarios(scens []msScen) []vh.Scenario {
	var out []vh.Scenario
	for _, s := range scens {
		// rough cost estimate for load balancing: executions ~ points^bound, cost per execution ~ warm-up length
		w := (10 + s.Warm) * (1 + s.Writes) * len(s.Cfg.Tracks)
		if s.Cfg.Disk {
			w *= 3
		}
		for _, r := range s.Reqs {
			w *= 30 * len(r)
		}
		if s.Bound < 0 || s.Bound > 2 {
			w *= 4
		}
		out = append(out, vh.Scenario{Name: s.name(), Weight: w})
	}
	return out
}

var _ = filepath.Join
