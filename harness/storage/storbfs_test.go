//go:build verif

package storage

// E4 "storbfs": explicit-state breadth-first search over storage operation sequences (property C17).
// Every transition of the search is executed on the real RAM back end, the real disk back end and a
// [][]byte reference model (replay of the shortest path on fresh objects + one operation), and all
// observations are compared.

import (
	"bytes"
	"crypto/sha256"
	"encoding/hex"
	"encoding/json"
	"errors"
	"fmt"
	"io"
	"os"
	"path/filepath"
	"runtime"
	"sort"
	"strings"
	"sync"
	"sync/atomic"
	"testing"

	"github.com/bluenviron/gohlslib/v2/internal/zzverif/vh"
)

func TestVerif(t *testing.T) {
	vh.Main(t, map[string]vh.Prop{
		"C17": {List: c17List, Run: c17Run},
	})
}

type sop struct {
	K string `json:"k"`           // newpart write rewriteprev seekstart seekcur finalize openpart openfile readn drain close remove
	A int    `json:"a,omitempty"` // argument (payload index, offset, part index, reader index, n)
	B int    `json:"b,omitempty"` // second argument (buffer size for drain; write: 1 / 2 = preceded by a refused seek)
	Z bool   `json:"z,omitempty"` // readn / drain: a zero-length Read precedes every Read (it must not consume anything)
}

func (o sop) String() string {
	if o.Z {
		return fmt.Sprintf("%s(%d,%d,zero-length reads)", o.K, o.A, o.B)
	}
	return fmt.Sprintf("%s(%d,%d)", o.K, o.A, o.B)
}

// zeroReader issues a zero-length Read before every Read of the wrapped reader.
type zeroReader struct{ r io.Reader }

func (z zeroReader) Read(p []byte) (int, error) {
	if n, err := z.r.Read(nil); n != 0 || (err != nil && err != io.EOF) {
		return 0, fmt.Errorf("zero-length Read returned %d, %v", n, err)
	}
	return z.r.Read(p)
}

type mreader struct {
	file bool
	part int
	data []byte // snapshot of what the reader must deliver
	off  int
}

type mstate struct {
	parts      [][]byte
	pos        int // writer position in the last part
	sealed     bool
	finalized  bool
	removed    bool
	readers    []*mreader
	totalLimit int
	// written / prevWritten: a writer has been obtained for the last part / for the part before it
	written, prevWritten bool
}

func (s *mstate) clone() *mstate {
	n := &mstate{pos: s.pos, sealed: s.sealed, finalized: s.finalized, removed: s.removed, totalLimit: s.totalLimit, written: s.written, prevWritten: s.prevWritten}
	for _, p := range s.parts {
		n.parts = append(n.parts, append([]byte(nil), p...))
	}
	for _, r := range s.readers {
		c := *r
		n.readers = append(n.readers, &c)
	}
	return n
}

func (s *mstate) key() string {
	var b strings.Builder
	for _, p := range s.parts {
		b.WriteString(string(p))
		b.WriteByte('|')
	}
	fmt.Fprintf(&b, "#%d,%v,%v,%v,%v,%v", s.pos, s.sealed, s.finalized, s.removed, s.written, s.prevWritten)
	for _, r := range s.readers {
		fmt.Fprintf(&b, ";%v,%d,%d,%s", r.file, r.part, r.off, r.data)
	}
	return b.String()
}

func (s *mstate) total() int {
	n := 0
	for _, p := range s.parts {
		n += len(p)
	}
	return n
}

func (s *mstate) concat() []byte {
	var out []byte
	for _, p := range s.parts {
		out = append(out, p...)
	}
	return out
}

var c17Payloads = [][]string{{"", "a", "bc"}, {"", "d", "ef"}, {"", "g", "hi"}, {"", "j", "kl"}}

const c17MaxStates = 2_500_000

// c17Copy as a buffer size: drain with io.Copy
const c17Copy = -7

var c17Bufs = []int{1, 2, 3, 7, 65536, c17Copy}

type c17cfg struct {
	maxParts, maxBytes, maxReaders int
	// dirty: the directory already holds a (longer) file of the same name when the disk file is created - a
	// left-over of an earlier run of a muxer with the same Directory, or a name that is used again
	dirty bool
}

func (s *mstate) enabled(cfg c17cfg) []sop {
	var ops []sop
	last := len(s.parts) - 1
	if !s.finalized && !s.removed {
		if len(s.parts) < cfg.maxParts {
			ops = append(ops, sop{K: "newpart"})
		}
		if last >= 0 && !s.sealed {
			for i, p := range c17Payloads[last] {
				// a write may overwrite (no growth) or extend; bound the total size
				grow := s.pos + len(p) - len(s.parts[last])
				if grow < 0 {
					grow = 0
				}
				if s.total()+grow <= cfg.maxBytes {
					ops = append(ops, sop{K: "write", A: i})
					// the same write after a seek to before the start of the part, relative to the start / to the current
					// position: refused by every back end, and the writer stays where it was
					ops = append(ops, sop{K: "write", A: i, B: 1 + (i+s.pos)%2})
				}
			}
			for k := 0; k <= len(s.parts[last]); k++ {
				if k != s.pos {
					ops = append(ops, sop{K: "seekstart", A: k})
				}
			}
			for _, d := range []int{-1, 0, 1} {
				if s.pos+d >= 0 && s.pos+d <= len(s.parts[last]) {
					ops = append(ops, sop{K: "seekcur", A: d})
				}
			}
			// (writes preceded by a refused seek are generated with the writes above)
			// rewriting the head of the previous part in place through the writer obtained for it (kept across NewPart):
			// nothing grows, every back end has the bytes at a fixed place
			if last >= 1 && len(s.readers) == 0 {
				for i, p := range c17Payloads[last-1] {
					if len(p) >= 1 && len(p) <= len(s.parts[last-1]) && s.prevWritten && string(s.parts[last-1][:len(p)]) != p {
						ops = append(ops, sop{K: "rewriteprev", A: i})
						break // one rewrite that changes something is enough per state
					}
				}
			}
		}
		ops = append(ops, sop{K: "finalize"})
	}
	if !s.removed && len(s.readers) < cfg.maxReaders {
		for i := range s.parts {
			ops = append(ops, sop{K: "openpart", A: i})
		}
		if s.finalized {
			ops = append(ops, sop{K: "openfile"})
		}
	}
	for i, r := range s.readers {
		for _, n := range []int{1, 2} {
			if r.off < len(r.data) {
				ops = append(ops, sop{K: "readn", A: i, B: n}, sop{K: "readn", A: i, B: n, Z: true})
			}
		}
		for _, b := range c17Bufs {
			ops = append(ops, sop{K: "drain", A: i, B: b})
		}
		ops = append(ops, sop{K: "drain", A: i, B: 2, Z: true})
		ops = append(ops, sop{K: "close", A: i})
	}
	// Remove: of a finalized file, and of one that is still being written (what Muxer.Close does to the open segment)
	if !s.removed {
		ops = append(ops, sop{K: "remove"})
	}
	return ops
}

// apply applies op to the model and returns the bytes a read operation must deliver (nil otherwise).
func (s *mstate) apply(o sop) []byte {
	last := len(s.parts) - 1
	switch o.K {
	case "newpart":
		s.prevWritten = len(s.parts) > 0 && s.written
		s.written = false
		s.parts = append(s.parts, []byte{})
		s.pos = 0
		s.sealed = false
	case "rewriteprev":
		p := []byte(c17Payloads[last-1][o.A])
		copy(s.parts[last-1], p)
	case "write":
		p := []byte(c17Payloads[last][o.A])
		buf := s.parts[last]
		for i, c := range p {
			if s.pos+i < len(buf) {
				buf[s.pos+i] = c
			} else {
				buf = append(buf, c)
			}
		}
		s.parts[last] = buf
		s.pos += len(p)
		s.written = true
	case "seekstart":
		s.pos = o.A
	case "seekcur":
		s.pos += o.A
	case "finalize":
		s.finalized = true
	case "openpart":
		if o.A == last && !s.finalized {
			s.sealed = true
		}
		s.readers = append(s.readers, &mreader{part: o.A, data: append([]byte(nil), s.parts[o.A]...)})
	case "openfile":
		s.readers = append(s.readers, &mreader{file: true, data: s.concat()})
	case "readn":
		r := s.readers[o.A]
		n := o.B
		if r.off+n > len(r.data) {
			n = len(r.data) - r.off
		}
		out := r.data[r.off : r.off+n]
		r.off += n
		return out
	case "drain":
		r := s.readers[o.A]
		out := r.data[r.off:]
		s.readers = append(s.readers[:o.A:o.A], s.readers[o.A+1:]...)
		return out
	case "close":
		s.readers = append(s.readers[:o.A:o.A], s.readers[o.A+1:]...)
	case "remove":
		s.removed = true
	}
	return nil
}

// impl is one real back end under test.
type impl struct {
	name   string
	file   File
	parts  []Part
	writer io.WriteSeeker
	// prevWriter: the writer of the part before the last one (kept across NewPart)
	prevWriter io.WriteSeeker
	readers    []io.ReadCloser
	removed    bool
	path       string
}

func (im *impl) cleanup(finalized bool) {
	for _, r := range im.readers {
		r.Close()
	}
	func() {
		defer func() { recover() }()
		if !finalized && !im.removed {
			im.file.Finalize()
		}
		im.file.Remove()
	}()
}

func readUpTo(r io.Reader, n int, bufSize int) ([]byte, error) {
	var out []byte
	idle := 0
	for len(out) < n {
		sz := n - len(out)
		if bufSize > 0 && bufSize < sz {
			sz = bufSize
		}
		buf := make([]byte, sz)
		k, err := r.Read(buf)
		if k < 0 || k > sz {
			return out, fmt.Errorf("Read returned n=%d for a buffer of %d", k, sz)
		}
		out = append(out, buf[:k]...)
		if err == io.EOF {
			return out, nil
		}
		if err != nil {
			return out, err
		}
		if k == 0 {
			idle++
			if idle > 100 {
				return out, errors.New("reader makes no progress (0, nil) 100 times")
			}
		}
	}
	return out, nil
}

func drainAll(r io.Reader, bufSize int) ([]byte, error) {
	if bufSize == c17Copy {
		// the way an HTTP handler drains a reader: io.Copy takes the reader's WriteTo / the writer's ReadFrom if there is
		// one, whatever has been consumed with Read before
		var w bytes.Buffer
		_, err := io.Copy(&w, r)
		return w.Bytes(), err
	}
	return readUpTo(r, 1<<30, bufSize)
}

// step applies op to the implementation; want is the model's expected read result.
func (im *impl) step(o sop, want []byte) (err error) {
	defer func() {
		if p := recover(); p != nil {
			err = fmt.Errorf("panic in %s: %v", o, p)
		}
	}()
	switch o.K {
	case "newpart":
		p := im.file.NewPart()
		im.parts = append(im.parts, p)
		im.prevWriter = im.writer
		im.writer = nil
	case "rewriteprev":
		p := []byte(c17Payloads[len(im.parts)-2][o.A])
		if im.prevWriter == nil {
			return fmt.Errorf("harness: no writer was obtained for the previous part")
		}
		if _, err := im.prevWriter.Seek(0, io.SeekStart); err != nil {
			return fmt.Errorf("Seek(0, start) on the previous part's writer: %v", err)
		}
		if n, err := im.prevWriter.Write(p); err != nil || n != len(p) {
			return fmt.Errorf("Write(%q) on the previous part's writer = %d, %v", p, n, err)
		}
	case "write", "seekstart", "seekcur":
		if im.writer == nil {
			im.writer = im.parts[len(im.parts)-1].Writer()
		}
		switch o.K {
		case "write":
			p := []byte(c17Payloads[len(im.parts)-1][o.A])
			if o.B != 0 {
				var err error
				if o.B == 1 {
					_, err = im.writer.Seek(-1, io.SeekStart)
				} else {
					cur, _ := im.writer.Seek(0, io.SeekCurrent)
					_, err = im.writer.Seek(-cur-1, io.SeekCurrent)
				}
				if err == nil {
					return fmt.Errorf("Seek to position -1 was accepted")
				}
			}
			n, err := im.writer.Write(p)
			if err != nil || n != len(p) {
				return fmt.Errorf("Write(%q) = %d, %v", p, n, err)
			}
		case "seekstart":
			if _, err := im.writer.Seek(int64(o.A), io.SeekStart); err != nil {
				return fmt.Errorf("Seek(%d, start): %v", o.A, err)
			}
		case "seekcur":
			if _, err := im.writer.Seek(int64(o.A), io.SeekCurrent); err != nil {
				return fmt.Errorf("Seek(%d, current): %v", o.A, err)
			}
		}
	case "finalize":
		im.file.Finalize()
	case "openpart":
		r, err := im.parts[o.A].Reader()
		if err != nil {
			return fmt.Errorf("part %d Reader(): %v", o.A, err)
		}
		im.readers = append(im.readers, r)
	case "openfile":
		r, err := im.file.Reader()
		if err != nil {
			return fmt.Errorf("file Reader(): %v", err)
		}
		im.readers = append(im.readers, r)
	case "readn":
		var rd io.Reader = im.readers[o.A]
		if o.Z {
			rd = zeroReader{rd}
		}
		got, err := readUpTo(rd, o.B, 0)
		if err != nil {
			return fmt.Errorf("read of %d bytes from reader %d: %v", o.B, o.A, err)
		}
		if !bytes.Equal(got, want) {
			return fmt.Errorf("read of %d bytes from reader %d returned %q, want %q", o.B, o.A, got, want)
		}
	case "drain":
		var rd io.Reader = im.readers[o.A]
		if o.Z {
			rd = zeroReader{rd}
		}
		got, err := drainAll(rd, o.B)
		if err != nil {
			return fmt.Errorf("drain reader %d with %d-byte buffer: %v", o.A, o.B, err)
		}
		if !bytes.Equal(got, want) {
			return fmt.Errorf("drain reader %d with %d-byte buffer returned %q, want %q", o.A, o.B, got, want)
		}
		im.readers[o.A].Close()
		im.readers = append(im.readers[:o.A:o.A], im.readers[o.A+1:]...)
	case "close":
		im.readers[o.A].Close()
		im.readers = append(im.readers[:o.A:o.A], im.readers[o.A+1:]...)
	case "remove":
		im.file.Remove()
		im.removed = true
	}
	return nil
}

// observe checks everything that can be observed without changing the state.
func (im *impl) observe(m *mstate) (err error) {
	defer func() {
		if p := recover(); p != nil {
			err = fmt.Errorf("panic while observing: %v", p)
		}
	}()
	if m.finalized {
		if got := im.file.Size(); got != uint64(m.total()) {
			return fmt.Errorf("Size() = %d after Finalize, want %d", got, m.total())
		}
	}
	if !m.finalized {
		r, err := im.file.Reader()
		if err == nil {
			r.Close()
			return fmt.Errorf("file Reader() succeeded before Finalize")
		}
	}
	// zero-length read on the open readers
	for i, r := range im.readers {
		n, err := r.Read(nil)
		if n != 0 || (err != nil && err != io.EOF) {
			return fmt.Errorf("zero-length Read on reader %d = %d, %v", i, n, err)
		}
	}
	if m.removed {
		if im.path != "" {
			if _, err := os.Stat(im.path); err == nil {
				return fmt.Errorf("disk file still exists after Remove")
			}
			// ... under whatever name: nothing that belongs to this file is left in the directory
			ents, _ := os.ReadDir(filepath.Dir(im.path))
			for _, e := range ents {
				if strings.HasPrefix(e.Name(), filepath.Base(im.path)) {
					return fmt.Errorf("disk file %s is left in the directory after Remove", e.Name())
				}
			}
		}
		return nil
	}
	// fresh readers: every part whose content is fixed, and the file once finalized, with every buffer size
	last := len(m.parts) - 1
	for i := range m.parts {
		if i == last && !m.finalized && !m.sealed {
			// the last part is still being written; its reader is only opened (op openpart) once writing is done
			continue
		}
		for _, b := range c17Bufs {
			r, err := im.parts[i].Reader()
			if err != nil {
				return fmt.Errorf("part %d Reader(): %v", i, err)
			}
			got, err := drainAll(r, b)
			r.Close()
			if err != nil {
				return fmt.Errorf("part %d drain with %d-byte buffer: %v", i, b, err)
			}
			if !bytes.Equal(got, m.parts[i]) {
				return fmt.Errorf("part %d reader (buffer %d, finalized=%v) returned %q, want %q", i, b, m.finalized, got, m.parts[i])
			}
		}
	}
	if m.finalized {
		want := m.concat()
		for _, b := range c17Bufs {
			r, err := im.file.Reader()
			if err != nil {
				return fmt.Errorf("file Reader() after Finalize: %v", err)
			}
			got, err := drainAll(r, b)
			r.Close()
			if err != nil {
				return fmt.Errorf("file drain with %d-byte buffer: %v", b, err)
			}
			if !bytes.Equal(got, want) {
				return fmt.Errorf("file reader (buffer %d) returned %q, want %q", b, got, want)
			}
		}
		if im.path != "" {
			got, err := os.ReadFile(im.path)
			if err != nil {
				return fmt.Errorf("disk file unreadable after Finalize: %v", err)
			}
			if !bytes.Equal(got, want) {
				return fmt.Errorf("disk file content %q, want %q", got, want)
			}
		}
	}
	return nil
}

var c17FileCounter atomic.Int64

// runPath replays ops on fresh RAM and disk files and the model; returns the model state and the first error.
func c17RunPath(dir string, cfg c17cfg, ops []sop, observeAll bool) (*mstate, string, error) {
	m := &mstate{}
	name := fmt.Sprintf("f%d.bin", c17FileCounter.Add(1))
	ram, _ := NewFactoryRAM().NewFile(name)
	if cfg.dirty {
		if err := os.WriteFile(filepath.Join(dir, name), bytes.Repeat([]byte{0xEE}, 40), 0o644); err != nil {
			return nil, "engine", err
		}
	}
	disk, err := NewFactoryDisk(dir).NewFile(name)
	if err != nil {
		return nil, "engine", err
	}
	impls := []*impl{{name: "ram", file: ram}, {name: "disk", file: disk, path: filepath.Join(dir, name)}}
	defer func() {
		for _, im := range impls {
			im.cleanup(m.finalized)
		}
		os.Remove(filepath.Join(dir, name))
	}()
	for i, o := range ops {
		want := m.apply(o)
		for _, im := range impls {
			if err := im.step(o, want); err != nil {
				return m, im.name, fmt.Errorf("op %d %s: %v", i, o, err)
			}
		}
		if observeAll || i == len(ops)-1 {
			for _, im := range impls {
				if err := im.observe(m); err != nil {
					return m, im.name, fmt.Errorf("after op %d %s: %v", i, o, err)
				}
			}
			if a, b := impls[0].file.Size(), impls[1].file.Size(); a != b {
				return m, "ram-vs-disk", fmt.Errorf("after op %d %s: Size() differs: ram %d disk %d", i, o, a, b)
			}
		}
	}
	return m, "", nil
}

func c17List(tier string) []vh.Scenario {
	if tier == "thorough" {
		return []vh.Scenario{{Name: "parts=3,bytes=4,readers=1", Weight: 100}, {Name: "parts=2,bytes=3,readers=2", Weight: 100}, {Name: "parts=4,bytes=3,readers=1", Weight: 100}, {Name: "parts=2,bytes=5,readers=1", Weight: 50}, {Name: "parts=3,bytes=3,readers=1,dirty", Weight: 50}}
	}
	return []vh.Scenario{{Name: "parts=3,bytes=3,readers=1", Weight: 50}, {Name: "parts=2,bytes=2,readers=2", Weight: 50}, {Name: "parts=2,bytes=2,readers=1,dirty", Weight: 30}}
}

func c17ErrClass(msg string) string {
	// stable class: strip op indices / quoted data
	for _, k := range []string{"Size()", "zero-length", "disk file", "file reader", "file Reader", "part", "drain", "read of", "Write", "Seek", "panic"} {
		if strings.Contains(msg, k) {
			return k
		}
	}
	return "other"
}

func c17Run(c *vh.Ctx) {
	var cfg c17cfg
	fmt.Sscanf(c.Scenario, "parts=%d,bytes=%d,readers=%d", &cfg.maxParts, &cfg.maxBytes, &cfg.maxReaders)
	cfg.dirty = strings.HasSuffix(c.Scenario, ",dirty")
	dir, err := os.MkdirTemp(c.Scratch, "c17-")
	if err != nil {
		c.EngineError("mkdir: %v", err)
		return
	}
	defer os.RemoveAll(dir)

	if c.Replay != nil {
		var ops []sop
		if err := json.Unmarshal(c.Replay, &ops); err != nil {
			c.EngineError("bad replay: %v", err)
			return
		}
		c.Exec()
		if _, who, err := c17RunPath(dir, cfg, ops, true); err != nil {
			c.Violation("storage/"+who+"/"+c17ErrClass(err.Error()), err.Error(), ops)
		}
		return
	}

	type node struct {
		path []sop
		st   *mstate
	}
	// visited states are kept as 128-bit hashes of their canonical keys (millions of states in the thorough tier)
	type hkey [16]byte
	hashOf := func(k string) hkey {
		h := sha256.Sum256([]byte(k))
		var out hkey
		copy(out[:], h[:16])
		return out
	}
	visited := map[hkey]struct{}{}
	init := &mstate{}
	visited[hashOf(init.key())] = struct{}{}
	frontier := []node{{st: init}}
	var states, transitions int64 = 1, 0
	depth := 0
	var mu sync.Mutex
	nw := runtime.GOMAXPROCS(0)
	for len(frontier) > 0 {
		if c.Expired() {
			c.Cap(fmt.Sprintf("deadline reached at BFS depth %d (all shallower depths fully covered)", depth))
			break
		}
		if states > c17MaxStates {
			// (the frontier keeps one replayable path per state: memory, not time, is the limit here)
			c.Cap(fmt.Sprintf("state budget of %d reached at BFS depth %d (all shallower depths fully covered)", c17MaxStates, depth))
			break
		}
		var next []node
		var wg sync.WaitGroup
		var idx atomic.Int64
		stop := atomic.Bool{}
		for w := 0; w < nw; w++ {
			wg.Add(1)
			go func() {
				defer wg.Done()
				for {
					i := int(idx.Add(1) - 1)
					if i >= len(frontier) || stop.Load() {
						return
					}
					n := frontier[i]
					for _, o := range n.st.enabled(cfg) {
						path := append(append([]sop{}, n.path...), o)
						m, who, err := c17RunPath(dir, cfg, path, false)
						mu.Lock()
						transitions++
						if err != nil {
							if who == "engine" {
								c.EngineError("%v", err)
								stop.Store(true)
							} else {
								c.Violation("storage/"+who+"/"+c17ErrClass(err.Error()), err.Error(), path)
							}
							mu.Unlock()
							continue
						}
						k := m.key()
						hk := hashOf(k)
						if _, ok := visited[hk]; !ok {
							visited[hk] = struct{}{}
							states++
							c.Outcome(hex.EncodeToString(hk[:8]))
							next = append(next, node{path: path, st: m})
							if c.WantSample() && len(path) >= 6 {
								c.Sample(map[string]any{"ops": fmt.Sprint(path), "state": k})
							}
						}
						mu.Unlock()
					}
				}
			}()
		}
		wg.Wait()
		if c.NViolations() > 20 {
			c.Cap("stopped after 20 violations")
			break
		}
		// deterministic order
		sort.Slice(next, func(a, b int) bool { return next[a].st.key() < next[b].st.key() })
		frontier = next
		depth++
	}
	c.AddStates(states)
	c.AddTransitions(transitions)
	c.AddExec(transitions)
	c.Count("bfs_depth", int64(depth))
}
