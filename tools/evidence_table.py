#!/usr/bin/env python3
"""Prints a markdown table of what the evidence files under /verif/evidence currently say (one row per property)."""
import json, glob, os
rows = []
for f in sorted(glob.glob(os.path.join(os.path.dirname(__file__), "..", "evidence", "C*.json"))):
    d = json.load(open(f))
    c = d["coverage"]
    rows.append((d["property_id"], d.get("tier", ""), d.get("level", ""), c.get("evaluations", 0), c.get("states_explored", c.get("states", "")),
                 c.get("transitions", ""), c.get("distinct_nontrivial", ""), c.get("exhaustive", ""), len(c.get("caps_hit") or []), round(d.get("wall_s", 0))))
print("| property | tier | level | executions | states | transitions | distinct outcomes | exhaustive within bounds | caps | wall s |")
print("|---|---|---|---|---|---|---|---|---|---|")
for r in rows:
    print("| " + " | ".join(str(x) for x in r) + " |")
