#!/usr/bin/env python3
"""Mutation sweep (tooling, not a registered check).

Enumerates single-token mutants of the library sources in a scratch git worktree (never in /repo), discards the
ones that do not compile or that the repository's own test suite kills, and runs the quick checks of the properties
anchored in the mutated file against the rest (VERIF_REPO=<worktree>, stop at the first violation). Survivors are
listed for manual review: each is either an equivalent mutant or a gap in the explored space / oracles.

usage: mutate.py --out DIR [--files f1,f2] [--every K] [--offset O] [--max N] [--props C01,C02]
"""
import argparse, json, os, re, subprocess, sys, time, hashlib

REPO = "/repo"
WT = os.environ.get("MUT_WT", "/tmp/mutwt")
ENV = dict(os.environ, GOFLAGS="-mod=mod", GOPROXY="off", GOSUMDB="off", GOTOOLCHAIN="local")

OPS = [
    (r">=", ">"), (r"<=", "<"), (r"(?<![<>=!])>(?![=>])", ">="), (r"(?<![<>=!-])<(?![=<-])", "<="),
    (r"==", "!="), (r"!=", "=="), (r"&&", "||"), (r"\|\|", "&&"),
    (r"\+ 1\b", "+ 0"), (r"- 1\b", "- 0"), (r"\+= 1\b", "+= 2"), (r"\+\+", "--"),
    (r"\btrue\b", "false"), (r"\bfalse\b", "true"),
    (r"!(?=[a-zA-Z(])", ""),
    (r"\bBroadcast\(\)", "Signal()"),
    (r"\.Lock\(\)", ".TryLock()"),
]


def sh(cmd, cwd=None, timeout=1800, env=None):
    # own process group, killed as a whole on timeout (a hung test binary would keep the suite's fixed TCP port)
    import signal
    p = subprocess.Popen(cmd, shell=True, cwd=cwd, env=env or ENV, stdout=subprocess.PIPE, stderr=subprocess.STDOUT, start_new_session=True)
    try:
        out, _ = p.communicate(timeout=timeout)
    except subprocess.TimeoutExpired:
        os.killpg(p.pid, signal.SIGKILL)
        p.communicate()
        raise
    return p.returncode, out.decode(errors="replace")


def anchors():
    m = {}
    for l in open("/verif/properties.jsonl"):
        d = json.loads(l)
        for f in d["anchors"]["files"]:
            m.setdefault(f, []).append(d["id"])
    return m


def mutants(path, text):
    lines = text.split("\n")
    infunc = False
    for i, l in enumerate(lines):
        s = l.strip()
        if s.startswith("func "):
            infunc = True
        if not infunc or s.startswith("//") or s.startswith("import") or s.startswith("package"):
            continue
        code = l.split("//")[0]
        if '"' in code and ("fmt." in code or "Errorf" in code or "errors.New" in code):
            continue  # messages
        for oi, (pat, rep) in enumerate(OPS):
            for mt in re.finditer(pat, code):
                # not inside a string literal (crude: even number of quotes before)
                if code[:mt.start()].count('"') % 2 == 1 or code[:mt.start()].count("`") % 2 == 1:
                    continue
                nl = code[:mt.start()] + rep + code[mt.end():] + l[len(code):]
                yield i, oi, mt.start(), l, nl


def main():
    ap = argparse.ArgumentParser()
    ap.add_argument("--out", required=True)
    ap.add_argument("--files", default="")
    ap.add_argument("--every", type=int, default=1)
    ap.add_argument("--offset", type=int, default=0)
    ap.add_argument("--max", type=int, default=10**9)
    ap.add_argument("--props", default="")
    a = ap.parse_args()
    os.makedirs(a.out, exist_ok=True)
    anc = anchors()
    files = [f for f in a.files.split(",") if f] or sorted(anc)
    sh(f"git -C {REPO} worktree remove --force {WT}; rm -rf {WT}; git -C {REPO} worktree add --detach {WT} HEAD")
    log = open(os.path.join(a.out, "sweep.jsonl"), "a")
    done = set()
    try:
        for l in open(os.path.join(a.out, "sweep.jsonl")):
            done.add(json.loads(l)["id"])
    except Exception:
        pass
    n = 0
    k = 0
    for f in files:
        p = os.path.join(WT, f)
        if not os.path.exists(p):
            continue
        orig = open(p).read()
        props = [x for x in a.props.split(",") if x] or anc.get(f, [])
        cost = "C16 C13 C11 C10 C12 C17 C18 C14 C19 C15 C05 C01 C02 C03 C04 C20 C09 C06 C07 C08".split()
        props = sorted(props, key=cost.index)
        for (ln, oi, col, old, new) in mutants(f, orig):
            k += 1
            if (k - 1) % a.every != a.offset:
                continue
            mid = hashlib.sha1(f"{f}:{ln}:{oi}:{col}".encode()).hexdigest()[:10]
            if mid in done:
                continue
            if n >= a.max:
                break
            n += 1
            lines = orig.split("\n")
            lines[ln] = new
            open(p, "w").write("\n".join(lines))
            rec = {"id": mid, "file": f, "line": ln + 1, "old": old.strip(), "new": new.strip(), "props": props}
            t0 = time.time()
            try:
                rc, out = sh("go build . ./pkg/... && go vet . ./pkg/... 2>&1 | grep -v '^#' | head -0", cwd=WT, timeout=300)
                rc, out = sh("go build . ./pkg/...", cwd=WT, timeout=300)
                if rc != 0:
                    rec["result"] = "does-not-compile"
                else:
                    for attempt in range(8):
                        rc, out = sh("flock /tmp/mut-suite.lock go test -vet=off -count=1 -timeout 90s . ./pkg/...", cwd=WT, timeout=600)
                        if rc != 0 and "address already in use" in out:
                            time.sleep(25)  # somebody else runs the repository suite (fixed TCP port): retry
                            continue
                        break
                    if rc != 0 and "address already in use" in out:
                        print("port of the repository suite is taken: aborting", flush=True)
                        open(p, "w").write(orig)
                        sys.exit(3)
                    if rc != 0:
                        rec["result"] = "killed-by-repo-suite"
                        m = re.findall(r"--- FAIL: (\S+)", out)
                        rec["suite_test"] = m[0] if m else out[-200:]
                    else:
                        rec["result"] = "SURVIVED"
                        rec["ran"] = []
                        for pr in props:
                            env = dict(ENV, VERIF_REPO=WT, VERIF_STOP_AT_FIRST="1")
                            rc, out = sh(f"timeout 900 /verif/bin/vcheck {pr} --tier quick --no-evidence", env=env, timeout=1000)
                            rec["ran"].append([pr, rc])
                            if rc == 1:
                                sig = re.findall(r"signature: (.*)", out)
                                rec["result"] = "killed-by-" + pr
                                rec["signature"] = sig[0][:200] if sig else ""
                                break
                            if rc not in (0, 1):
                                rec["result"] = "engine-error-" + pr
                                rec["detail"] = out[-1500:]
                                break
            except subprocess.TimeoutExpired:
                rec["result"] = "timeout"
            finally:
                open(p, "w").write(orig)
            rec["secs"] = round(time.time() - t0, 1)
            log.write(json.dumps(rec) + "\n")
            log.flush()
            print(rec["id"], f, ln + 1, rec["result"], rec.get("signature", ""), rec["secs"], flush=True)
    sh(f"git -C {REPO} worktree remove --force {WT}; rm -rf {WT}")


if __name__ == "__main__":
    main()
