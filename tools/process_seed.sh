#!/bin/bash
# process_seed.sh <Cxx> <letter> <worktree>: copy a sub-agent's seed into /verif/seeded, verify it, try the property's quick check on it (scratch worktree)
P=$1; L=$2; W=$3
D=/verif/seeded/$P-$L
mkdir -p $D; cp $W/out/* $D/ || exit 2
git -C /repo worktree remove --force $W >/dev/null 2>&1
echo "== $P-$L verify"; timeout 900 /verif/tools/verify_seed.sh $D 2>&1 | tail -1
echo "== $P-$L try"; timeout 2400 /verif/tools/try_seed_wt.sh $D $P --tier quick --budget 30m 2>&1 | grep -E "signature:|tier=|try_seed" | cut -c1-250 | head -6
