#!/bin/bash
# seed_matrix.sh: apply every seeded change in turn, run its property's quick check, record what was reported.
# usage: seed_matrix.sh [pattern [outfile]]   e.g. seed_matrix.sh 'C*-l' seeded/RESULTS_repo.md   (default: every seed, seeded/RESULTS_repo.md)
cd /verif
pat=${1:-*}
out=${2:-seeded/RESULTS_repo.md}
echo "| seed | property check | exit | signatures reported |" > $out
echo "|---|---|---|---|" >> $out
for d in seeded/$pat/; do
  n=$(basename $d); p=${n%%-*}
  [ -f $d/patch.diff ] || continue
  if [ -n "$(git -C /repo status --porcelain)" ]; then echo "/repo not clean"; exit 2; fi
  git -C /repo apply /verif/$d/patch.diff 2>/dev/null || git -C /repo apply -C1 /verif/$d/patch.diff 2>/dev/null || git -C /repo apply -3 /verif/$d/patch.diff 2>/dev/null || {
    git -C /repo reset -q; git -C /repo checkout -- .; git -C /repo clean -fdq
    echo "| $n | $p | patch does not apply | |" >> $out; echo "$n -> patch does not apply"; continue; }
  # (stops dispatching scenarios after the first violation: the signatures listed are the first ones reported)
  log=$(VERIF_STOP_AT_FIRST=1 ./bin/vcheck $p --tier quick --no-evidence 2>&1); rc=$?
  # undo, including files the change added
  git -C /repo reset -q; git -C /repo checkout -- .; git -C /repo clean -fdq
  sigs=$(echo "$log" | grep -E '^\s+signature:' | sed 's/^\s*signature: //' | sort -u | tr '\n' ';' | cut -c1-300)
  echo "| $n | $p | $rc | $sigs |" >> $out
  echo "$n -> exit $rc: $sigs"
  python3 - "$d/meta.json" "$p" "$rc" "$sigs" <<'PY'
import json,sys
p=sys.argv[1]
try: m=json.load(open(p))
except Exception: m={}
m['verified']={'scratch_worktree':'tools/verify_seed.sh: patch applies, repository suite passes with it, demonstration fails with it and passes without it'}
m['check_result']={'command':'bin/vcheck %s --tier quick (with the change applied to /repo, undone afterwards)'%sys.argv[2],'exit':int(sys.argv[3]),'signatures':[s for s in sys.argv[4].split(';') if s]}
json.dump(m,open(p,'w'),indent=1)
PY
done
