#!/bin/bash
# seed_matrix_par.sh [lanes]: like seed_matrix.sh, but every seeded change is applied to its own scratch worktree of /repo's HEAD
# (outside /repo and /verif, removed right afterwards) and the property's quick check is built from that tree (VERIF_REPO), so that
# several seeds can be tried at once and /repo is never modified. Writes seeded/RESULTS.md and the check_result of every meta.json.
cd /verif
lanes=${1:-4}
tmp=$(mktemp -d /tmp/seedmatrix.XXXXXX)
ls -d seeded/*/ | while read d; do [ -f $d/patch.diff ] && echo $d; done > $tmp/all
one() {
  d=$1; tmp=$2
  n=$(basename $d); p=${n%%-*}
  W=$(mktemp -d /tmp/seedwt.XXXXXX); rmdir $W
  git -C /repo worktree add --detach $W HEAD >/dev/null 2>&1 || { echo "$n|$p|worktree failed|" > $tmp/$n.res; return; }
  if git -C $W apply /verif/$d/patch.diff 2>/dev/null || git -C $W apply -C1 /verif/$d/patch.diff 2>/dev/null || git -C $W apply -3 /verif/$d/patch.diff 2>/dev/null; then
    log=$(VERIF_REPO=$W VERIF_STOP_AT_FIRST=1 ./bin/vcheck $p --tier quick --no-evidence 2>&1); rc=$?
    sigs=$(echo "$log" | grep -E '^\s+signature:' | sed 's/^\s*signature: //' | sort -u | tr '\n' ';' | cut -c1-300)
    echo "$n|$p|$rc|$sigs" > $tmp/$n.res
  else
    echo "$n|$p|patch does not apply|" > $tmp/$n.res
  fi
  git -C /repo worktree remove --force $W >/dev/null 2>&1; rm -rf $W
  echo "$n -> $(cut -d'|' -f3- $tmp/$n.res)"
}
export -f one
cat $tmp/all | xargs -P $lanes -I{} bash -c "one {} $tmp"
out=seeded/RESULTS.md
echo "Every seeded change applied to a scratch worktree of /repo's HEAD, \`VERIF_REPO=<worktree> VERIF_STOP_AT_FIRST=1 bin/vcheck <property> --tier quick\` (the check is built from that tree; it stops dispatching scenarios after the first violation, so the signatures are the first ones reported). exit 1 = reported." > $out
echo >> $out
echo "| seed | property check | exit | signatures reported |" >> $out
echo "|---|---|---|---|" >> $out
for d in $(cat $tmp/all); do
  n=$(basename $d)
  [ -f $tmp/$n.res ] || continue
  IFS='|' read n p rc sigs < $tmp/$n.res
  echo "| $n | $p | $rc | $sigs |" >> $out
  python3 - "$d/meta.json" "$p" "$rc" "$sigs" <<'PY'
import json,sys
p=sys.argv[1]
try: m=json.load(open(p))
except Exception: m={}
m['verified']={'scratch_worktree':'tools/verify_seed.sh: patch applies, repository suite passes with it, demonstration fails with it and passes without it'}
try: rc=int(sys.argv[3])
except ValueError: rc=sys.argv[3]
m['check_result']={'command':'VERIF_REPO=<scratch worktree of /repo HEAD with the change applied> bin/vcheck %s --tier quick'%sys.argv[2],'exit':rc,'signatures':[s for s in sys.argv[4].split(';') if s]}
json.dump(m,open(p,'w'),indent=1)
PY
done
grep -c '| 1 |' $out
rm -rf $tmp
