#!/bin/bash
# seed_matrix_rerun.sh <lanes> <seed>...: re-runs the named seeds the way seed_matrix_par.sh does (scratch worktree of /repo's
# HEAD, VERIF_REPO, stop at first), but with a 30-minute budget instead of the quick tier's 300 s deadline, and replaces their
# rows in seeded/RESULTS.md and the check_result of their meta.json. For seeds whose quick check ran into the deadline while the
# machine was loaded by the other lanes of the matrix (exit 0 with scenarios left undone says nothing about the seed).
cd /verif
lanes=$1; shift
tmp=$(mktemp -d /tmp/seedmatrix.XXXXXX)
one() {
  n=$1; tmp=$2; d=seeded/$n
  p=${n%%-*}
  W=$(mktemp -d /tmp/seedwt.XXXXXX); rmdir $W
  git -C /repo worktree add --detach $W HEAD >/dev/null 2>&1 || { echo "$n|$p|worktree failed|" > $tmp/$n.res; return; }
  if git -C $W apply /verif/$d/patch.diff 2>/dev/null || git -C $W apply -C1 /verif/$d/patch.diff 2>/dev/null || git -C $W apply -3 /verif/$d/patch.diff 2>/dev/null; then
    log=$(VERIF_REPO=$W VERIF_STOP_AT_FIRST=1 ./bin/vcheck $p --tier quick --no-evidence --budget 30m 2>&1); rc=$?
    sigs=$(echo "$log" | grep -E '^\s+signature:' | sed 's/^\s*signature: //' | sort -u | tr '\n' ';' | cut -c1-300)
    echo "$n|$p|$rc|$sigs" > $tmp/$n.res
  else
    echo "$n|$p|patch does not apply|" > $tmp/$n.res
  fi
  git -C /repo worktree remove --force $W >/dev/null 2>&1; rm -rf $W
  echo "$n -> $(cut -d'|' -f3- $tmp/$n.res)"
}
export -f one
printf '%s\n' "$@" | xargs -P $lanes -I{} bash -c "one {} $tmp"
for n in "$@"; do
  [ -f $tmp/$n.res ] || continue
  IFS='|' read n p rc sigs < $tmp/$n.res
  python3 - "$n" "$p" "$rc" "$sigs" <<'PY'
import json,sys,re
n,p,rc,sigs=sys.argv[1:5]
out='seeded/RESULTS.md'
lines=open(out).read().split('\n')
row='| %s | %s | %s | %s |'%(n,p,rc,sigs)
done=False
for i,l in enumerate(lines):
    if l.startswith('| %s |'%n):
        lines[i]=row; done=True
if not done: lines.append(row)
open(out,'w').write('\n'.join(lines))
mp='seeded/%s/meta.json'%n
try: m=json.load(open(mp))
except Exception: m={}
try: rcv=int(rc)
except ValueError: rcv=rc
m['check_result']={'command':'VERIF_REPO=<scratch worktree of /repo HEAD with the change applied> bin/vcheck %s --tier quick --budget 30m'%p,'exit':rcv,'signatures':[s for s in sigs.split(';') if s]}
json.dump(m,open(mp,'w'),indent=1)
PY
done
rm -rf $tmp
