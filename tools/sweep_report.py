#!/usr/bin/env python3
"""sweep_report.py DIR...: writes /verif/seeded/MUTATION_SWEEP.md from the sweep.jsonl files of tools/mutate.py runs and
the manual classification of the survivors in /verif/seeded/sweep_classification.json."""
import json, sys, collections, os
recs = {}
for d in sys.argv[1:]:
    try:
        for l in open(os.path.join(d, "sweep.jsonl")):
            r = json.loads(l); recs[r["id"]] = r
    except FileNotFoundError:
        pass
cls = json.load(open("/verif/seeded/sweep_classification.json"))
cnt = collections.Counter()
bycheck = collections.Counter()
for r in recs.values():
    x = r["result"]
    if x.startswith("killed-by-C"):
        bycheck[x[len("killed-by-"):]] += 1; x = "killed by a /verif check"
    elif x.startswith("engine-error"):
        x = "engine error at the time (see table)"
    cnt[x] += 1
out = ["# Mutation sweep (tools/mutate.py)", "",
       "Single-token mutants (relational / logical / arithmetic operator swaps, boolean flips, removed negations, Broadcast->Signal, Lock->TryLock) of the library files the properties are anchored in, every third mutant of each file, in a scratch worktree. A mutant that compiles and that the repository's own suite does not kill is run against the quick checks of the properties anchored in its file (cheapest first, stop at the first violation).", "",
       f"Mutants run: {len(recs)}", ""]
for k, v in cnt.most_common():
    out.append(f"* {k}: {v}")
out += ["", "Killed by check: " + ", ".join(f"{k} {v}" for k, v in sorted(bycheck.items())), "",
        "## Survivors and engine errors, classified by hand", "",
        "| mutant | file:line | change | class | note |", "|---|---|---|---|---|"]
for r in sorted(recs.values(), key=lambda r: (r["file"], r["line"])):
    if r["result"].startswith("killed") or r["result"] == "does-not-compile":
        continue
    c = cls.get(r["id"], ["unclassified", ""])
    chg = (r["old"][:60] + " => " + r["new"][:60]).replace("|", "\\|")
    out.append(f"| {r['id']} | {r['file']}:{r['line']} | `{chg}` | {c[0]} | {c[1]} |")
open("/verif/seeded/MUTATION_SWEEP.md", "w").write("\n".join(out) + "\n")
print("\n".join(out[:12]))
