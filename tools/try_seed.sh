#!/bin/bash
# try_seed.sh <seed-dir> <property> [extra vcheck args]: apply the seeded change to /repo, run the check, undo.
set -u
S=$(cd "$1" && pwd); P=$2; shift 2
if [ -n "$(git -C /repo status --porcelain)" ]; then echo "/repo not clean"; exit 2; fi
git -C /repo apply "$S/patch.diff" 2>/dev/null || git -C /repo apply -C1 "$S/patch.diff" 2>/dev/null || git -C /repo apply -3 "$S/patch.diff" || { git -C /repo checkout -- . ; git -C /repo reset -q; exit 2; }
/verif/bin/vcheck $P --no-evidence "$@"; rc=$?
git -C /repo reset -q; git -C /repo checkout -- . 
echo "try_seed: $P on $(basename $S): exit=$rc"
exit $rc
