#!/bin/bash
# try_seed.sh <seed-dir> <property> [extra vcheck args]: apply the seeded change to /repo, run the check, undo.
set -u
S=$(cd "$1" && pwd); P=$2; shift 2
if [ -n "$(git -C /repo status --porcelain)" ]; then echo "/repo not clean"; exit 2; fi
git -C /repo apply "$S/patch.diff" || exit 2
/verif/bin/vcheck $P --no-evidence "$@"; rc=$?
git -C /repo checkout -- . 
echo "try_seed: $P on $(basename $S): exit=$rc"
exit $rc
