#!/bin/bash
# try_seed_wt.sh <seed-dir> <property> [extra vcheck args]: like try_seed.sh but in a scratch worktree (VERIF_REPO), so that
# /repo stays untouched while other runs are active. The recorded matrix (seed_matrix.sh) applies the change to /repo itself.
set -u
S=$(cd "$1" && pwd); P=$2; shift 2
W=$(mktemp -d /tmp/tryseed.XXXXXX); rmdir "$W"
git -C /repo worktree add --detach "$W" HEAD >/dev/null 2>&1 || exit 2
trap 'git -C /repo worktree remove --force "$W" >/dev/null 2>&1; rm -rf "$W"' EXIT
git -C "$W" apply "$S/patch.diff" 2>/dev/null || git -C "$W" apply -C1 "$S/patch.diff" 2>/dev/null || git -C "$W" apply -3 "$S/patch.diff" || exit 2
VERIF_REPO="$W" VERIF_STOP_AT_FIRST=1 /verif/bin/vcheck $P --no-evidence "$@"; rc=$?
echo "try_seed_wt: $P on $(basename $S): exit=$rc"
exit $rc
