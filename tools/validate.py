#!/opt/veriftools/pyvenv/bin/python
import json, jsonschema, glob, sys
ok = True
try:
    jsonschema.validate(json.load(open('/verif/MANIFEST.json')), json.load(open('/root/.vp/MANIFEST.schema.json')))
except Exception as e:
    ok = False; print("MANIFEST invalid:", e)
sch = json.load(open('/root/.vp/EVIDENCE.schema.json'))
for f in sorted(glob.glob('/verif/evidence/*.json')):
    try:
        jsonschema.validate(json.load(open(f)), sch)
    except Exception as e:
        ok = False; print(f, "invalid:", str(e)[:300])
print("valid" if ok else "INVALID")
sys.exit(0 if ok else 1)
