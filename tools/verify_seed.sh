#!/bin/bash
# verify_seed.sh <seed-dir containing patch.diff, demo_test.go, meta.json> 
# Confirms in a scratch worktree: patch applies, repo suite passes with it, demo fails with it, demo passes without it.
set -u
export GOFLAGS=-mod=mod GOPROXY=off GOSUMDB=off GOTOOLCHAIN=local
S=$(cd "$1" && pwd)
W=$(mktemp -d /tmp/vseed.XXXXXX)
rmdir "$W"
git -C /repo worktree add --detach "$W" HEAD >/dev/null 2>&1 || { echo "worktree failed"; exit 2; }
trap 'git -C /repo worktree remove --force "$W" >/dev/null 2>&1; rm -rf "$W"' EXIT
cd "$W"
# demo placement: first comment lines of demo_test.go mention a path; fall back to package clause
pkg=$(grep -m1 '^package ' "$S/demo_test.go" | awk '{print $2}')
case "$pkg" in
  gohlslib) D=. ;;
  storage) D=pkg/storage ;;
  playlist) D=pkg/playlist ;;
  primitives) D=pkg/playlist/primitives ;;
  codecparams) D=pkg/codecparams ;;
  codecs) D=pkg/codecs ;;
  *) echo "unknown demo package $pkg"; exit 2 ;;
esac
res() { echo "$1: $2"; }
cp "$S/demo_test.go" "$D/zz_seed_demo_test.go"
if go test -vet=off -count=1 -run '^TestSeedDemo$' ./$D >/tmp/vs.$$.a 2>&1; then res demo_without_patch PASS; A=1; else res demo_without_patch FAIL; A=0; tail -5 /tmp/vs.$$.a; fi
rm "$D/zz_seed_demo_test.go"
git apply "$S/patch.diff" || { echo "patch does not apply"; exit 2; }
# the repository suite listens on a fixed TCP port: one run at a time on this machine, retry while somebody else holds the port
for attempt in 1 2 3 4 5 6 7 8 9 10 11 12; do
  if flock /tmp/mut-suite.lock go test -vet=off -count=1 . ./pkg/... >/tmp/vs.$$.b 2>&1; then B=1; break; fi
  B=0
  grep -q "address already in use" /tmp/vs.$$.b || break
  sleep 20
done
if [ $B = 1 ]; then res suite_with_patch PASS; else res suite_with_patch FAIL; tail -15 /tmp/vs.$$.b; fi
cp "$S/demo_test.go" "$D/zz_seed_demo_test.go"
if go test -vet=off -count=1 -run '^TestSeedDemo$' ./$D >/tmp/vs.$$.c 2>&1; then res demo_with_patch PASS; C=0; else res demo_with_patch FAIL; C=1; grep -m3 -E 'Error:|FAIL|panic|zz_seed' /tmp/vs.$$.c | head -5; fi
rm -f /tmp/vs.$$.*
if [ $A = 1 ] && [ $B = 1 ] && [ $C = 1 ]; then echo "SEED OK"; exit 0; else echo "SEED REJECTED"; exit 1; fi
